From Coq Require Import List NArith ZArith Bool Lia.
From GIV.Lib Require Import Regex Str.
From GIV.Gen Require Import ConstWrap.
From GIV.Model Require Import C13 C13Spec.
Import ListNotations.
Local Open Scope N_scope.

(* ------------------------------------------------------------ constants *)
(* every documented width is the exponent the regenerated table of _create_const wraps by *)
Lemma widths_in_table :
  forallb (fun p => match wrap_lookup (fst p) const_wrap_table with Some k => Z.eqb k (snd p) && Z.ltb 0 k | None => false end)
          unsigned_widths = true.
Proof. vm_compute. reflexivity. Qed.

Lemma width_lookup_in fund k : forall tbl, width_lookup fund tbl = Some k -> In (fund, k) tbl.
Proof.
  induction tbl as [|[n w] t IH]; cbn [width_lookup]; [discriminate|].
  destruct (str_eqb n fund) eqn:E.
  - apply str_eqb_eq in E. subst. intro H. injection H as <-. left. reflexivity.
  - intro H. right. exact (IH H).
Qed.

Lemma width_cases fund k : unsigned_width fund = Some k ->
  wrap_lookup fund const_wrap_table = Some k /\ (0 < k)%Z.
Proof.
  intro H. apply width_lookup_in in H. pose proof widths_in_table as W. rewrite forallb_forall in W.
  specialize (W _ H). cbn [fst snd] in W. destruct (wrap_lookup fund const_wrap_table) as [k'|]; [|discriminate].
  apply andb_true_iff in W. destruct W as [A B]. apply Z.eqb_eq in A. apply Z.ltb_lt in B. subst. split; [reflexivity|exact B].
Qed.

Theorem const_in_range fund k v :
  unsigned_width fund = Some k -> (0 <= const_value fund v < 2 ^ k)%Z.
Proof.
  intro H. apply width_cases in H as [Hl Hk]. unfold const_value. rewrite Hl.
  apply Z.mod_pos_bound. apply Z.pow_pos_nonneg; lia.
Qed.

Theorem const_congruent fund k v :
  unsigned_width fund = Some k -> ((const_value fund v - v) mod 2 ^ k = 0)%Z.
Proof.
  intro H. apply width_cases in H as [Hl Hk]. unfold const_value. rewrite Hl.
  rewrite Zminus_mod_idemp_l. rewrite Z.sub_diag. apply Zmod_0_l.
Qed.

Theorem const_other_types fund v : wrap_lookup fund const_wrap_table = None -> const_value fund v = v.
Proof. intro H. unfold const_value. rewrite H. reflexivity. Qed.

(* ------------------------------------------------------------ split / join *)
Definition nosep (sep : N) (w : str) : Prop := ~ In sep w.

Lemma split_aux_nonempty sep s cur : split_on_aux sep s cur <> [].
Proof. revert cur; induction s as [|c t IH]; intro cur; simpl; [discriminate|]. destruct (N.eqb c sep); [discriminate|apply IH]. Qed.

Lemma join_cons sep x l : l <> [] -> join sep (x :: l) = x ++ sep ++ join sep l.
Proof. destruct l; [contradiction|reflexivity]. Qed.

Lemma join_split_aux sep s : forall cur, join [sep] (split_on_aux sep s cur) = rev cur ++ s.
Proof.
  induction s as [|c t IH]; intro cur; simpl.
  - rewrite app_nil_r. reflexivity.
  - destruct (N.eqb_spec c sep) as [->|Hc].
    + rewrite join_cons by apply split_aux_nonempty. rewrite IH. reflexivity.
    + rewrite IH. simpl. rewrite <- app_assoc. reflexivity.
Qed.
Lemma join_words s : join [95] (words s) = s.
Proof. unfold words, split_on. rewrite join_split_aux. reflexivity. Qed.

Lemma split_aux_word sep w : forall r cur, nosep sep w ->
  split_on_aux sep (w ++ r) cur = split_on_aux sep r (rev w ++ cur).
Proof.
  induction w as [|c t IH]; intros r cur H; simpl; [reflexivity|].
  destruct (N.eqb_spec c sep) as [->|Hc]; [exfalso; apply H; left; reflexivity|].
  rewrite IH by (intro Hin; apply H; right; exact Hin). rewrite <- app_assoc. reflexivity.
Qed.

Lemma split_join sep l : l <> [] -> Forall (nosep sep) l -> split_on sep (join [sep] l) = l.
Proof.
  unfold split_on. induction l as [|x t IH]; intros Hne Hf; [contradiction|].
  inversion Hf as [|? ? Hx Ht]; subst. destruct t as [|y t'].
  - simpl. rewrite <- (app_nil_r x) at 1. rewrite split_aux_word by exact Hx. simpl.
    rewrite app_nil_r, rev_involutive. reflexivity.
  - rewrite join_cons by discriminate. rewrite split_aux_word by exact Hx. simpl app.
    simpl split_on_aux. rewrite N.eqb_refl. rewrite app_nil_r, rev_involutive. f_equal.
    apply IH; [discriminate|exact Ht].
Qed.

Lemma split_aux_nosep sep s : forall cur, nosep sep cur -> Forall (nosep sep) (split_on_aux sep s cur).
Proof.
  induction s as [|c t IH]; intros cur H; simpl.
  - constructor; [|constructor]. intro Hin. apply in_rev in Hin. exact (H Hin).
  - destruct (N.eqb_spec c sep) as [->|Hc].
    + constructor; [intro Hin; apply in_rev in Hin; exact (H Hin)|apply IH; intros []].
    + apply IH. intros [Heq|Hin]; [congruence|exact (H Hin)].
Qed.
Lemma words_nosep s : Forall (nosep 95) (words s).
Proof. apply split_aux_nosep. intros []. Qed.

Lemma join_app sep a b : a <> [] -> b <> [] -> join sep (a ++ b) = join sep a ++ sep ++ join sep b.
Proof.
  intros Ha Hb. induction a as [|x t IH]; [contradiction|]. destruct t as [|y t'].
  - simpl app. rewrite join_cons by exact Hb. reflexivity.
  - change ((x :: y :: t') ++ b) with (x :: (y :: t') ++ b).
    rewrite join_cons by discriminate. rewrite IH by discriminate.
    rewrite (join_cons sep x (y :: t')) by discriminate. rewrite <- !app_assoc. reflexivity.
Qed.

(* ------------------------------------------------------------ common_prefix *)
Definition render_prefix (l : list str) : str :=
  match l with [] => [] | _ => join [95] l ++ [95] end.

Lemma render_prefix_nil l : render_prefix l = [] <-> l = [].
Proof.
  destruct l as [|x t]; [simpl; tauto|]. split; [|discriminate].
  unfold render_prefix. intro H. apply app_eq_nil in H as [_ H]. discriminate.
Qed.

Lemma cp_go_diff wa : forall wb common a b,
  is_prefix wa wb = false -> is_prefix wb wa = false ->
  cp_go wa wb common a b = render_prefix (common ++ lcp2 wa wb).
Proof.
  induction wa as [|x wa' IH]; intros wb common a b H1 H2; [discriminate|].
  destruct wb as [|y wb']; [discriminate|]. simpl in *.
  destruct (str_eqb x y) eqn:E.
  - apply str_eqb_eq in E. subst y. rewrite str_eqb_refl in H2. simpl in *.
    rewrite IH by assumption. rewrite <- app_assoc. reflexivity.
  - rewrite app_nil_r. destruct common; reflexivity.
Qed.

Lemma is_prefix_refl_sym x y : str_eqb x y = str_eqb y x.
Proof.
  destruct (str_eqb x y) eqn:E1, (str_eqb y x) eqn:E2; try reflexivity.
  - apply str_eqb_eq in E1. subst. rewrite str_eqb_refl in E2. discriminate.
  - apply str_eqb_eq in E2. subst. rewrite str_eqb_refl in E1. discriminate.
Qed.

Definition noempty (w : list str) : Prop := Forall (fun x => x <> []) w.

(* a trailing "" (from the '_' that ends a prefix) never matters against real words *)
Lemma lcp2_tail L : forall wc tail, (tail = [] \/ tail = [[]]) -> noempty wc ->
  lcp2 (L ++ tail) wc = lcp2 L wc.
Proof.
  induction L as [|x L' IH]; intros wc tail Ht Hwc; simpl.
  - destruct Ht as [-> | ->]; [reflexivity|]. destruct wc as [|y wc']; [reflexivity|]. simpl.
    inversion Hwc; subst. destruct y; [contradiction|reflexivity].
  - destruct wc as [|y wc']; [reflexivity|]. inversion Hwc; subst.
    destruct (str_eqb x y); [f_equal; apply IH; assumption|reflexivity].
Qed.

Lemma is_prefix_tail_l L : forall wc, noempty wc -> is_prefix (L ++ [[]]) wc = false.
Proof.
  induction L as [|x L' IH]; intros wc Hwc; simpl.
  - destruct wc as [|y wc']; [reflexivity|]. inversion Hwc; subst. destruct y; [contradiction|reflexivity].
  - destruct wc as [|y wc']; [reflexivity|]. inversion Hwc; subst. rewrite IH by assumption.
    apply andb_false_r.
Qed.

Lemma is_prefix_tail_r wc : forall L tail, (tail = [] \/ tail = [[]]) -> noempty wc ->
  is_prefix wc (L ++ tail) = is_prefix wc L.
Proof.
  induction wc as [|y wc' IH]; intros L tail Ht Hwc; [reflexivity|].
  inversion Hwc; subst. destruct L as [|x L']; simpl.
  - destruct Ht as [-> | ->]; [reflexivity|]. simpl. destruct y; [contradiction|reflexivity].
  - rewrite IH by assumption. reflexivity.
Qed.

Lemma is_prefix_trans a : forall b c, is_prefix a b = true -> is_prefix b c = true -> is_prefix a c = true.
Proof.
  induction a as [|x a' IH]; intros b c H1 H2; [reflexivity|].
  destruct b as [|y b']; [discriminate|]. destruct c as [|z c']; [discriminate|]. simpl in *.
  apply andb_true_iff in H1 as [E1 P1]. apply andb_true_iff in H2 as [E2 P2].
  apply str_eqb_eq in E1. apply str_eqb_eq in E2. subst. rewrite str_eqb_refl. simpl. eapply IH; eassumption.
Qed.

Lemma lcp2_prefix_l a : forall b, is_prefix (lcp2 a b) a = true.
Proof.
  induction a as [|x a' IH]; intro b; [reflexivity|]. destruct b as [|y b']; [reflexivity|]. simpl.
  destruct (str_eqb x y); [simpl; rewrite str_eqb_refl; apply IH|reflexivity].
Qed.

Lemma words_render L : L <> [] -> Forall (nosep 95) L -> words (render_prefix L) = L ++ [[]].
Proof.
  intros Hne Hf. unfold render_prefix. destruct L as [|x t] eqn:EL; [contradiction|]. rewrite <- EL in *.
  assert (Hj : join [95] L ++ [95] = join [95] (L ++ [[]])).
  { rewrite join_app by (try exact Hne; discriminate). reflexivity. }
  rewrite Hj. unfold words. apply split_join.
  - destruct L; discriminate.
  - apply Forall_app. split; [exact Hf|]. constructor; [intros []|constructor].
Qed.

(* one step of the loop: the running prefix p stands for the word list L (either an
   identifier itself, tail = [], or a rendered prefix, tail = [""]) *)
Lemma step_spec p L tail c :
  words p = L ++ tail -> (tail = [] \/ tail = [[]]) -> noempty (words c) ->
  (tail = [] -> is_prefix L (words c) = false) -> is_prefix (words c) L = false ->
  common_prefix p c = render_prefix (lcp2 L (words c)).
Proof.
  intros Hp Ht Hc H1 H2. unfold common_prefix. rewrite Hp.
  rewrite cp_go_diff.
  - simpl. rewrite lcp2_tail by assumption. reflexivity.
  - destruct Ht as [-> | ->]; [rewrite app_nil_r; apply H1; reflexivity|apply is_prefix_tail_l; exact Hc].
  - rewrite is_prefix_tail_r by assumption. exact H2.
Qed.

Lemma fold_lcp2_nil l : fold_left lcp2 l [] = [].
Proof. induction l as [|x t IH]; simpl; [reflexivity|exact IH]. Qed.

Lemma prefix_forall (P : str -> Prop) a : forall b, is_prefix a b = true -> Forall P b -> Forall P a.
Proof.
  induction a as [|x a' IH]; intros b Hp Hb; [constructor|].
  destruct b as [|y b']; [discriminate|]. simpl in Hp. apply andb_true_iff in Hp as [E Hp'].
  apply str_eqb_eq in E. subst. inversion Hb; subst. constructor; [assumption|eapply IH; eassumption].
Qed.

Definition member_ok (F : list str) (c : str) : Prop :=
  noempty (words c) /\ is_prefix F (words c) = false /\ is_prefix (words c) F = false.

Lemma loop_spec rest : forall p L tail F,
  words p = L ++ tail -> (tail = [] \/ tail = [[]]) ->
  (tail = [] -> L = F) -> (tail = [[]] -> p = render_prefix L) ->
  L <> [] -> Forall (nosep 95) L -> is_prefix L F = true ->
  Forall (member_ok F) rest -> (tail = [[]] \/ rest <> []) ->
  prefix_loop p rest =
  match fold_left lcp2 (map words rest) L with [] => None | l => Some (render_prefix l) end.
Proof.
  induction rest as [|c t IH]; intros p L tail F Hp Ht HtF Htp Hne Hns HLF Hrest Hor.
  - simpl. destruct Hor as [Ht1|Hc]; [|contradiction]. rewrite (Htp Ht1).
    destruct L; [contradiction|reflexivity].
  - inversion Hrest as [|? ? (Hc & Hf1 & Hf2) Hrt]; subst. simpl.
    rewrite (step_spec p L tail c Hp Ht Hc).
    + set (L' := lcp2 L (words c)).
      destruct L' as [|x0 l0] eqn:EL'.
      * simpl. rewrite fold_lcp2_nil. reflexivity.
      * rewrite <- EL' in *.
        assert (HL'L : is_prefix L' L = true) by (unfold L'; apply lcp2_prefix_l).
        assert (HneL' : L' <> []) by (rewrite EL'; discriminate).
        destruct (render_prefix L') as [|r0 rr] eqn:ER.
        { apply render_prefix_nil in ER. contradiction. }
        rewrite <- ER.
        apply (IH (render_prefix L') L' [[]] F).
        -- apply words_render; [exact HneL'|]. eapply prefix_forall; eassumption.
        -- right; reflexivity.
        -- discriminate.
        -- reflexivity.
        -- exact HneL'.
        -- eapply prefix_forall; eassumption.
        -- eapply is_prefix_trans; eassumption.
        -- exact Hrt.
        -- left; reflexivity.
    + intro Ht0. rewrite (HtF Ht0). exact Hf1.
    + destruct (is_prefix (words c) L) eqn:E; [|reflexivity].
      rewrite (is_prefix_trans _ _ _ E HLF) in Hf2. discriminate.
Qed.

Lemma words_nonempty s : words s <> [].
Proof. apply split_aux_nonempty. Qed.

Lemma is_prefix_refl a : is_prefix a a = true.
Proof. induction a as [|x t IH]; [reflexivity|]. simpl. rewrite str_eqb_refl. exact IH. Qed.

(* The prefix computed for an enumeration: the shared whole words followed by '_', or none *)
Theorem enum_prefix_spec first rest :
  rest <> [] -> Forall (member_ok (words first)) rest ->
  enum_common_prefix (first :: rest) =
  match lcp_all (map words (first :: rest)) with [] => None | l => Some (render_prefix l) end.
Proof.
  intros Hne Hrest. unfold enum_common_prefix. destruct rest as [|c t]; [contradiction|].
  simpl map. unfold lcp_all.
  apply (loop_spec (c :: t) first (words first) [] (words first)).
  - rewrite app_nil_r. reflexivity.
  - left; reflexivity.
  - reflexivity.
  - discriminate.
  - apply words_nonempty.
  - apply words_nosep.
  - apply is_prefix_refl.
  - exact Hrest.
  - right; discriminate.
Qed.

(* what is left of a member after cutting that prefix: its remaining words *)
Theorem member_after_prefix L ident rest :
  L <> [] -> rest <> [] -> words ident = L ++ rest ->
  skipn (length (render_prefix L)) ident = join [95] rest.
Proof.
  intros HL Hr Hw. rewrite <- (join_words ident) at 1. rewrite Hw.
  rewrite join_app by assumption. unfold render_prefix. destruct L as [|x t] eqn:E; [contradiction|].
  rewrite <- E. rewrite app_assoc.
  generalize (join [95] L ++ [95]). intro l. induction l as [|a l IH]; simpl; [reflexivity|exact IH].
Qed.

(* ------------------------------------------------------------ the emitted member list *)
Lemma opt_all_map {A B} (f : A -> option B) l : forall out,
  opt_all (map f l) = Some out -> Forall2 (fun x y => f x = Some y) l out.
Proof.
  induction l as [|x t IH]; intros out H; simpl in H.
  - injection H as <-. constructor.
  - destruct (f x) as [y|] eqn:E; [|discriminate].
    destruct (opt_all (map f t)) as [r|] eqn:Er; [|discriminate]. injection H as <-.
    constructor; [exact E|apply IH; reflexivity].
Qed.

(* members appear in declaration order with their exact values and C identifiers;
   private members are left out; nothing else is *)
Theorem create_enum_order_values prefixes unpref ms out :
  create_enum prefixes unpref ms = Some out ->
  map (fun t => (snd (fst t), snd t)) out =
  map (fun m => (m_value m, m_ident m)) (filter (fun m => negb (m_private m)) ms).
Proof.
  unfold create_enum. intro H. apply opt_all_map in H.
  induction H as [|m t l l' Hm _ IH]; [reflexivity|]. simpl. rewrite IH. f_equal.
  destruct (if Nat.ltb 0 _ then _ else _) as [n|]; [|discriminate]. injection Hm as <-. reflexivity.
Qed.

Theorem create_enum_shared prefixes unpref ms first rest L :
  map m_ident ms = first :: rest -> rest <> [] -> Forall (member_ok (words first)) rest ->
  lcp_all (map words (first :: rest)) = L -> L <> [] ->
  create_enum prefixes unpref ms =
  Some (map (fun m => (lower (skipn (length (render_prefix L)) (m_ident m)), m_value m, m_ident m))
            (filter (fun m => negb (m_private m)) ms)).
Proof.
  intros Hids Hne Hok HL HLne. unfold create_enum. rewrite Hids.
  rewrite (enum_prefix_spec first rest Hne Hok). rewrite HL.
  destruct L as [|x l] eqn:EL; [contradiction|]. rewrite <- EL in *.
  assert (Hlen : Nat.ltb 0 (length (render_prefix L)) = true).
  { apply Nat.ltb_lt. destruct (render_prefix L) eqn:ER; [apply render_prefix_nil in ER; contradiction|simpl; lia]. }
  rewrite Hlen. induction (filter (fun m => negb (m_private m)) ms) as [|m t IH]; [reflexivity|].
  simpl. simpl in IH. rewrite IH. reflexivity.
Qed.

Theorem create_enum_unshared prefixes unpref ms first rest :
  map m_ident ms = first :: rest -> rest <> [] -> Forall (member_ok (words first)) rest ->
  lcp_all (map words (first :: rest)) = [] ->
  create_enum prefixes unpref ms =
  opt_all (map (fun m => match strip_symbol prefixes unpref (m_ident m) with
                         | Some n => Some (lower n, m_value m, m_ident m) | None => None end)
               (filter (fun m => negb (m_private m)) ms)).
Proof.
  intros Hids Hne Hok HL. unfold create_enum. rewrite Hids.
  rewrite (enum_prefix_spec first rest Hne Hok). rewrite HL. reflexivity.
Qed.
