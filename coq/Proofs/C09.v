From Coq Require Import List ZArith Bool Lia.
From GIV.Gen Require Import Accessors.
From GIV.Model Require Import C09.
Import ListNotations.
Local Open Scope Z_scope.

(* ------------------------------------------------------------ alignment and multiples of four *)
Lemma node_align4 x : node_align x 4 = ((x + 3) / 4) * 4.
Proof.
  unfold node_align. replace (4 - 1) with (Z.ones 2) by reflexivity.
  rewrite <- Z.ldiff_land, Z.ldiff_ones_r by lia.
  rewrite Z.shiftr_div_pow2, Z.shiftl_mul_pow2 by lia. reflexivity.
Qed.

Lemma node_align_id x : x mod 4 = 0 -> node_align x 4 = x.
Proof.
  intro H. rewrite node_align4. apply Z.mod_divide in H; [|lia]. destruct H as [q ->].
  replace (q * 4 + 3) with (3 + q * 4) by lia. rewrite Z.div_add by lia. reflexivity.
Qed.

Lemma mod4_add a b : a mod 4 = 0 -> b mod 4 = 0 -> (a + b) mod 4 = 0.
Proof.
  intros Ha Hb. apply Z.mod_divide in Ha; [|lia]. apply Z.mod_divide in Hb; [|lia].
  apply Z.mod_divide; [lia|]. apply Z.divide_add_r; assumption.
Qed.
Lemma mod4_mul a b : b mod 4 = 0 -> (a * b) mod 4 = 0.
Proof.
  intro Hb. apply Z.mod_divide in Hb; [|lia]. apply Z.mod_divide; [lia|]. apply Z.divide_mul_r. exact Hb.
Qed.

(* two-byte entries padded to an even count *)
Lemma pad_pairs b k : b mod 4 = 0 -> 0 <= k -> node_align (b + 2 * k) 4 = b + (k + Z.rem k 2) * 2.
Proof.
  intros Hb Hk. rewrite node_align4. rewrite Z.rem_mod_nonneg by lia.
  apply Z.mod_divide in Hb; [|lia]. destruct Hb as [q ->].
  pose proof (Z.div_mod k 2 ltac:(lia)) as Hd. pose proof (Z.mod_pos_bound k 2 ltac:(lia)) as Hm.
  assert (Hc : k mod 2 = 0 \/ k mod 2 = 1) by lia.
  destruct Hc as [Hc|Hc]; rewrite Hc in *.
  - replace (q * 4 + 2 * k + 3) with (3 + (q + k / 2) * 4) by lia. rewrite Z.div_add by lia.
    change (3 / 4) with 0. lia.
  - replace (q * 4 + 2 * k + 3) with (1 + (q + k / 2 + 1) * 4) by lia. rewrite Z.div_add by lia.
    change (1 / 4) with 0. lia.
Qed.

Lemma pad_mod k : 0 <= k -> ((k + Z.rem k 2) * 2) mod 4 = 0.
Proof.
  intro Hk. rewrite Z.rem_mod_nonneg by lia.
  pose proof (Z.div_mod k 2 ltac:(lia)) as Hd. pose proof (Z.mod_pos_bound k 2 ltac:(lia)) as Hm.
  apply Z.mod_divide; [lia|]. exists (k / 2 + k mod 2). lia.
Qed.

(* ------------------------------------------------------------ the field walk *)
Lemma walk_closed fsz cbsz : forall emb pos k, (k <= length emb)%nat ->
  walk pos fsz cbsz emb k = pos + Z.of_nat k * fsz + count_true (firstn k emb) * cbsz.
Proof.
  induction emb as [|b t IH]; intros pos k Hk.
  - destruct k; [|simpl in Hk; lia]. simpl. unfold count_true. simpl. lia.
  - destruct k as [|k']; [simpl; unfold count_true; simpl; lia|].
    simpl in Hk. cbn [walk firstn]. rewrite IH by lia. unfold count_true.
    destruct b; cbn [filter length]; lia.
Qed.

Lemma walk_all fsz cbsz emb pos :
  walk pos fsz cbsz emb (length emb) = pos + zlen emb * fsz + count_true emb * cbsz.
Proof. rewrite walk_closed by lia. rewrite firstn_all. reflexivity. Qed.

Ltac m4 := repeat first [apply mod4_add | apply pad_mod; assumption | apply mod4_mul | assumption].

Section Thms.
  Variable e : cnt.
  Variable embedded : list bool.
  Variable Hwf : wf e embedded.

  Let fs := field_blob_size e.
  Let cb := callback_blob_size e.

  Ltac unwf :=
    destruct Hwf as (Hb & Hb0 & Hnf & Hnc & Hni & Hnp & Hnpr & Hnm & Hns & Hnv & Hnva &
                     [Ho0 Ho] & [Hi0 Hi] & [Hs0 Hs] & [Hu0 Hu] & [He0 He] & [Hf0 Hf] & [Hc0 Hc] &
                     [Hp0 Hp] & [Hfn0 Hfn] & [Hsg0 Hsg] & [Hvf0 Hvf] & [Hvl0 Hvl] & [Hk0 Hk]).

  (* ---------------- object *)
  Lemma obj_fields_start : w_obj_fields e = acc_g_object_info_get_field_offset e 0.
  Proof.
    unwf. unfold w_obj_fields, acc_g_object_info_get_field_offset.
    replace (base e + object_blob_size e + 2 * n_interfaces e) with ((base e + object_blob_size e) + 2 * n_interfaces e) by lia.
    rewrite pad_pairs by (try lia; m4). reflexivity.
  Qed.

  Theorem obj_field k : w_obj_field e embedded k = a_obj_field e embedded k.
  Proof. unfold w_obj_field, a_obj_field. rewrite obj_fields_start. reflexivity. Qed.

  Lemma obj_start_mod : acc_g_object_info_get_field_offset e 0 mod 4 = 0.
  Proof. unwf. unfold acc_g_object_info_get_field_offset. m4. Qed.

  Lemma obj_props_closed : w_obj_props e embedded =
    acc_g_object_info_get_field_offset e 0 + n_fields e * fs + n_field_callbacks e * cb.
  Proof.
    pose proof obj_start_mod as Hm. unwf. unfold w_obj_props, w_obj_field. rewrite obj_fields_start, walk_all.
    rewrite node_align_id by m4. rewrite Hnf, Hnc. reflexivity.
  Qed.

  Theorem obj_property n : acc_g_object_info_get_property e n = w_obj_props e embedded + n * property_blob_size e.
  Proof. rewrite obj_props_closed. unfold acc_g_object_info_get_property, acc_g_object_info_get_field_offset, fs, cb. lia. Qed.

  Lemma obj_methods_closed : w_obj_methods e embedded = w_obj_props e embedded + n_properties e * property_blob_size e.
  Proof.
    unfold w_obj_methods. rewrite obj_props_closed. pose proof obj_start_mod as Hm. unwf.
    rewrite node_align_id by m4. reflexivity.
  Qed.
  Theorem obj_method n : acc_g_object_info_get_method e n = w_obj_methods e embedded + n * function_blob_size e.
  Proof.
    rewrite obj_methods_closed, obj_props_closed.
    unfold acc_g_object_info_get_method, acc_g_object_info_get_field_offset, fs, cb. lia.
  Qed.
  Theorem obj_find_method : acc_g_object_info_find_method e 0 = w_obj_methods e embedded.
  Proof.
    rewrite obj_methods_closed, obj_props_closed.
    unfold acc_g_object_info_find_method, acc_g_object_info_get_field_offset, fs, cb. lia.
  Qed.

  Lemma obj_signals_closed : w_obj_signals e embedded = w_obj_methods e embedded + n_methods e * function_blob_size e.
  Proof.
    unfold w_obj_signals. rewrite obj_methods_closed, obj_props_closed. pose proof obj_start_mod as Hm. unwf.
    rewrite node_align_id by m4. reflexivity.
  Qed.
  Theorem obj_signal n : acc_object_get_signal_offset e n = w_obj_signals e embedded + n * signal_blob_size e.
  Proof.
    rewrite obj_signals_closed, obj_methods_closed, obj_props_closed.
    unfold acc_object_get_signal_offset, acc_g_object_info_get_field_offset, fs, cb. lia.
  Qed.

  Lemma obj_vfuncs_closed : w_obj_vfuncs e embedded = w_obj_signals e embedded + n_signals e * signal_blob_size e.
  Proof.
    unfold w_obj_vfuncs. rewrite obj_signals_closed, obj_methods_closed, obj_props_closed. pose proof obj_start_mod as Hm. unwf.
    rewrite node_align_id by m4. reflexivity.
  Qed.
  Theorem obj_vfunc n : acc_g_object_info_get_vfunc e n = w_obj_vfuncs e embedded + n * vfunc_blob_size e.
  Proof.
    rewrite obj_vfuncs_closed, obj_signals_closed, obj_methods_closed, obj_props_closed.
    unfold acc_g_object_info_get_vfunc, acc_g_object_info_get_field_offset, fs, cb. lia.
  Qed.
  Theorem obj_find_vfunc : acc_g_object_info_find_vfunc e 0 = w_obj_vfuncs e embedded.
  Proof.
    rewrite obj_vfuncs_closed, obj_signals_closed, obj_methods_closed, obj_props_closed.
    unfold acc_g_object_info_find_vfunc, acc_g_object_info_get_field_offset, fs, cb. lia.
  Qed.

  Theorem obj_constant n : acc_g_object_info_get_constant e n = w_obj_consts e embedded + n * constant_blob_size e.
  Proof.
    unfold w_obj_consts. rewrite obj_vfuncs_closed, obj_signals_closed, obj_methods_closed, obj_props_closed.
    pose proof obj_start_mod as Hm. unwf. rewrite node_align_id by m4.
    unfold acc_g_object_info_get_constant, acc_g_object_info_get_field_offset, fs, cb. lia.
  Qed.

  (* ---------------- interface *)
  Lemma if_props_closed : w_if_props e = base e + interface_blob_size e + (n_prerequisites e + Z.rem (n_prerequisites e) 2) * 2.
  Proof.
    unwf. unfold w_if_props.
    replace (base e + interface_blob_size e + 2 * n_prerequisites e) with ((base e + interface_blob_size e) + 2 * n_prerequisites e) by lia.
    rewrite pad_pairs by (try lia; m4). reflexivity.
  Qed.
  Lemma if_start_mod : (base e + interface_blob_size e + (n_prerequisites e + Z.rem (n_prerequisites e) 2) * 2) mod 4 = 0.
  Proof. unwf. m4. Qed.

  Theorem if_property n : acc_g_interface_info_get_property e n = w_if_props e + n * property_blob_size e.
  Proof. rewrite if_props_closed. unfold acc_g_interface_info_get_property. lia. Qed.

  Lemma if_methods_closed : w_if_methods e = w_if_props e + n_properties e * property_blob_size e.
  Proof. unfold w_if_methods. rewrite if_props_closed. pose proof if_start_mod. unwf. rewrite node_align_id by m4. reflexivity. Qed.
  Theorem if_method n : acc_g_interface_info_get_method e n = w_if_methods e + n * function_blob_size e.
  Proof. rewrite if_methods_closed, if_props_closed. unfold acc_g_interface_info_get_method. lia. Qed.
  Theorem if_find_method : acc_g_interface_info_find_method e 0 = w_if_methods e.
  Proof. rewrite if_methods_closed, if_props_closed. unfold acc_g_interface_info_find_method. lia. Qed.

  Lemma if_signals_closed : w_if_signals e = w_if_methods e + n_methods e * function_blob_size e.
  Proof. unfold w_if_signals. rewrite if_methods_closed, if_props_closed. pose proof if_start_mod. unwf. rewrite node_align_id by m4. reflexivity. Qed.
  Theorem if_signal n : acc_g_interface_info_get_signal e n = w_if_signals e + n * signal_blob_size e.
  Proof. rewrite if_signals_closed, if_methods_closed, if_props_closed. unfold acc_g_interface_info_get_signal. lia. Qed.

  Lemma if_vfuncs_closed : w_if_vfuncs e = w_if_signals e + n_signals e * signal_blob_size e.
  Proof. unfold w_if_vfuncs. rewrite if_signals_closed, if_methods_closed, if_props_closed. pose proof if_start_mod. unwf. rewrite node_align_id by m4. reflexivity. Qed.
  Theorem if_vfunc n : acc_g_interface_info_get_vfunc e n = w_if_vfuncs e + n * vfunc_blob_size e.
  Proof. rewrite if_vfuncs_closed, if_signals_closed, if_methods_closed, if_props_closed. unfold acc_g_interface_info_get_vfunc. lia. Qed.
  Theorem if_find_vfunc : acc_g_interface_info_find_vfunc e 0 = w_if_vfuncs e.
  Proof. rewrite if_vfuncs_closed, if_signals_closed, if_methods_closed, if_props_closed. unfold acc_g_interface_info_find_vfunc. lia. Qed.
  Theorem if_constant n : acc_g_interface_info_get_constant e n = w_if_consts e + n * constant_blob_size e.
  Proof.
    unfold w_if_consts. rewrite if_vfuncs_closed, if_signals_closed, if_methods_closed, if_props_closed.
    pose proof if_start_mod. unwf. rewrite node_align_id by m4. unfold acc_g_interface_info_get_constant. lia.
  Qed.

  (* ---------------- struct, union, enum *)
  Theorem st_field k : w_st_field e embedded k = a_st_field e embedded k.
  Proof. reflexivity. Qed.
  Theorem st_method n :
    acc_g_struct_info_get_method (a_st_field e embedded (length embedded)) e n = w_st_methods e embedded + n * function_blob_size e.
  Proof. reflexivity. Qed.

  (* unions: the accessor has no embedded-callback walk; it agrees with the builder exactly when
     no field of the union embeds a callback (what the compiler enforces today) *)
  Theorem un_field k : (k <= length embedded)%nat -> count_true embedded = 0 ->
    acc_g_union_info_get_field e (Z.of_nat k) = w_un_field e embedded k.
  Proof.
    intros Hk H0. unfold w_un_field. rewrite walk_closed by exact Hk.
    assert (count_true (firstn k embedded) = 0).
    { unfold count_true in *. assert (forall l, filter (fun b : bool => b) l = [] -> forall j, filter (fun b : bool => b) (firstn j l) = []).
      { induction l as [|x t IH]; intros Hl j; destruct j; simpl; auto. simpl in Hl. destruct x; [discriminate|]. apply IH. exact Hl. }
      destruct (filter (fun b : bool => b) embedded) eqn:E; [|simpl in H0; lia]. rewrite H by exact E. reflexivity. }
    rewrite H. unfold acc_g_union_info_get_field. lia.
  Qed.
  Theorem un_method n : count_true embedded = 0 ->
    acc_g_union_info_get_method e n = w_un_methods e embedded + n * function_blob_size e.
  Proof.
    intro H0. unwf. unfold w_un_methods, w_un_field. rewrite walk_all, H0. unfold acc_g_union_info_get_method. rewrite Hnf. lia.
  Qed.

  Theorem en_value n : acc_g_enum_info_get_value e n = w_en_values e + n * value_blob_size e.
  Proof. reflexivity. Qed.
  Theorem en_method n : acc_g_enum_info_get_method e n = w_en_methods e + n * function_blob_size e.
  Proof. reflexivity. Qed.
End Thms.

(* ------------------------------------------------------------ attribute lookup walks back to the first hit *)
Lemma walk_back_spec l : forall hit key,
  (walk_back l hit key <= hit)%nat.
Proof.
  induction l as [|o t IH]; intros hit key; simpl; [lia|].
  destruct (Z.eqb o key); [|lia]. destruct hit as [|h]; [lia|]. specialize (IH h key). lia.
Qed.

(* ---- g_type_info_get_param_type against the layout of the type blobs (Gen/BlobLayout.v, from gitypelib-internal.h) *)
From GIV.Gen Require Import BlobLayout.
Lemma param_type_offset : forall base n : Z,
  let sz := Z.of_N (snd ParamTypeBlob__type_at) in
  acc_g_type_info_get_param_type base (Z.of_N ParamTypeBlob_size) sz n
    = base + Z.of_N (fst ParamTypeBlob__type_at) + n * sz /\
  acc_g_type_info_get_param_type base (Z.of_N ParamTypeBlob_size) sz 0
    = base + Z.of_N (fst ArrayTypeBlob__type_at) /\
  snd ArrayTypeBlob__type_at = snd ParamTypeBlob__type_at.
Proof.
  intros base n. cbv zeta. unfold acc_g_type_info_get_param_type.
  unfold ParamTypeBlob_size, ParamTypeBlob__type_at, ArrayTypeBlob__type_at. cbn [fst snd Z.of_N].
  repeat split; lia.
Qed.

(* ---- what the API says about the dimensions of a C array, through the blob the compiler writes (Model/C06K.blob_carray) *)
From GIV.Model Require Import C06K.
Definition api_dims (fx : bool) (a : carray) : Z * Z :=
  let '(_, _, hl, hs, d) := blob_carray fx a in
  (acc_g_type_info_get_array_length hl (Z.of_N d), acc_g_type_info_get_array_fixed_size hs (Z.of_N d)).

Lemma array_dimensions a :
  api_dims true a = ((if ka_has_len a then Z.of_N (ka_len a mod 65536) else -1),
                     (if ka_has_size a && negb (ka_has_len a) then Z.of_N (ka_size a mod 65536) else -1)).
Proof.
  unfold api_dims, blob_carray, acc_g_type_info_get_array_length, acc_g_type_info_get_array_fixed_size.
  destruct (ka_has_len a), (ka_has_size a); reflexivity.
Qed.

Lemma array_dimensions_refuted_before_fix : exists a,
  ka_has_len a = true /\ ka_has_size a = true /\ snd (api_dims false a) = Z.of_N (ka_len a) /\ ka_len a <> ka_size a.
Proof.
  exists {| ka_elem := []; ka_has_len := true; ka_len := 1; ka_has_size := true; ka_size := 4; ka_zero := false; ka_ptr := true |}.
  repeat split; discriminate.
Qed.

Lemma array_dimensions_exact a : (ka_len a < 65536)%N -> (ka_size a < 65536)%N ->
  api_dims true a = ((if ka_has_len a then Z.of_N (ka_len a) else -1),
                     (if ka_has_size a && negb (ka_has_len a) then Z.of_N (ka_size a) else -1)).
Proof. intros Hl Hs. rewrite array_dimensions, !N.mod_small by assumption. reflexivity. Qed.

(* ---- a type blob is told from a basic type stored in place by the first 24 bits of the word (SimpleTypeBlob: a union of the
   flags and the offset; positions of reserved and reserved2 from the regenerated layout) *)
Definition word_field (o : Z) (f : N * N) : Z := (o / 2 ^ Z.of_N (fst f)) mod 2 ^ Z.of_N (snd f).

Lemma complex_types_recognised : forall o, 0 < o < 2 ^ 24 ->
  acc_type_is_inline (word_field o SimpleTypeBlobFlags__reserved) (word_field o SimpleTypeBlobFlags__reserved2) = false.
Proof.
  intros o Ho. unfold acc_type_is_inline, word_field, SimpleTypeBlobFlags__reserved, SimpleTypeBlobFlags__reserved2.
  cbn [fst snd Z.of_N]. change (2 ^ 0) with 1. change (2 ^ 8) with 256. change (2 ^ 16) with 65536. change (2 ^ 24) with 16777216 in Ho.
  rewrite Z.div_1_r.
  destruct (Z.eqb_spec (o mod 256) 0) as [E1|E1]; [|reflexivity].
  destruct (Z.eqb_spec ((o / 256) mod 65536) 0) as [E2|E2]; [|reflexivity].
  exfalso.
  pose proof (Z.div_mod o 256 ltac:(lia)) as D1. pose proof (Z.div_mod (o / 256) 65536 ltac:(lia)) as D2.
  rewrite E1 in D1. rewrite E2 in D2.
  assert (0 <= o / 256 / 65536) by (apply Z.div_pos; [apply Z.div_pos|]; lia).
  nia.
Qed.

Lemma inline_misread_at_16MiB :
  acc_type_is_inline (word_field (2 ^ 24) SimpleTypeBlobFlags__reserved) (word_field (2 ^ 24) SimpleTypeBlobFlags__reserved2) = true.
Proof. vm_compute. reflexivity. Qed.
