From Coq Require Import List ZArith Bool Lia ZifyBool.
From GIV.Gen Require Import Align Platform.
From GIV.Model Require Import C08.
Import ListNotations.
Local Open Scope Z_scope.
Ltac Zify.zify_post_hook ::= Z.div_mod_to_equations.

(* ------------------------------------------------------------ GI_ALIGN on powers of two *)
Definition align_up (n a : Z) : Z := ((n + a - 1) / a) * a.

Lemma gi_align_pow2 n k : 0 <= k -> gi_align n (2 ^ k) = align_up n (2 ^ k).
Proof.
  intro Hk. unfold gi_align, align_up.
  rewrite <- Z.ldiff_land.
  replace (2 ^ k - 1) with (Z.ones k) by (rewrite Z.ones_equiv; lia).
  rewrite Z.ldiff_ones_r by exact Hk.
  rewrite Z.shiftr_div_pow2, Z.shiftl_mul_pow2 by exact Hk. reflexivity.
Qed.

Lemma align_up_ge n a : 0 < a -> n <= align_up n a.
Proof. unfold align_up; intros; nia. Qed.
Lemma align_up_mult n a : 0 < a -> (align_up n a) mod a = 0.
Proof. unfold align_up; intros. apply Z.mod_mul; lia. Qed.
Lemma align_up_least n a m : 0 < a -> n <= m -> m mod a = 0 -> align_up n a <= m.
Proof.
  unfold align_up; intros Ha Hn Hm. apply Z.mod_divide in Hm; [|lia]. destruct Hm as [k ->].
  assert ((n + a - 1) / a < k + 1) by (apply Z.div_lt_upper_bound; nia).
  nia.
Qed.

Definition pow2 (a : Z) : Prop := exists k, 0 <= k /\ a = 2 ^ k.
Lemma pow2_pos a : pow2 a -> 0 < a.
Proof. intros (k & Hk & ->). apply Z.pow_pos_nonneg; lia. Qed.
Lemma gi_align_up n a : pow2 a -> gi_align n a = align_up n a.
Proof. intros (k & Hk & ->). apply gi_align_pow2. exact Hk. Qed.

Lemma zmax_max a b : zmax a b = Z.max a b.
Proof. unfold zmax. destruct (a <? b) eqn:E; lia. Qed.
Lemma pow2_max a b : pow2 a -> pow2 b -> pow2 (Z.max a b).
Proof. intros Ha Hb. destruct (Z.max_spec a b) as [[_ ->]|[_ ->]]; assumption. Qed.

(* ------------------------------------------------------------ the nested loops are the standalone ones *)
Lemma sa_struct ms :
  sa (TStruct ms) = let '(_, size, align, err) := struct_go ms 0 1 false in
                    if err then (-1, -1, false) else (gi_align size align, align, true).
Proof.
  simpl.
  assert (H : forall l size align err,
    (fix go (ms : list member) (size align : Z) (err : bool) : list Z * Z * Z * bool :=
       match ms with
       | [] => ([], size, align, err)
       | MField t :: r =>
           if err then let '(o, s, a, e) := go r size align true in (-1 :: o, s, a, e)
           else let '(ms_, ma, ok) := sa t in
                if ok then
                  let off := gi_align size ma in
                  let '(o, s, a, e) := go r (off + ms_) (zmax align ma) false in (off :: o, s, a, e)
                else let '(o, s, a, e) := go r size align true in (-1 :: o, s, a, e)
       | MCallbackNode :: r =>
           go r (gi_align size pointer_align + pointer_size) (zmax align pointer_align) err
       end) l size align err = struct_go l size align err).
  { induction l as [|m r IH]; intros size align err; [reflexivity|]. destruct m as [t|]; simpl.
    - destruct err; [rewrite IH; reflexivity|]. destruct (sa t) as [[s a] ok]. destruct ok; rewrite IH; reflexivity.
    - apply IH. }
  rewrite H. reflexivity.
Qed.

Lemma sa_union ms :
  sa (TUnion ms) = let '(size, align, err) := union_go ms 0 1 false in
                   if err then (-1, -1, false) else (gi_align size align, align, true).
Proof.
  simpl.
  assert (H : forall l size align err,
    (fix go (ms : list member) (size align : Z) (err : bool) : Z * Z * bool :=
       match ms with
       | [] => (size, align, err)
       | MField t :: r =>
           if err then go r size align true
           else let '(ms_, ma, ok) := sa t in
                if ok then go r (zmax size ms_) (zmax align ma) false else go r size align true
       | MCallbackNode :: r => go r size align err
       end) l size align err = union_go l size align err).
  { induction l as [|m r IH]; intros size align err; [reflexivity|]. destruct m as [t|]; simpl.
    - destruct err; [apply IH|]. destruct (sa t) as [[s a] ok]. destruct ok; apply IH.
    - apply IH. }
  rewrite H. reflexivity.
Qed.

(* ------------------------------------------------------------ the ABI rule, declaratively *)
(* known members as (size, alignment) pairs *)
Definition known (m : member) (s a : Z) : Prop :=
  match m with MField t => sa t = (s, a, true) | MCallbackNode => False end.

Inductive all_known : list member -> list (Z * Z) -> Prop :=
| ak_nil : all_known [] []
| ak_cons m s a ms l : known m s a -> 0 <= s -> pow2 a -> all_known ms l -> all_known (m :: ms) ((s, a) :: l).

Fixpoint admissible (off : Z) (ms : list (Z * Z)) (os : list Z) : Prop :=
  match ms, os with
  | [], [] => True
  | (s, a) :: t, o :: os' => off <= o /\ o mod a = 0 /\ admissible (o + s) t os'
  | _, _ => False
  end.
Fixpoint le_list (a b : list Z) : Prop :=
  match a, b with
  | [], [] => True
  | x :: a', y :: b' => x <= y /\ le_list a' b'
  | _, _ => False
  end.
Fixpoint end_of (off : Z) (ms : list (Z * Z)) (os : list Z) : Z :=
  match ms, os with
  | (s, _) :: t, o :: os' => end_of (o + s) t os'
  | _, _ => off
  end.
Definition max_align (al : Z) (ms : list (Z * Z)) : Z := fold_left (fun m x => Z.max m (snd x)) ms al.

Lemma struct_go_known ms l : all_known ms l -> forall size align, 0 <= size -> pow2 align ->
  let '(os, size', align', err) := struct_go ms size align false in
  err = false /\ admissible size l os /\
  (forall size2 os2, size <= size2 -> admissible size2 l os2 -> le_list os os2 /\ size' <= end_of size2 l os2) /\
  size' = end_of size l os /\ size <= size' /\ align' = max_align align l /\ pow2 align'.
Proof.
  induction 1 as [|m s a ms l Hk Hs Ha _ IH]; intros size align Hsz Hal; simpl.
  - split; [reflexivity|]. split; [exact I|]. split.
    + intros size2 os2 Hle Hadm. destruct os2; [simpl; split; [exact I|lia]|contradiction].
    + unfold max_align. simpl. repeat split; auto; lia.
  - destruct m as [t|]; [|contradiction]. simpl in Hk. rewrite Hk.
    rewrite (gi_align_up size a Ha). rewrite zmax_max.
    pose proof (pow2_pos a Ha) as Hapos.
    pose proof (align_up_ge size a Hapos) as Hge.
    specialize (IH (align_up size a + s) (Z.max align a) ltac:(lia) (pow2_max _ _ Hal Ha)).
    destruct (struct_go ms (align_up size a + s) (Z.max align a) false) as [[[os size'] align'] err].
    destruct IH as (-> & Hadm & Hleast & Hend & Hmono & Hmax & Hp).
    split; [reflexivity|]. split; [simpl; split; [exact Hge|split; [apply align_up_mult; exact Hapos|exact Hadm]]|].
    split.
    + intros size2 os2 Hle Hadm2. destruct os2 as [|o os2]; [contradiction|]. simpl in Hadm2.
      destruct Hadm2 as (H1 & H2 & H3).
      assert (Hao : align_up size a <= o) by (apply align_up_least; lia).
      destruct (Hleast (o + s) os2 ltac:(lia) H3) as [Hl1 Hl2]. simpl. split; [split; assumption|exact Hl2].
    + simpl. repeat split; auto; lia.
Qed.

Lemma max_align_ge al l : al <= max_align al l.
Proof.
  unfold max_align. revert al. induction l as [|x t IH]; intro al; simpl; [lia|].
  specialize (IH (Z.max al (snd x))). lia.
Qed.
Lemma max_align_mem al l x : In x l -> snd x <= max_align al l.
Proof.
  unfold max_align. revert al. induction l as [|y t IH]; intros al Hin; [contradiction|]. simpl.
  destruct Hin as [->|Hin]; [|apply IH; exact Hin].
  pose proof (max_align_ge (Z.max al (snd x)) t) as H. unfold max_align in H. lia.
Qed.

(* A structure all of whose members have known size: the offsets are admissible (ordered,
   aligned, non-overlapping), pointwise least among admissible assignments, the alignment is
   the largest member alignment and the size the least multiple of it covering the members. *)
Theorem struct_is_abi ms l : all_known ms l ->
  let L := struct_layout ms in
  l_ok L = true /\ admissible 0 l (l_offsets L) /\
  (forall os2, admissible 0 l os2 -> le_list (l_offsets L) os2) /\
  l_align L = max_align 1 l /\
  l_size L mod l_align L = 0 /\ end_of 0 l (l_offsets L) <= l_size L /\
  (forall sz os2, admissible 0 l os2 -> end_of 0 l os2 <= sz -> sz mod l_align L = 0 -> l_size L <= sz).
Proof.
  intro Hk. unfold struct_layout.
  assert (Hp1 : pow2 1) by (exists 0; split; [lia|reflexivity]).
  pose proof (struct_go_known ms l Hk 0 1 ltac:(lia) Hp1) as H.
  destruct (struct_go ms 0 1 false) as [[[os size'] align'] err].
  destruct H as (-> & Hadm & Hleast & Hend & Hmono & Hmax & Hp). simpl.
  rewrite (gi_align_up size' align' Hp). pose proof (pow2_pos _ Hp) as Hpos.
  split; [reflexivity|]. split; [exact Hadm|]. split; [intros os2 H2; apply (Hleast 0 os2); [lia|exact H2]|].
  split; [exact Hmax|]. split; [apply align_up_mult; exact Hpos|].
  split; [rewrite <- Hend; apply align_up_ge; exact Hpos|].
  intros sz os2 H2 Hsz Hmod. apply align_up_least; [exact Hpos| |exact Hmod].
  destruct (Hleast 0 os2 ltac:(lia) H2) as [_ Hle]. lia.
Qed.

(* members do not overlap *)
Lemma admissible_no_overlap l : forall off os, Forall (fun m => 0 <= fst m) l -> admissible off l os ->
  forall i j oi oj si sj ai aj, (i < j)%nat ->
    nth_error os i = Some oi -> nth_error os j = Some oj ->
    nth_error l i = Some (si, ai) -> nth_error l j = Some (sj, aj) -> oi + si <= oj.
Proof.
  induction l as [|[s a] t IH]; intros off os Hf Hadm i j oi oj si sj ai aj Hij Hoi Hoj Hli Hlj.
  - destruct i; discriminate.
  - destruct os as [|o os']; [contradiction|]. simpl in Hadm. destruct Hadm as (H1 & H2 & H3).
    inversion Hf as [|? ? Hs Hft]; subst. simpl in Hs.
    destruct j as [|j']; [lia|]. destruct i as [|i'].
    + simpl in Hoi, Hli. injection Hoi as <-. injection Hli as <- <-. simpl in Hoj, Hlj.
      (* every later offset is at least o + s *)
      assert (Hlater : forall l' off' os' k ok, Forall (fun m => 0 <= fst m) l' -> admissible off' l' os' ->
                        nth_error os' k = Some ok -> off' <= ok).
      { clear. induction l' as [|[s' a'] t' IH']; intros off' os' k ok Hf' Hadm' Hk.
        - destruct os'; [destruct k; discriminate|contradiction].
        - destruct os' as [|o' os'']; [contradiction|]. simpl in Hadm'. destruct Hadm' as (A1 & A2 & A3).
          inversion Hf'; subst. simpl in *. destruct k as [|k']; [injection Hk as <-; lia|].
          simpl in Hk. specialize (IH' (o' + s') os'' k' ok H2 A3 Hk). lia. }
      eapply Hlater; eassumption.
    + simpl in *. eapply (IH (o + s) os' Hft H3 i' j'); try eassumption. lia.
Qed.

(* ------------------------------------------------------------ unions *)
Lemma union_go_known ms l : all_known ms l -> forall size align, 0 <= size -> pow2 align ->
  let '(size', align', err) := union_go ms size align false in
  err = false /\ align' = max_align align l /\ pow2 align' /\
  size' = fold_left (fun m x => Z.max m (fst x)) l size.
Proof.
  induction 1 as [|m s a ms l Hk Hs Ha _ IH]; intros size align Hsz Hal; simpl.
  - repeat split; auto.
  - destruct m as [t|]; [|contradiction]. simpl in Hk. rewrite Hk. rewrite !zmax_max.
    specialize (IH (Z.max size s) (Z.max align a) ltac:(lia) (pow2_max _ _ Hal Ha)).
    destruct (union_go ms (Z.max size s) (Z.max align a) false) as [[size' align'] err].
    destruct IH as (-> & -> & Hp & ->). repeat split; auto.
Qed.

Theorem union_is_abi ms l : all_known ms l ->
  let L := union_layout ms in
  l_ok L = true /\ Forall (fun o => o = 0) (l_offsets L) /\
  l_align L = max_align 1 l /\ l_size L mod l_align L = 0 /\
  (forall m, In m l -> fst m <= l_size L) /\
  (forall sz, (forall m, In m l -> fst m <= sz) -> 0 <= sz -> sz mod l_align L = 0 -> l_size L <= sz).
Proof.
  intro Hk. unfold union_layout.
  assert (Hp1 : pow2 1) by (exists 0; split; [lia|reflexivity]).
  pose proof (union_go_known ms l Hk 0 1 ltac:(lia) Hp1) as H.
  destruct (union_go ms 0 1 false) as [[size' align'] err].
  destruct H as (-> & Hal & Hp & Hsz). simpl. rewrite (gi_align_up size' align' Hp).
  pose proof (pow2_pos _ Hp) as Hpos.
  assert (Hfold : forall (l0 : list (Z * Z)) s0, s0 <= fold_left (fun m x => Z.max m (fst x)) l0 s0 /\
                  forall m, In m l0 -> fst m <= fold_left (fun m x => Z.max m (fst x)) l0 s0).
  { induction l0 as [|x t IHl]; intro s0; simpl; [split; [lia|intros m []]|].
    destruct (IHl (Z.max s0 (fst x))) as [H1 H2]. split; [lia|]. intros m [->|Hin]; [lia|apply H2; exact Hin]. }
  assert (Hfold2 : forall (l0 : list (Z * Z)) s0 sz, s0 <= sz -> (forall m, In m l0 -> fst m <= sz) ->
                   fold_left (fun m x => Z.max m (fst x)) l0 s0 <= sz).
  { induction l0 as [|x t IHl]; intros s0 sz H0 Hm; simpl; [exact H0|].
    apply IHl; [pose proof (Hm x (or_introl eq_refl)); lia|intros m Hin; apply Hm; right; exact Hin]. }
  split; [reflexivity|]. split.
  - clear. induction ms as [|m r IH]; simpl; [constructor|]. destruct m; simpl; [constructor; [reflexivity|exact IH]|exact IH].
  - split; [exact Hal|]. split; [apply align_up_mult; exact Hpos|]. split.
    + intros m Hin. destruct (Hfold l 0) as [_ H2]. pose proof (H2 m Hin). pose proof (align_up_ge size' align' Hpos). lia.
    + intros sz Hm H0 Hmod. apply align_up_least; [exact Hpos| |exact Hmod]. rewrite Hsz. apply Hfold2; assumption.
Qed.

(* ------------------------------------------------------------ unknown sizes propagate *)
Lemma struct_go_err ms : forall size align,
  let '(os, _, _, err) := struct_go ms size align true in err = true /\ Forall (fun o => o = -1) os.
Proof.
  induction ms as [|m r IH]; intros size align; simpl; [split; [reflexivity|constructor]|].
  destruct m as [t|].
  - specialize (IH size align). destruct (struct_go r size align true) as [[[o s] a] e].
    destruct IH as [-> Hf]. split; [reflexivity|constructor; [reflexivity|exact Hf]].
  - apply IH.
Qed.

(* a member of unknown size makes the structure unknown (never a positive wrong size), and
   that member and every later field get the unknown offset *)
Theorem unknown_propagates pre t post :
  snd (sa t) = false ->
  let L := struct_layout (pre ++ MField t :: post) in
  l_ok L = false /\ l_size L = -1 /\ l_align L = -1 /\
  Forall (fun o => o = -1) (skipn (length (filter (fun m => match m with MField _ => true | _ => false end) pre))
                                  (l_offsets L)).
Proof.
  intro Hu. unfold struct_layout.
  assert (H : forall size align err,
    let '(os, _, _, e) := struct_go (pre ++ MField t :: post) size align err in
    e = true /\ Forall (fun o => o = -1)
                  (skipn (length (filter (fun m => match m with MField _ => true | _ => false end) pre)) os)).
  { induction pre as [|m r IH]; intros size align err; simpl.
    - destruct err.
      + pose proof (struct_go_err post size align) as He.
        destruct (struct_go post size align true) as [[[o s] a] e]. destruct He as [-> Hf].
        split; [reflexivity|constructor; [reflexivity|exact Hf]].
      + destruct (sa t) as [[s0 a0] ok]. simpl in Hu. subst ok.
        pose proof (struct_go_err post size align) as He.
        destruct (struct_go post size align true) as [[[o s] a] e]. destruct He as [-> Hf].
        split; [reflexivity|constructor; [reflexivity|exact Hf]].
    - destruct m as [t'|].
      + destruct err.
        * specialize (IH size align true). destruct (struct_go (r ++ MField t :: post) size align true) as [[[o s] a] e].
          simpl. exact IH.
        * destruct (sa t') as [[s0 a0] ok]. destruct ok.
          -- specialize (IH (gi_align size a0 + s0) (zmax align a0) false).
             destruct (struct_go (r ++ MField t :: post) (gi_align size a0 + s0) (zmax align a0) false) as [[[o s] a] e].
             simpl. exact IH.
          -- specialize (IH size align true).
             destruct (struct_go (r ++ MField t :: post) size align true) as [[[o s] a] e]. simpl. exact IH.
      + simpl. apply IH. }
  specialize (H 0 1 false). destruct (struct_go (pre ++ MField t :: post) 0 1 false) as [[[os s] a] e].
  destruct H as [-> Hf]. simpl. repeat split; auto.
Qed.

(* ------------------------------------------------------------ enumeration storage *)
Lemma fold_max_ge l : forall m0 v, (In v l \/ v <= m0) -> v <= fold_left (fun m v => if m <? v then v else m) l m0.
Proof.
  induction l as [|x t IH]; intros m0 v H; simpl.
  - destruct H as [[]|H]; exact H.
  - apply IH. destruct H as [[->|Hin]|Hle]; [right|left; exact Hin|right]; destruct (m0 <? _) eqn:E; lia.
Qed.
Lemma fold_min_le l : forall m0 v, (In v l \/ m0 <= v) -> fold_left (fun m v => if v <? m then v else m) l m0 <= v.
Proof.
  induction l as [|x t IH]; intros m0 v H; simpl.
  - destruct H as [[]|H]; exact H.
  - apply IH. destruct H as [[->|Hin]|Hle]; [right|left; exact Hin|right]; destruct (_ <? m0) eqn:E; lia.
Qed.

(* the storage chosen can represent every listed value (values within the 64-bit range the
   parser can deliver) *)
Theorem enum_storage_fits values :
  Forall (fun v => - 2 ^ 63 <= v < 2 ^ 63) values ->
  let '(w, sg) := enum_storage values in
  (w = 1 \/ w = 2 \/ w = 4 \/ w = 8) /\
  Forall (fun v => if sg then - 2 ^ (8 * w - 1) <= v < 2 ^ (8 * w - 1) else 0 <= v < 2 ^ (8 * w)) values.
Proof.
  intro Hr. unfold enum_storage.
  set (maxv := fold_left (fun m v => if m <? v then v else m) values 0).
  set (minv := fold_left (fun m v => if v <? m then v else m) values 0).
  assert (Hmax : forall v, In v values -> v <= maxv) by (intros v Hin; apply fold_max_ge; left; exact Hin).
  assert (Hmin : forall v, In v values -> minv <= v) by (intros v Hin; apply fold_min_le; left; exact Hin).
  rewrite Forall_forall in Hr.
  unfold enum1_width, enum2_width, enum3_width, enum4_width, enum5_width, enum6_width, enum7_width,
         enum8_width, enum9_width, enum1_signed, enum2_signed, enum3_signed, enum4_signed, enum5_signed,
         enum6_signed, c_minshort, c_maxshort, c_maxushort, c_maxint.
  repeat match goal with
         | |- context [if ?c then _ else _] => destruct c eqn:?
         end;
  (split; [auto|]); apply Forall_forall; intros v Hin;
  specialize (Hmax v Hin); specialize (Hmin v Hin); specialize (Hr v Hin); cbn; lia.
Qed.
