From Coq Require Import List NArith Bool Lia.
From GIV.Lib Require Import Regex RegexLemmas Backtrack BtBounds Str.
From GIV.Gen Require Import LddPattern LibtoolPat.
From GIV.Model Require Import C19.
Import ListNotations.
Local Open Scope N_scope.

(* ------------------------------------------------------------------ pattern *)
Definition slash : N := 47.
Definition libname_char (c : N) : bool :=     (* [/A-Za-z0-9_-] *)
  N.eqb c 47 || ((65 <=? c) && (c <=? 90)) || ((97 <=? c) && (c <=? 122))
  || ((48 <=? c) && (c <=? 57)) || N.eqb c 95 || N.eqb c 45.
Definition no_nl (s : str) := Forall (fun x => x <> 10) s.
Definition no_slash (s : str) := Forall (fun x => x <> slash) s.
Definition lib : str := [108;105;98].

Lemma libname_cls c :
  cls_mem (CRanges [(47,47);(65,90);(97,122);(48,57);(95,95);(45,45)]) c = libname_char c.
Proof.
  unfold libname_char. cbn [cls_mem in_ranges].
  destruct (N.eqb_spec c 47), (N.eqb_spec c 95), (N.eqb_spec c 45); subst; try reflexivity;
  destruct (65 <=? c) eqn:?, (c <=? 90) eqn:?, (97 <=? c) eqn:?, (c <=? 122) eqn:?,
           (48 <=? c) eqn:?, (c <=? 57) eqn:?, (47 <=? c) eqn:?, (c <=? 47) eqn:?,
           (95 <=? c) eqn:?, (c <=? 95) eqn:?, (45 <=? c) eqn:?, (c <=? 45) eqn:?;
  try reflexivity; exfalso;
  repeat match goal with
         | H : (_ <=? _) = true |- _ => apply N.leb_le in H
         | H : (_ <=? _) = false |- _ => apply N.leb_gt in H
         end; lia.
Qed.

Theorem ldd_match_spec name w :
  ldd_match name w = true <->
  exists dir c rest,
    w = dir ++ lib ++ name ++ c :: rest /\
    (dir = [] \/ exists d, dir = d ++ [slash] /\ no_nl d) /\
    libname_char c = false /\
    no_slash rest.
Proof.
  unfold ldd_match. rewrite rmatch_spec. unfold ldd_regex.
  split.
  - intro H.
    apply L_cat in H as (dir & r1 & -> & Hdir & H).
    apply L_cat in H as (l & r2 & -> & Hl & H). apply L_lit in Hl as ->.
    apply L_cat in H as (n & r3 & -> & Hn & H). apply L_lit in Hn as ->.
    apply L_cat in H as (cs & rest & -> & Hc & Hrest).
    apply L_cls in Hc as (c & -> & Hc0).
    assert (Hc : libname_char c = false) by (rewrite <- libname_cls; apply negb_true_iff; exact Hc0).
    exists dir, c, rest. split; [reflexivity|]. split; [|split; [exact Hc|]].
    + apply L_opt in Hdir as [->|Hd]; [left; reflexivity|right].
      apply L_cat in Hd as (d & sl & -> & Hd & Hsl).
      apply L_lit in Hsl as ->.
      exists d; split; [reflexivity|].
      apply L_star_cls in Hd. unfold no_nl. eapply Forall_impl; [|exact Hd].
      intros a Ha. simpl in Ha. apply negb_true_iff in Ha. apply N.eqb_neq in Ha. exact Ha.
    + apply L_star_cls in Hrest. unfold no_slash. eapply Forall_impl; [|exact Hrest].
      intros a Ha. simpl in Ha. apply negb_true_iff in Ha. apply N.eqb_neq in Ha. exact Ha.
  - intros (dir & c & rest & -> & Hdir & Hc & Hrest).
    apply L_cat. exists dir, (lib ++ name ++ c :: rest). split; [reflexivity|]. split.
    + apply L_opt. destruct Hdir as [->|(d & -> & Hd)]; [left; reflexivity|right].
      apply L_cat. exists d, [slash]. split; [reflexivity|]. split.
      * apply L_star_cls. eapply Forall_impl; [|exact Hd]. intros a Ha. simpl.
        apply negb_true_iff. apply N.eqb_neq. exact Ha.
      * apply L_lit. reflexivity.
    + apply L_cat. exists lib, (name ++ c :: rest). split; [reflexivity|]. split; [apply L_lit; reflexivity|].
      apply L_cat. exists name, (c :: rest). split; [reflexivity|]. split; [apply L_lit; reflexivity|].
      apply L_cat. exists [c], rest. split; [reflexivity|]. split.
      * apply L_cls. exists c. split; [reflexivity|].
        change (negb (cls_mem (CRanges [(47,47);(65,90);(97,122);(48,57);(95,95);(45,45)]) c) = true).
        rewrite libname_cls, Hc. reflexivity.
      * apply L_star_cls. eapply Forall_impl; [|exact Hrest]. intros a Ha. simpl.
        apply negb_true_iff. apply N.eqb_neq. exact Ha.
Qed.

(* The same statement in the words of the property: for a request without '/',
   a listed word (no newline inside, as produced by str.split) matches iff its
   base name is lib<name> followed by a non-library-name character. *)
Lemma basename_aux_split s : forall cur,
  exists pre, rev cur ++ s = pre ++ basename_aux s cur /\ (pre = [] \/ exists d, pre = d ++ [slash]).
Proof.
  induction s as [|c t IH]; intros cur; simpl.
  - exists []. split; [rewrite app_nil_r; reflexivity|left; reflexivity].
  - destruct (N.eqb_spec c 47) as [->|Hc].
    + destruct (IH []) as (pre & Hpre & Hs). simpl in Hpre. exists (rev cur ++ 47 :: pre). split.
      * rewrite <- app_assoc. simpl. f_equal. f_equal. exact Hpre.
      * right. destruct Hs as [->|(d & ->)].
        -- exists (rev cur). reflexivity.
        -- exists (rev cur ++ 47 :: d). rewrite <- app_assoc. reflexivity.
    + destruct (IH (c :: cur)) as (pre & Hpre & Hs). exists pre. split; [|exact Hs].
      rewrite <- Hpre. simpl. rewrite <- app_assoc. reflexivity.
Qed.
Lemma basename_split s :
  exists pre, s = pre ++ basename s /\ (pre = [] \/ exists d, pre = d ++ [slash]).
Proof. destruct (basename_aux_split s []) as (pre & H & Hs). exists pre. split; assumption. Qed.

Lemma basename_aux_noslash b : forall cur, no_slash b -> basename_aux b cur = rev cur ++ b.
Proof.
  induction b as [|c t IH]; intros cur H; simpl.
  - rewrite app_nil_r. reflexivity.
  - inversion H as [|? ? Hc Ht]; subst. destruct (N.eqb_spec c 47) as [->|_]; [exfalso; apply Hc; reflexivity|].
    rewrite IH by exact Ht. simpl. rewrite <- app_assoc. reflexivity.
Qed.
Lemma basename_aux_app d b : forall cur, no_slash b -> basename_aux (d ++ slash :: b) cur = b.
Proof.
  induction d as [|c t IH]; intros cur H; simpl.
  - rewrite basename_aux_noslash by exact H. reflexivity.
  - destruct (N.eqb c 47); apply IH; exact H.
Qed.
Lemma basename_dir d b : no_slash b -> basename (d ++ [slash] ++ b) = b.
Proof. intro H. apply basename_aux_app. exact H. Qed.
Lemma basename_plain b : no_slash b -> basename b = b.
Proof. intro H. unfold basename. rewrite basename_aux_noslash by exact H. reflexivity. Qed.

Lemma libname_false_noslash c : libname_char c = false -> c <> slash.
Proof. intros H ->. discriminate. Qed.

Theorem ldd_match_basename name w :
  no_slash name -> no_nl w ->
  (ldd_match name w = true <->
   exists c rest, basename w = lib ++ name ++ c :: rest /\ libname_char c = false).
Proof.
  intros Hname Hw. rewrite ldd_match_spec. split.
  - intros (dir & c & rest & -> & Hdir & Hc & Hrest).
    assert (Hb : no_slash (lib ++ name ++ c :: rest)).
    { unfold no_slash. apply Forall_app. split; [repeat constructor; discriminate|].
      apply Forall_app. split; [exact Hname|]. constructor; [apply libname_false_noslash; exact Hc|exact Hrest]. }
    exists c, rest. split; [|exact Hc].
    destruct Hdir as [->|(d & -> & _)].
    + simpl app at 1. apply basename_plain. exact Hb.
    + rewrite <- app_assoc. apply basename_dir. exact Hb.
  - intros (c & rest & Hbase & Hc).
    destruct (basename_split w) as (pre & Hw' & Hpre).
    exists pre, c, rest. split; [rewrite Hbase in Hw'; exact Hw'|]. split; [|split; [exact Hc|]].
    + destruct Hpre as [->|(d & ->)]; [left; reflexivity|right]. exists d. split; [reflexivity|].
      unfold no_nl in *. rewrite Hw' in Hw. apply Forall_app in Hw as [Hw _].
      apply Forall_app in Hw as [Hw _]. exact Hw.
    + pose proof (basename_no_slash w) as Hns. rewrite Hbase in Hns.
      apply Forall_app in Hns as [_ Hns]. apply Forall_app in Hns as [_ Hns].
      inversion Hns; subst. assumption.
Qed.

(* the three confusions the property names *)
Example pango_not_pangoft2 :   (* pango vs /lib/libpangoft2.so *)
  ldd_match [112;97;110;103;111] [47;108;105;98;47;108;105;98;112;97;110;103;111;102;116;50;46;115;111] = false.
Proof. vm_compute. reflexivity. Qed.
Example foo_not_foo_bar :      (* foo vs libfoo-bar.so.1 *)
  ldd_match [102;111;111] [108;105;98;102;111;111;45;98;97;114;46;115;111;46;49] = false.
Proof. vm_compute. reflexivity. Qed.
Example foo_not_liblibfoo :    (* foo vs /usr/lib/liblibfoo.so *)
  ldd_match [102;111;111] [47;117;115;114;47;108;105;98;47;108;105;98;108;105;98;102;111;111;46;115;111] = false.
Proof. vm_compute. reflexivity. Qed.
Example foo_matches :          (* foo vs /usr/lib/libfoo.so.1 *)
  ldd_match [102;111;111] [47;117;115;114;47;108;105;98;47;108;105;98;102;111;111;46;115;111;46;49] = true.
Proof. vm_compute. reflexivity. Qed.

(* ------------------------------------------------------------------ resolve loop *)
Section Loop.
  Variable m : str -> str -> bool.

  Fixpoint rw (ws ps : list str) : list str * list str :=
    match ws with
    | [] => (ps, [])
    | w :: t => match take_first m w ps with
                | Some ps' => let (r, f) := rw t ps' in (r, w :: f)
                | None => rw t ps
                end
    end.

  Lemma resolve_words_rw ws : forall ps acc,
    resolve_words m ws ps acc = (fst (rw ws ps), rev acc ++ snd (rw ws ps)).
  Proof.
    induction ws as [|w t IH]; intros ps acc; simpl.
    - rewrite app_nil_r. reflexivity.
    - destruct (take_first m w ps) as [ps'|].
      + rewrite IH. destruct (rw t ps') as [r f]. simpl. rewrite <- app_assoc. reflexivity.
      + apply IH.
  Qed.

  Lemma take_first_none w ps : take_first m w ps = None <-> forall p, In p ps -> m p w = false.
  Proof.
    induction ps as [|p t IH]; simpl.
    - split; [intros _ p []|reflexivity].
    - destruct (m p w) eqn:E.
      + split; [discriminate|]. intro H. rewrite (H p) in E by (left; reflexivity). discriminate.
      + destruct (take_first m w t) as [l|].
        * split; [discriminate|]. intro H. exfalso.
          assert (Hn : Some l = None) by (apply IH; intros q Hq; apply H; right; exact Hq).
          discriminate.
        * split; [|reflexivity]. intros _ q [ <- |Hq]; [exact E|]. apply (proj1 IH eq_refl); exact Hq.
  Qed.

  Lemma take_first_some w ps ps2 : take_first m w ps = Some ps2 ->
    exists l1 q l2, ps = l1 ++ q :: l2 /\ ps2 = l1 ++ l2 /\ m q w = true /\
                    forall p, In p l1 -> m p w = false.
  Proof.
    revert ps2. induction ps as [|p t IH]; intros ps2 H; simpl in H; [discriminate|].
    destruct (m p w) eqn:E.
    - injection H as <-. exists [], p, t. repeat split; auto. intros q [].
    - destruct (take_first m w t) as [t2|]; [|discriminate]. injection H as <-.
      destruct (IH t2 eq_refl) as (l1 & q & l2 & -> & -> & Hq & Hl1).
      exists (p :: l1), q, l2. repeat split; auto.
      intros r [ <- |Hr]; [exact E|apply Hl1; exact Hr].
  Qed.

  Definition disjoint (ps ws : list str) : Prop :=
    forall w p1 p2, In w ws -> In p1 ps -> In p2 ps -> m p1 w = true -> m p2 w = true -> p1 = p2.

  Lemma disjoint_tail ps w t : disjoint ps (w :: t) -> disjoint ps t.
  Proof. intros H w2 p1 p2 Hw. apply H. right. exact Hw. Qed.
  Lemma disjoint_remove l1 q l2 ws : disjoint (l1 ++ q :: l2) ws -> disjoint (l1 ++ l2) ws.
  Proof.
    intros H w p1 p2 Hw H1 H2. apply H; [exact Hw| |];
      apply in_app_iff; apply in_app_iff in H1; apply in_app_iff in H2; simpl; tauto.
  Qed.

  Lemma filter_all {A} (f : A -> bool) l : (forall x, In x l -> f x = true) -> filter f l = l.
  Proof.
    induction l as [|x t IH]; simpl; intro H; [reflexivity|].
    rewrite H by (left; reflexivity). f_equal. apply IH. intros y Hy. apply H. right. exact Hy.
  Qed.

  Lemma others_dont_match l1 q l2 w ws :
    NoDup (l1 ++ q :: l2) -> disjoint (l1 ++ q :: l2) (w :: ws) -> m q w = true ->
    forall p, In p (l1 ++ l2) -> m p w = false.
  Proof.
    intros Hnd Hdj Hq p Hp. destruct (m p w) eqn:Ep; [|reflexivity]. exfalso.
    apply NoDup_remove_2 in Hnd. apply Hnd.
    assert (p = q).
    { apply (Hdj w); [left; reflexivity| | |exact Ep|exact Hq];
        apply in_app_iff; apply in_app_iff in Hp; simpl; tauto. }
    subst. exact Hp.
  Qed.

  (* the unresolved requests are exactly those no listed word satisfies, in request order *)
  Lemma rw_remaining ws : forall ps, NoDup ps -> disjoint ps ws ->
    fst (rw ws ps) = filter (fun p => negb (existsb (m p) ws)) ps.
  Proof.
    induction ws as [|w t IH]; intros ps Hnd Hdj; simpl.
    - symmetry. apply filter_all. reflexivity.
    - destruct (take_first m w ps) as [ps2|] eqn:E.
      + apply take_first_some in E as (l1 & q & l2 & -> & -> & Hq & Hl1).
        pose proof (others_dont_match _ _ _ _ _ Hnd Hdj Hq) as Hother.
        assert (Hnd2 : NoDup (l1 ++ l2)) by (eapply NoDup_remove_1; exact Hnd).
        specialize (IH (l1 ++ l2) Hnd2 (disjoint_remove _ _ _ _ (disjoint_tail _ _ _ Hdj))).
        destruct (rw t (l1 ++ l2)) as [r f]. simpl in *. rewrite IH.
        rewrite !filter_app. simpl. rewrite Hq. simpl. f_equal.
        * apply filter_ext_in. intros p Hp. rewrite Hl1 by exact Hp. reflexivity.
        * apply filter_ext_in. intros p Hp. rewrite Hother; [reflexivity|].
          apply in_app_iff. right. exact Hp.
      + rewrite IH by (try exact Hnd; eapply disjoint_tail; exact Hdj).
        apply filter_ext_in. intros p Hp.
        rewrite (proj1 (take_first_none w ps) E p Hp). reflexivity.
  Qed.

  Inductive subseq {A} : list A -> list A -> Prop :=
  | sub_nil : subseq [] []
  | sub_skip x l1 l2 : subseq l1 l2 -> subseq l1 (x :: l2)
  | sub_take x l1 l2 : subseq l1 l2 -> subseq (x :: l1) (x :: l2).

  (* the result keeps listing order *)
  Lemma rw_found_subseq ws : forall ps, subseq (snd (rw ws ps)) ws.
  Proof.
    induction ws as [|w t IH]; intros ps; simpl; [constructor|].
    destruct (take_first m w ps) as [ps2|].
    - specialize (IH ps2). destruct (rw t ps2) as [r f]. simpl in *. apply sub_take. exact IH.
    - apply sub_skip. apply IH.
  Qed.

  Lemma rw_lengths ws : forall ps, (length (fst (rw ws ps)) + length (snd (rw ws ps)) = length ps)%nat.
  Proof.
    induction ws as [|w t IH]; intros ps; simpl; [lia|].
    destruct (take_first m w ps) as [ps2|] eqn:E; [|apply IH].
    apply take_first_some in E as (l1 & q & l2 & -> & -> & _ & _).
    specialize (IH (l1 ++ l2)). destruct (rw t (l1 ++ l2)) as [r f]. simpl in *.
    rewrite app_length in *. simpl. lia.
  Qed.

  (* each reported word is the first listed match of a request, and conversely *)
  Lemma rw_found_first ws : forall ps, NoDup ps -> disjoint ps ws ->
    forall w, In w (snd (rw ws ps)) <-> exists p, In p ps /\ find (m p) ws = Some w.
  Proof.
    induction ws as [|w0 t IH]; intros ps Hnd Hdj w; simpl.
    - split; [intros []|intros (p & _ & H); discriminate].
    - destruct (take_first m w0 ps) as [ps2|] eqn:E.
      + apply take_first_some in E as (l1 & q & l2 & -> & -> & Hq & Hl1).
        pose proof (others_dont_match _ _ _ _ _ Hnd Hdj Hq) as Hother.
        assert (Hnd2 : NoDup (l1 ++ l2)) by (eapply NoDup_remove_1; exact Hnd).
        specialize (IH (l1 ++ l2) Hnd2 (disjoint_remove _ _ _ _ (disjoint_tail _ _ _ Hdj)) w).
        destruct (rw t (l1 ++ l2)) as [r f]. simpl in *.
        split.
        * intros [ <- |Hw].
          -- exists q. split; [apply in_app_iff; simpl; auto|]. rewrite Hq. reflexivity.
          -- apply IH in Hw as (p & Hp & Hf). exists p. split.
             ++ apply in_app_iff. apply in_app_iff in Hp. simpl. tauto.
             ++ rewrite (Hother p Hp). exact Hf.
        * intros (p & Hp & Hf). destruct (m p w0) eqn:Ep.
          -- left. injection Hf as <-. reflexivity.
          -- right. apply IH. exists p. split; [|exact Hf].
             apply in_app_iff in Hp as [Hp|[ <- |Hp]]; [apply in_app_iff; auto| |apply in_app_iff; auto].
             rewrite Hq in Ep. discriminate.
      + rewrite IH by (try exact Hnd; eapply disjoint_tail; exact Hdj).
        split; intros (p & Hp & Hf); exists p; (split; [exact Hp|]);
          rewrite (proj1 (take_first_none w0 ps) E p Hp) in *; exact Hf.
  Qed.
End Loop.

(* ------------------------------------------------------------------ whole function *)

  Lemma dict_add_in k d p : In p (dict_add k d) <-> In p d \/ p = k.
  Proof.
    unfold dict_add. destruct (existsb (str_eqb k) d) eqn:E.
    - split; [auto|]. intros [H| ->]; [exact H|].
      apply existsb_exists in E as (x & Hx & Hk). apply str_eqb_eq in Hk. subst. exact Hx.
    - rewrite in_app_iff. simpl. split; [intros [H|[ <- |[]]]; auto|intros [H| ->]; auto].
  Qed.
  Lemma dict_add_nodup k d : NoDup d -> NoDup (dict_add k d).
  Proof.
    intro H. unfold dict_add. destruct (existsb (str_eqb k) d) eqn:E; [exact H|].
    apply NoDup_rev in H. rewrite <- (rev_involutive (d ++ [k])). apply NoDup_rev.
    rewrite rev_app_distr. simpl. constructor; [|exact H].
    intro Hin. apply in_rev in Hin.
    assert (existsb (str_eqb k) d = true) by (apply existsb_exists; exists k; split; [exact Hin|apply str_eqb_refl]).
    congruence.
  Qed.

  Lemma mk_patterns_aux (isfile : str -> bool) (libs : list str) : forall d, NoDup d ->
    NoDup (fold_left (fun d l => if isfile l then d else dict_add l d) libs d) /\
    forall p, In p (fold_left (fun d l => if isfile l then d else dict_add l d) libs d) <->
              In p d \/ (In p libs /\ isfile p = false).
  Proof.
    induction libs as [|l t IH]; intros d Hd; simpl.
    - split; [exact Hd|]. intro p. tauto.
    - destruct (isfile l) eqn:E.
      + destruct (IH d Hd) as (H1 & H2). split; [exact H1|]. intro p. rewrite H2.
        split; [tauto|]. intros [H|[[ <- |H] Hf]]; auto; congruence.
      + destruct (IH (dict_add l d) (dict_add_nodup l d Hd)) as (H1 & H2). split; [exact H1|].
        intro p. rewrite H2, dict_add_in. split.
        * intros [[H| ->]|[H Hf]]; auto.
        * intros [H|[[ <- |H] Hf]]; auto.
  Qed.
  Lemma mk_patterns_nodup (isfile : str -> bool) (libs : list str) : NoDup (mk_patterns isfile libs).
  Proof. apply mk_patterns_aux. constructor. Qed.
  Lemma mk_patterns_in (isfile : str -> bool) (libs : list str) p :
    In p (mk_patterns isfile libs) <-> In p libs /\ isfile p = false.
  Proof.
    unfold mk_patterns. rewrite (proj2 (mk_patterns_aux isfile libs [] (NoDup_nil _))).
    simpl. tauto.
  Qed.

Section Whole.
  Variable m : str -> str -> bool.

  Definition unresolved (ps ws : list str) := filter (fun p => negb (existsb (m p) ws)) ps.

  Theorem resolve_from_words_spec ps ws : NoDup ps -> disjoint m ps ws ->
    match resolve_from_words m ps ws with
    | Ok found =>
        unresolved ps ws = [] /\ subseq found ws /\ length found = length ps /\
        (forall w, In w found <-> exists p, In p ps /\ find (m p) ws = Some w)
    | Err names => names = unresolved ps ws /\ names <> []
    end.
  Proof.
    intros Hnd Hdj. unfold resolve_from_words. destruct ps as [|p0 pt] eqn:Eps.
    - split; [reflexivity|]. split; [|split; [reflexivity|]].
      + clear. induction ws as [|x t IH]; [apply sub_nil|apply sub_skip; exact IH].
      + intro w. split; [intros []|intros (p & [] & _)].
    - rewrite <- Eps in *. rewrite resolve_words_rw. simpl rev. simpl app.
      pose proof (rw_remaining m ws ps Hnd Hdj) as Hrem.
      pose proof (rw_found_subseq m ws ps) as Hsub.
      pose proof (rw_lengths m ws ps) as Hlen.
      pose proof (rw_found_first m ws ps Hnd Hdj) as Hfirst.
      destruct (rw m ws ps) as [r f]. simpl in *. destruct r as [|r0 rt].
      + repeat split; auto; try apply Hfirst.
      + split; [exact Hrem|discriminate].
  Qed.

  (* lines naming the binary itself ("prog:") contribute nothing *)
  Lemma header_ignored l1 h l2 : header_line h = true ->
    words_of_lines (l1 ++ h :: l2) = words_of_lines (l1 ++ l2).
  Proof. intro H. unfold words_of_lines. rewrite !filter_app. simpl. rewrite H. reflexivity. Qed.
End Whole.

(* reported names are base names *)
Lemma sanitize_no_slash s : Forall (fun x => x <> 47) (sanitize_shlib_path s).
Proof. apply basename_no_slash. Qed.

(* libtool archives: the dlname reported is a substring of the .la contents *)
Lemma extract_dlname_substring data n : extract_dlname data = Some n ->
  exists a b, (a <= b <= length data)%nat /\ n = slice data a b.
Proof.
  unfold extract_dlname, group. destruct (bsearch libtool_pat data) as [c|] eqn:E; [|discriminate].
  destruct (lookup 1 c) as [[a b]|] eqn:El; [|discriminate]. intro H. injection H as <-.
  exists a, b. split; [|reflexivity].
  apply bsearch_caps_in_bounds in E. simpl in E.
  assert (forall cs, Forall (fun e => (fst (snd e) <= snd (snd e) /\ snd (snd e) <= length data)%nat) cs ->
                     lookup 1 cs = Some (a, b) -> (a <= b <= length data)%nat) as Hl.
  { induction cs as [|[i se] t IH]; simpl; intros Hf Hlk; [discriminate|].
    inversion Hf; subst. destruct (Nat.eqb i 1); [injection Hlk as ->; simpl in *; lia|apply IH; assumption]. }
  eapply Hl; eassumption.
Qed.
