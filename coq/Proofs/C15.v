From Coq Require Import List NArith Bool String Ascii.
From GIV.Lib Require Import Regex Str.
From GIV.Gen Require Import GirVocab.
From GIV.Model Require Import C02 C02Spec C01 C01Spec C15.
Import ListNotations.
Local Open Scope N_scope.

(* every element the writer can emit is one the compiler's reader recognises: finite check on the
   regenerated vocabularies *)
Lemma vocabulary_contract : forallb known_to_parser writer_elements = true.
Proof. vm_compute. reflexivity. Qed.

Lemma vocabulary_contract_in e : In e writer_elements -> In e parser_elements \/ startswith (s "c:") e = true.
Proof.
  intros H. pose proof vocabulary_contract as V. rewrite forallb_forall in V. specialize (V e H).
  unfold known_to_parser in V. apply orb_true_iff in V. destruct V as [V|V]; [left|right; exact V].
  apply existsb_exists in V. destruct V as [x [Hx Hq]]. apply str_eqb_eq in Hq. subst. exact Hx.
Qed.

(* what the scanner writes for a parameter is read back by the compiler as the same flags *)
Definition dir_in (d : direction) : bool := match d with DOut => false | _ => true end.
Definition dir_out (d : direction) : bool := match d with DIn => false | _ => true end.

Lemma dir_str_out d : match dir_str d with Some x => str_eqb x (s "out") | None => false end = match d with DOut => true | _ => false end.
Proof. destruct d; reflexivity. Qed.
Lemma dir_str_inout d : match dir_str d with Some x => str_eqb x (s "inout") | None => false end = match d with DInout => true | _ => false end.
Proof. destruct d; reflexivity. Qed.

Lemma emit_fields ps sl :
  sl_is_return sl = false ->
  b_direction (emit ps sl) = dir_str (sl_direction sl)
  /\ b_caller_allocates (emit ps sl) = match sl_direction sl with DIn => None | _ => Some (sl_caller_allocates sl) end
  /\ b_nullable (emit ps sl) = sl_nullable sl && negb (sl_not_nullable sl)
  /\ b_allow_none (emit ps sl) = ((sl_nullable sl && negb (sl_not_nullable sl)) && negb (dir_eqb (sl_direction sl) DOut))
                                 || (sl_optional sl && dir_eqb (sl_direction sl) DOut)
  /\ b_optional (emit ps sl) = sl_optional sl /\ b_skip (emit ps sl) = sl_skip sl
  /\ b_transfer (emit ps sl) = match tr_str (sl_transfer sl) with Some t => Some t | None => if sl_skip sl then Some (s "none") else None end
  /\ b_scope (emit ps sl) = sl_scope sl.
Proof.
  intros R. unfold emit. rewrite R. destruct (sl_kind sl); cbn; repeat split; reflexivity.
Qed.

Theorem roundtrip_param ps sl :
  sl_is_return sl = false -> (sl_direction sl = DInout -> sl_caller_allocates sl = false) ->
  let r := read_param true (emit ps sl) in
  rf_in r = dir_in (sl_direction sl) /\ rf_out r = dir_out (sl_direction sl)
  /\ rf_caller_allocates r = (sl_caller_allocates sl && dir_out (sl_direction sl))
  /\ rf_nullable r = (sl_nullable sl && negb (sl_not_nullable sl))
  /\ rf_optional r = sl_optional sl
  /\ rf_skip r = sl_skip sl
  /\ rf_transfer r = match sl_transfer sl with Some TNone => Some 0 | Some TContainer => Some 1 | Some TFull => Some 2
                                        | None => if sl_skip sl then Some 0 else None end.
Proof.
  intros R Hca. destruct (emit_fields ps sl R) as [Hd [Hc [Hn [Ha [Ho [Hs [Ht _]]]]]]].
  unfold read_param. rewrite Hd, Hc, Hn, Ha, Ho, Hs, Ht. cbn [rf_in rf_out rf_caller_allocates rf_nullable rf_optional rf_skip rf_transfer].
  rewrite dir_str_out, dir_str_inout.
  generalize (sl_nullable sl && negb (sl_not_nullable sl)) as n. generalize (sl_optional sl) as o.
  destruct (sl_direction sl) eqn:D.
  - intros [] []; destruct (sl_caller_allocates sl); destruct (sl_transfer sl) as [[]|]; destruct (sl_skip sl); cbn; repeat split; reflexivity.
  - intros [] []; destruct (sl_caller_allocates sl); destruct (sl_transfer sl) as [[]|]; destruct (sl_skip sl); cbn; repeat split; reflexivity.
  - rewrite (Hca eq_refl). intros [] []; destruct (sl_transfer sl) as [[]|]; destruct (sl_skip sl); cbn; repeat split; reflexivity.
Qed.

(* the reader as found took allow-none on an inout parameter to mean optional: a nullable inout
   parameter written by the scanner came back optional *)
Lemma inout_nullable_refuted_before_fix :
  exists ps sl, sl_is_return sl = false /\ sl_optional sl = false
                /\ rf_optional (read_param false (emit ps sl)) = true.
Proof.
  exists [], {| sl_is_return := false; sl_name := s "v"; sl_kind := KdFund (s "utf8"); sl_raw_ctype := s "gchar**";
                sl_direction := DInout; sl_dir_unset := false; sl_caller_allocates := false; sl_transfer := Some TFull; sl_nullable := true;
                sl_not_nullable := false; sl_optional := false; sl_skip := false; sl_scope := None; sl_closure := None;
                sl_destroy := None; sl_attrs := [] |}.
  vm_compute. repeat split; reflexivity.
Qed.

(* what the scanner writes for a return value is read back by the compiler as the same
   nullability, skip flag and transfer; a skipped value without transfer comes back as "nothing" *)
Theorem roundtrip_return ps sl :
  sl_is_return sl = true ->
  read_return (emit ps sl)
  = (sl_nullable sl && negb (sl_not_nullable sl), sl_skip sl,
     match sl_transfer sl with Some TNone => Some 0 | Some TContainer => Some 1 | Some TFull => Some 2
                          | None => if sl_skip sl then Some 0 else None end).
Proof.
  intros R. unfold read_return, emit. rewrite R.
  destruct (sl_kind sl); cbn [b_nullable b_skip b_transfer];
    destruct (sl_transfer sl) as [[]|]; destruct (sl_skip sl); reflexivity.
Qed.

(* scope, closure and destroy of a parameter are read back as written: the scope by its code, the
   indices as the positions of the named parameters *)
Theorem roundtrip_callback_links ps sl :
  sl_is_return sl = false ->
  let r := read_param true (emit ps sl) in
  rf_scope r = scope_code (sl_scope sl)
  /\ rf_closure r = match sl_closure sl with Some n => slot_index ps n | None => None end
  /\ rf_destroy r = match sl_destroy sl with Some n => slot_index ps n | None => None end.
Proof.
  intros R. unfold read_param, emit. rewrite R.
  destruct (sl_kind sl); cbn [rf_scope rf_closure rf_destroy b_scope b_closure b_destroy]; repeat split; reflexivity.
Qed.
