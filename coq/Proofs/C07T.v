From Coq Require Import List NArith Bool Lia.
From GIV.Lib Require Import Regex Str.
From GIV.Gen Require Import TypeNames.
From GIV.Model Require Import C07T.
Import ListNotations.
Local Open Scope N_scope.

(* ------------------------------------------------------------ decimal numbers: int('%d' % n) = n *)
Definition dstep (a c : N) : N := a * 10 + (c - 48).
Definition dval (s : str) : N := fold_left dstep s 0.

Lemma dec_fuel_spec : forall f n acc, (0 < f)%nat -> n < 10 ^ N.of_nat f ->
  exists ds, dec_fuel f n acc = ds ++ acc /\ ds <> [] /\ forallb is_digit ds = true /\ dval ds = n.
Proof.
  induction f as [|f IH]; intros n acc Hf Hn; [lia|].
  cbn [dec_fuel]. set (d := 48 + n mod 10).
  assert (Hm : n mod 10 < 10) by (apply N.mod_upper_bound; lia).
  assert (Hd : is_digit d = true).
  { unfold is_digit, d. clear - Hm. revert Hm. generalize (n mod 10). intros m Hm.
    apply andb_true_iff. split; apply N.leb_le; lia. }
  destruct (N.ltb_spec n 10) as [Hlt|Hge].
  - exists [d]. split; [reflexivity|]. split; [discriminate|]. split; [simpl; rewrite Hd; reflexivity|].
    unfold dval. cbn [fold_left]. unfold dstep, d. rewrite N.mod_small by exact Hlt. lia.
  - assert (Hf' : (0 < f)%nat).
    { destruct f; [|lia]. simpl in Hn. lia. }
    assert (Hn' : n / 10 < 10 ^ N.of_nat f).
    { apply N.div_lt_upper_bound; [lia|]. rewrite Nat2N.inj_succ, N.pow_succ_r' in Hn. exact Hn. }
    destruct (IH (n / 10) (d :: acc) Hf' Hn') as (ds & E & Hne & Hdig & Hv).
    exists (ds ++ [d]). split; [rewrite E, <- app_assoc; reflexivity|].
    split; [destruct ds; discriminate|]. split; [rewrite forallb_app, Hdig; simpl; rewrite Hd; reflexivity|].
    unfold dval in *. rewrite fold_left_app, Hv. cbn [fold_left]. unfold dstep, d.
    pose proof (N.div_mod' n 10) as Hdm. revert Hdm Hm. generalize (n mod 10) (n / 10). intros m q Hdm Hm. lia.
Qed.

Lemma undec_dec n : undec (dec n) = Some n.
Proof.
  unfold dec.
  assert (Hn : n < 10 ^ N.of_nat (S (N.to_nat (N.log2 n)))).
  { rewrite Nat2N.inj_succ, N2Nat.id.
    destruct (N.eq_dec n 0) as [->|Hz]; [simpl; lia|].
    assert (H2 : n < 2 ^ N.succ (N.log2 n)) by (apply N.log2_spec; lia).
    assert (H10 : 2 ^ N.succ (N.log2 n) <= 10 ^ N.succ (N.log2 n)) by (apply N.pow_le_mono_l; lia).
    lia. }
  destruct (dec_fuel_spec _ n [] (PeanoNat.Nat.lt_0_succ _) Hn) as (ds & E & Hne & Hdig & Hv).
  rewrite E, app_nil_r. unfold undec. destruct ds as [|c r]; [contradiction|].
  rewrite Hdig. unfold dval, dstep in Hv. rewrite <- Hv. reflexivity.
Qed.

Lemma read_num_dec n b : read_num (Some (dec n)) b = Some (Some n).
Proof.
  pose proof (undec_dec n) as H. unfold read_num. destruct (dec n) as [|c r]; [discriminate H|]. rewrite H. reflexivity.
Qed.

Lemma read_num_opt (o : option N) b : read_num (option_map dec o) b = Some o.
Proof. destruct o as [n|]; [apply read_num_dec|reflexivity]. Qed.

(* ------------------------------------------------------------ names *)
Lemma first_dot : forall a b x y, ~ In 46 a -> ~ In 46 b -> a ++ 46 :: x = b ++ 46 :: y -> a = b.
Proof.
  induction a as [|c a IH]; intros b x y Ha Hb E; destruct b as [|d b]; simpl in E.
  - reflexivity.
  - injection E as E _. exfalso. apply Hb. left. symmetry. exact E.
  - injection E as E _. exfalso. apply Ha. left. exact E.
  - injection E as -> E. f_equal. apply (IH b x y); [intro H; apply Ha; right; exact H|intro H; apply Hb; right; exact H|exact E].
Qed.

Lemma skipn_exact {A} (a b : list A) : skipn (length a) (a ++ b) = b.
Proof. induction a; simpl; auto. Qed.

Lemma to_name_own ns loc : to_name ns (ns ++ 46 :: loc) = loc.
Proof.
  unfold to_name.
  assert (E : ns ++ 46 :: loc = (ns ++ [46]) ++ loc) by (rewrite <- app_assoc; reflexivity).
  assert (S : startswith (ns ++ [46]) (ns ++ 46 :: loc) = true) by (apply startswith_spec; exists loc; exact E).
  rewrite S. rewrite E at 1. replace (length ns + 1)%nat with (length (ns ++ [46])) by (rewrite app_length; reflexivity).
  apply skipn_exact.
Qed.

Lemma to_name_other ns nsn loc : ~ In 46 ns -> ~ In 46 nsn -> nsn <> ns ->
  to_name ns (nsn ++ 46 :: loc) = nsn ++ 46 :: loc.
Proof.
  intros Hns Hnsn Hne. unfold to_name.
  destruct (startswith (ns ++ [46]) (nsn ++ 46 :: loc)) eqn:S; [|reflexivity].
  apply startswith_spec in S as (r & E). rewrite <- app_assoc in E. simpl in E.
  exfalso. apply Hne. exact (first_dot _ _ _ _ Hnsn Hns E).
Qed.

Lemma has_dot_false s : ~ In 46 s -> has_dot s = false.
Proof.
  intro H. unfold has_dot. destruct (existsb (N.eqb 46) s) eqn:E; [|reflexivity].
  apply existsb_exists in E as (x & Hx & Hq). apply N.eqb_eq in Hq. subst x. contradiction.
Qed.

Lemma has_dot_true a b : has_dot (a ++ 46 :: b) = true.
Proof. unfold has_dot. apply existsb_exists. exists 46. split; [apply in_or_app; right; left; reflexivity|reflexivity]. Qed.

(* names that the reader takes for containers *)
Definition plain (n : str) : Prop :=
  str_eqb n s_glist = false /\ str_eqb n s_gslist = false /\ str_eqb n s_ghash = false.

Lemma funds_plain_table :
  forallb (fun p => negb (str_eqb (fst p) s_glist) && negb (str_eqb (fst p) s_gslist) && negb (str_eqb (fst p) s_ghash))
          type_names = true.
Proof. vm_compute. reflexivity. Qed.

Lemma fund_plain n : is_fund n = true -> plain n.
Proof.
  unfold is_fund. intro H. apply existsb_exists in H as (p & Hp & He). apply str_eqb_eq in He. subst n.
  pose proof funds_plain_table as T. rewrite forallb_forall in T. specialize (T p Hp).
  apply andb_true_iff in T as [T T3]. apply andb_true_iff in T as [T1 T2].
  apply negb_true_iff in T1, T2, T3. repeat split; assumption.
Qed.

(* ------------------------------------------------------------ well-formed types, and what the reader makes of them *)
Fixpoint wf_ty (ns : str) (t : aty) : Prop :=
  match t with
  | AVarargs => True
  | AArray k _ _ _ _ e => array_kind_ok k = true /\ wf_ty ns e
  | AList n _ e => (n = s_glist \/ n = s_gslist) /\ e <> AVarargs /\ wf_ty ns e
  | AMap _ k v => k <> AVarargs /\ v <> AVarargs /\ wf_ty ns k /\ wf_ty ns v
  | AFund n _ => is_fund n = true
  | ANamed g _ => (exists nsn loc, g = nsn ++ 46 :: loc /\ ~ In 46 nsn /\ ~ In 46 loc) /\ plain (to_name ns g)
  | AUnresolved _ => True
  end.

Fixpoint canon (ns : str) (t : aty) : aty :=
  match t with
  | AArray k c z s l e => AArray k c z s l (canon ns e)
  | AList n c e => AList n c (canon ns e)
  | AMap c k v => AMap c (canon ns k) (canon ns v)
  | ANamed g c => type_from_name ns (to_name ns g) c
  | _ => t
  end.

Lemma tag_write ns t :
  tag_of (write_ty ns t) = s_varargs /\ t = AVarargs \/
  (tag_of (write_ty ns t) = s_array \/ tag_of (write_ty ns t) = s_type) /\ t <> AVarargs.
Proof. destruct t; simpl; try (right; split; [tauto|discriminate]). left. split; reflexivity. Qed.

Lemma pick_single g r : g = s_varargs \/ g = s_array \/ g = s_type -> pick [g] [r] = r.
Proof. intros [ -> | [ -> | -> ] ]; reflexivity. Qed.

Lemma attrs_array (k c : option str) (z : bool) (s l : option N) :
  let a := opt_attr s_length (option_map dec l)
           ++ (if negb z then [(s_zero, [48])] else match s, l with None, None => [] | _, _ => [(s_zero, [49])] end)
           ++ opt_attr s_name k ++ opt_attr s_ctype c ++ opt_attr s_fixed (option_map dec s) in
  attr s_name a = k /\ attr s_ctype a = c /\ attr s_fixed a = option_map dec s /\ attr s_length a = option_map dec l /\
  match attr s_zero a with Some zz => negb (str_eqb zz [48]) | None => true end = z.
Proof. destruct k, c, z, s, l; cbv zeta; repeat split; reflexivity. Qed.

Lemma attrs_named (n : str) (c : option str) :
  attr s_name ((s_name, n) :: opt_attr s_ctype c) = Some n /\ attr s_ctype ((s_name, n) :: opt_attr s_ctype c) = c.
Proof. destruct c; split; reflexivity. Qed.

Lemma read_named ns n c : plain n ->
  read_ty ns (XT s_type ((s_name, n) :: opt_attr s_ctype c) []) = Some (type_from_name ns n c).
Proof.
  intros (H1 & H2 & H3). destruct (attrs_named n c) as [En Ec].
  cbn [read_ty map]. change (str_eqb s_type s_callback) with false. change (str_eqb s_type s_array) with false.
  change (str_eqb s_type s_varargs) with false. change (str_eqb s_type s_type) with true. cbv iota.
  rewrite En, Ec, H1, H2, H3. reflexivity.
Qed.

Theorem read_write ns : forall t, wf_ty ns t -> read_ty ns (write_ty ns t) = Some (canon ns t).
Proof.
  induction t as [|k c z s l e IH|n c e IH|c k IHk v IHv|n c|g c|c]; intro W.
  - reflexivity.
  - destruct W as [Wk We]. specialize (IH We). cbn [write_ty canon].
    destruct (attrs_array k c z s l) as (En & Ec & Ef & El & Ez).
    set (a := opt_attr s_length (option_map dec l) ++ _) in *.
    cbn [read_ty map]. change (str_eqb s_array s_callback) with false. change (str_eqb s_array s_array) with true. cbv iota.
    rewrite En, Wk. cbn [negb]. rewrite pick_single.
    + rewrite IH, Ec, Ef, El, Ez, !read_num_opt. reflexivity.
    + destruct (tag_write ns e) as [[H _]|[[H|H] _]]; tauto.
  - destruct W as (Hn & Hv & We). specialize (IH We). cbn [write_ty canon].
    destruct (tag_write ns e) as [[_ H]|[Ht _]]; [contradiction|].
    assert (Hp : pick [tag_of (write_ty ns e)] [read_ty ns (write_ty ns e)] = read_ty ns (write_ty ns e))
      by (apply pick_single; tauto).
    assert (Hx : existsb (fun g => str_eqb g s_callback || str_eqb g s_array || str_eqb g s_type) [tag_of (write_ty ns e)] = true)
      by (destruct Ht as [-> | ->]; reflexivity).
    destruct Hn as [-> | ->]; destruct c as [c|];
      cbn [read_ty map opt_attr app]; cbn [attr]; simpl str_eqb; cbv iota; cbn [orb];
      rewrite Hx, Hp, IH; reflexivity.
  - destruct W as (Hk & Hv & Wk & Wv). specialize (IHk Wk). specialize (IHv Wv). cbn [write_ty canon].
    destruct (tag_write ns k) as [[_ H]|[Htk _]]; [contradiction|].
    destruct (tag_write ns v) as [[_ H]|[Htv _]]; [contradiction|].
    assert (Hs : sel_types [tag_of (write_ty ns k); tag_of (write_ty ns v)] [read_ty ns (write_ty ns k); read_ty ns (write_ty ns v)]
                 = [read_ty ns (write_ty ns k); read_ty ns (write_ty ns v)])
      by (destruct Htk as [-> | ->]; destruct Htv as [-> | ->]; reflexivity).
    destruct c as [c|]; cbn [read_ty map opt_attr app]; cbn [attr]; simpl str_eqb; cbv iota; cbn [orb];
      rewrite Hs, IHk, IHv; reflexivity.
  - cbn [wf_ty] in W. cbn [write_ty canon]. rewrite read_named by (apply fund_plain; exact W).
    unfold type_from_name. rewrite W. reflexivity.
  - destruct W as [_ Wp]. cbn [write_ty canon]. apply read_named. exact Wp.
  - destruct c; reflexivity.
Qed.

Theorem write_canon ns : ~ In 46 ns -> forall t, wf_ty ns t -> write_ty ns (canon ns t) = write_ty ns t.
Proof.
  intros Hns. induction t as [|k c z s l e IH|n c e IH|c k IHk v IHv|n c|g c|c]; intro W; cbn [canon write_ty]; try reflexivity.
  - destruct W as [_ We]. rewrite (IH We). reflexivity.
  - destruct W as (_ & _ & We). rewrite (IH We). reflexivity.
  - destruct W as (_ & _ & Wk & Wv). rewrite (IHk Wk), (IHv Wv). reflexivity.
  - destruct W as [(nsn & loc & -> & Hnsn & Hloc) _].
    destruct (list_eq_dec N.eq_dec nsn ns) as [->|Hne].
    + rewrite to_name_own. unfold type_from_name. destruct (is_fund loc); [reflexivity|].
      rewrite (has_dot_false loc Hloc). cbn [write_ty]. change (ns ++ [46] ++ loc) with (ns ++ 46 :: loc).
      rewrite to_name_own. reflexivity.
    + rewrite (to_name_other ns nsn loc Hns Hnsn Hne). unfold type_from_name.
      destruct (is_fund (nsn ++ 46 :: loc)); [reflexivity|].
      rewrite has_dot_true. cbn [write_ty]. rewrite (to_name_other ns nsn loc Hns Hnsn Hne). reflexivity.
Qed.

(* the cycle: what the reader makes of a written type is written as the same XML again *)
Theorem type_cycle ns t : ~ In 46 ns -> wf_ty ns t ->
  exists t', read_ty ns (write_ty ns t) = Some t' /\ write_ty ns t' = write_ty ns t.
Proof.
  intros Hns W. exists (canon ns t). split; [apply read_write; exact W|apply write_canon; assumption].
Qed.

(* and the type itself comes back when no name of the own namespace is spelled like a fundamental type *)
Fixpoint no_clash (ns : str) (t : aty) : Prop :=
  match t with
  | AArray _ _ _ _ _ e | AList _ _ e => no_clash ns e
  | AMap _ k v => no_clash ns k /\ no_clash ns v
  | ANamed g _ => is_fund (to_name ns g) = false
  | _ => True
  end.

Theorem canon_id ns : ~ In 46 ns -> forall t, wf_ty ns t -> no_clash ns t -> canon ns t = t.
Proof.
  intros Hns. induction t as [|k c z s l e IH|n c e IH|c k IHk v IHv|n c|g c|c]; intros W N; cbn [canon]; try reflexivity.
  - destruct W as [_ We]. rewrite (IH We N). reflexivity.
  - destruct W as (_ & _ & We). rewrite (IH We N). reflexivity.
  - destruct W as (_ & _ & Wk & Wv). destruct N as [Nk Nv]. rewrite (IHk Wk Nk), (IHv Wv Nv). reflexivity.
  - destruct W as [(nsn & loc & -> & Hnsn & Hloc) _]. cbn [no_clash] in N. unfold type_from_name. rewrite N.
    destruct (list_eq_dec N.eq_dec nsn ns) as [->|Hne].
    + rewrite to_name_own. rewrite (has_dot_false loc Hloc). reflexivity.
    + rewrite (to_name_other ns nsn loc Hns Hnsn Hne). rewrite has_dot_true. reflexivity.
Qed.

Theorem read_back ns t : ~ In 46 ns -> wf_ty ns t -> no_clash ns t -> read_ty ns (write_ty ns t) = Some t.
Proof. intros Hns W N. rewrite (read_write ns t W), (canon_id ns Hns t W N). reflexivity. Qed.

(* the digits of '%d' % n *)
Lemma dec_spec n : dec n <> [] /\ forallb is_digit (dec n) = true /\ dval (dec n) = n.
Proof.
  unfold dec.
  assert (Hn : n < 10 ^ N.of_nat (S (N.to_nat (N.log2 n)))).
  { rewrite Nat2N.inj_succ, N2Nat.id.
    destruct (N.eq_dec n 0) as [->|Hz]; [simpl; lia|].
    assert (H2 : n < 2 ^ N.succ (N.log2 n)) by (apply N.log2_spec; lia).
    assert (H10 : 2 ^ N.succ (N.log2 n) <= 10 ^ N.succ (N.log2 n)) by (apply N.pow_le_mono_l; lia).
    lia. }
  destruct (dec_fuel_spec _ n [] (PeanoNat.Nat.lt_0_succ _) Hn) as (ds & E & Hne & Hdig & Hv).
  rewrite E, app_nil_r. repeat split; assumption.
Qed.
