From Coq Require Import List NArith Bool String Ascii Lia.
From GIV.Lib Require Import Regex Str.
From GIV.Gen Require Import TypeNames.
From GIV.Model Require Import C02 C02Spec C01 C01Spec.
Import ListNotations.
Local Open Scope N_scope.

(* ---------------------------------------------------------------- transfer *)
Lemma transfer_reflected sl a t v :
  opt1 a "transfer" = Some t -> transfer_valid sl a t = true -> transfer_value t = Some v ->
  sl_transfer (fst (apply_transfer sl a)) = Some v /\ snd (apply_transfer sl a) = [].
Proof. intros H1 H2 H3. unfold apply_transfer. rewrite H1, H2, H3. split; reflexivity. Qed.

Lemma transfer_invalid_inert sl a t :
  opt1 a "transfer" = Some t -> transfer_valid sl a t = false -> apply_transfer sl a = (sl, [WTransfer]).
Proof. intros H1 H2. unfold apply_transfer. rewrite H1, H2. reflexivity. Qed.

Lemma transfer_absent_inert sl a : opt1 a "transfer" = None -> apply_transfer sl a = (sl, []).
Proof. intros H. unfold apply_transfer. rewrite H. reflexivity. Qed.

Lemma floating_is_none : transfer_value (s "floating") = Some TNone.
Proof. vm_compute. reflexivity. Qed.

(* validity of a transfer annotation spelled out: what the documentation says *)
Lemma transfer_valid_spec sl a t :
  transfer_valid sl a t =
  if str_eqb t (s "floating") then
    is_classish (sl_kind sl)
    || match kind_giname (sl_kind sl) with
       | Some g => str_eqb g (s "GLib.Variant") || str_eqb g (s "GObject.Closure") | None => false end
  else if str_eqb t (s "container") then has a "array" || is_container (sl_kind sl)
  else is_pointer_type sl || is_fund (sl_kind sl) "utf8" || is_fund (sl_kind sl) "filename"
       || is_container (sl_kind sl) || is_compoundish (sl_kind sl).
Proof. reflexivity. Qed.

(* a plain integer is not a valid site of (transfer full) *)
Example transfer_on_int_invalid :
  let sl := {| sl_is_return := false; sl_name := s "x"; sl_kind := KdFund (s "gint"); sl_raw_ctype := s "gint";
               sl_direction := DIn; sl_dir_unset := false; sl_caller_allocates := false; sl_transfer := Some TNone; sl_nullable := false;
               sl_not_nullable := false; sl_optional := false; sl_skip := false; sl_scope := None; sl_closure := None;
               sl_destroy := None; sl_attrs := [] |} in
  apply_transfer sl [(s "transfer", [(s "full", None)])] = (sl, [WTransfer]).
Proof. vm_compute. reflexivity. Qed.

(* ---------------------------------------------------------------- direction *)
Definition after_direction (sl1 : slot) (a : annots) : slot :=
  match annotated_direction sl1 a with
  | Some (d, ca) =>
      if dir_eqb d sl1.(sl_direction) then sl1
      else with_dir sl1 d ca (if sl1.(sl_is_return) then sl1.(sl_transfer) else Some (param_transfer d ca))
  | None => sl1
  end.

Lemma dir_eqb_eq a b : dir_eqb a b = true <-> a = b.
Proof. destruct a, b; simpl; split; intros H; try reflexivity; try discriminate. Qed.

Lemma direction_reflected sl a d ca :
  annotated_direction sl a = Some (d, ca) ->
  sl_direction (after_direction sl a) = d
  /\ (sl_direction sl <> d -> sl_caller_allocates (after_direction sl a) = ca
                              /\ (sl_is_return sl = false -> sl_transfer (after_direction sl a) = Some (param_transfer d ca))).
Proof.
  intros H. unfold after_direction. rewrite H.
  destruct (dir_eqb d (sl_direction sl)) eqn:E.
  - apply dir_eqb_eq in E. split; [symmetry; exact E|]. intros N. congruence.
  - split; [reflexivity|]. intros _. split; [reflexivity|]. intros R. simpl. rewrite R. reflexivity.
Qed.

Lemma annotated_direction_inout sl a : has a "inout" = true -> annotated_direction sl a = Some (DInout, false).
Proof. intros H. unfold annotated_direction. rewrite H. reflexivity. Qed.
Lemma annotated_direction_out_option sl a o v rest :
  has a "inout" = false -> ann_get a (s "out") = Some ((o, v) :: rest) ->
  annotated_direction sl a = Some (DOut, str_eqb o (s "caller-allocates")).
Proof. intros H1 H2. unfold annotated_direction. rewrite H1, H2. reflexivity. Qed.
Lemma annotated_direction_out_bare sl a :
  has a "inout" = false -> ann_get a (s "out") = Some [] ->
  annotated_direction sl a =
  Some (DOut, match sl_kind sl with
              | KdNode _ KRecordPlain | KdNode _ KRecordBoxed => negb (contains2 [star; star] (sl_raw_ctype sl))
              | _ => false end).
Proof. intros H1 H2. unfold annotated_direction. rewrite H1, H2. reflexivity. Qed.
Lemma annotated_direction_none sl a :
  has a "inout" = false -> ann_get a (s "out") = None -> has a "in" = false -> annotated_direction sl a = None.
Proof. intros H1 H2 H3. unfold annotated_direction. rewrite H1, H2, H3. reflexivity. Qed.

(* ---------------------------------------------------------------- flags *)
Ltac flags_unfold :=
  unfold common_flags;
  repeat match goal with
         | |- context [if ?b then _ else _] => let E := fresh "E" in destruct b eqn:E
         end; cbn [fst snd with_null sl_nullable sl_not_nullable sl_optional sl_skip sl_attrs].

Lemma nullable_reflected fx sl a :
  has a "nullable" = true -> is_pointer_type sl = true -> has a "not" = false ->
  sl_nullable (fst (common_flags fx sl a)) = true /\ sl_not_nullable (fst (common_flags fx sl a)) = false
  /\ ~ In WNullable (snd (common_flags fx sl a)).
Proof.
  intros H1 H2 H3. unfold common_flags. rewrite H1, H2, H3.
  destruct (has a "optional"); destruct (negb (sl_is_return sl) && out_dir (sl_direction sl));
    destruct (has a "allow-none"); destruct (dir_eqb (sl_direction sl) DOut && negb (sl_is_return sl));
    cbn; repeat split; try reflexivity; intros F; repeat (destruct F as [F|F]; try discriminate); try contradiction.
Qed.

Lemma nullable_invalid_warned fx sl a :
  has a "nullable" = true -> is_pointer_type sl = false -> In WNullable (snd (common_flags fx sl a)).
Proof.
  intros H1 H2. unfold common_flags. rewrite H1, H2.
  destruct (has a "optional"); destruct (negb (sl_is_return sl) && out_dir (sl_direction sl));
    destruct (has a "allow-none"); destruct (dir_eqb (sl_direction sl) DOut && negb (sl_is_return sl));
    destruct (has a "not"); destruct fx; cbn; auto.
Qed.

(* dropping an annotation by name *)
Definition drop (n : string) (a : annots) : annots := filter (fun kv => negb (str_eqb (fst kv) (s n))) a.

Lemma ann_get_drop_other n k a : str_eqb k (s n) = false -> ann_get (drop n a) k = ann_get a k.
Proof.
  intros H. induction a as [|[k0 o] t IH]; [reflexivity|].
  unfold drop. cbn [filter fst]. fold (drop n t).
  destruct (str_eqb k0 (s n)) eqn:E; cbn [negb].
  - cbn [ann_get]. destruct (str_eqb k0 k) eqn:E2.
    + apply str_eqb_eq in E2. apply str_eqb_eq in E. subst. rewrite str_eqb_refl in H. discriminate.
    + exact IH.
  - cbn [ann_get]. destruct (str_eqb k0 k); [reflexivity|exact IH].
Qed.

Lemma has_drop_other n m a : str_eqb (s m) (s n) = false -> has (drop n a) m = has a m.
Proof. intros H. unfold has. rewrite ann_get_drop_other by exact H. reflexivity. Qed.
Lemma has_opt_drop_other n m k a : str_eqb (s m) (s n) = false -> has_opt (drop n a) m k = has_opt a m k.
Proof. intros H. unfold has_opt. rewrite ann_get_drop_other by exact H. reflexivity. Qed.
Lemma attr_pairs_drop_other n a : str_eqb (s "attributes") (s n) = false -> attr_pairs (drop n a) = attr_pairs a.
Proof. intros H. unfold attr_pairs. rewrite ann_get_drop_other by exact H. reflexivity. Qed.

Lemma ann_get_drop_same n a : ann_get (drop n a) (s n) = None.
Proof.
  induction a as [|[k0 o] t IH]; [reflexivity|].
  unfold drop. cbn [filter fst]. fold (drop n t).
  destruct (str_eqb k0 (s n)) eqn:E; cbn [negb]; [exact IH|].
  cbn [ann_get]. rewrite E. exact IH.
Qed.
Lemma has_drop_same n a : has (drop n a) n = false.
Proof. unfold has. rewrite ann_get_drop_same. reflexivity. Qed.

(* an invalid (nullable) is inert: every flag is what it would be without the annotation *)
Lemma nullable_invalid_inert fx sl a :
  has a "nullable" = true -> is_pointer_type sl = false ->
  fst (common_flags fx sl a) = fst (common_flags fx sl (drop "nullable" a)).
Proof.
  intros H1 H2. unfold common_flags.
  rewrite (has_drop_same "nullable" a).
  rewrite !(has_drop_other "nullable") by (vm_compute; reflexivity).
  rewrite !(has_opt_drop_other "nullable") by (vm_compute; reflexivity).
  rewrite (attr_pairs_drop_other "nullable") by (vm_compute; reflexivity).
  rewrite H1, H2.
  destruct (has a "optional"); destruct (negb (sl_is_return sl) && out_dir (sl_direction sl));
    destruct (has a "allow-none"); destruct (dir_eqb (sl_direction sl) DOut && negb (sl_is_return sl));
    destruct (has a "not"); destruct fx; reflexivity.
Qed.

Lemma optional_reflected fx sl a :
  has a "optional" = true -> sl_is_return sl = false -> out_dir (sl_direction sl) = true -> has a "not" = false ->
  sl_optional (fst (common_flags fx sl a)) = true /\ ~ In WOptional (snd (common_flags fx sl a)).
Proof.
  intros H1 H2 H3 H4. unfold common_flags. rewrite H1, H2, H3, H4. cbn [negb andb].
  destruct (has a "nullable"); destruct (is_pointer_type sl); destruct (has a "allow-none");
    destruct (dir_eqb (sl_direction sl) DOut); cbn; split; try reflexivity;
    intros F; repeat (destruct F as [F|F]; try discriminate); try contradiction.
Qed.

Lemma optional_invalid fx sl a :
  has a "optional" = true -> negb (sl_is_return sl) && out_dir (sl_direction sl) = false ->
  In WOptional (snd (common_flags fx sl a))
  /\ fst (common_flags fx sl a) = fst (common_flags fx sl (drop "optional" a)).
Proof.
  intros H1 H2. unfold common_flags.
  rewrite (has_drop_same "optional" a).
  rewrite !(has_drop_other "optional") by (vm_compute; reflexivity).
  rewrite !(has_opt_drop_other "optional") by (vm_compute; reflexivity).
  rewrite (attr_pairs_drop_other "optional") by (vm_compute; reflexivity).
  rewrite H1, H2.
  destruct (has a "nullable"); destruct (is_pointer_type sl); destruct (has a "allow-none");
    destruct (dir_eqb (sl_direction sl) DOut && negb (sl_is_return sl));
    destruct (has a "not"); destruct fx; cbn; split; auto using in_or_app, in_eq.
Qed.

Lemma allow_none_invalid fx sl a :
  has a "allow-none" = true -> dir_eqb (sl_direction sl) DOut && negb (sl_is_return sl) = false -> is_pointer_type sl = false ->
  In WAllowNone (snd (common_flags fx sl a))
  /\ fst (common_flags fx sl a) = fst (common_flags fx sl (drop "allow-none" a)).
Proof.
  intros H1 H2 H3. unfold common_flags.
  rewrite (has_drop_same "allow-none" a).
  rewrite !(has_drop_other "allow-none") by (vm_compute; reflexivity).
  rewrite !(has_opt_drop_other "allow-none") by (vm_compute; reflexivity).
  rewrite (attr_pairs_drop_other "allow-none") by (vm_compute; reflexivity).
  rewrite H1, H2, H3.
  destruct (has a "nullable"); destruct (has a "optional"); destruct (negb (sl_is_return sl) && out_dir (sl_direction sl));
    destruct (has a "not"); destruct fx; cbn; split; auto using in_or_app, in_eq.
Qed.

(* (not ...) on the repaired tree *)
Lemma not_nullable_overrides sl a :
  has_opt a "not" "nullable" = true ->
  sl_nullable (fst (common_flags true sl a)) = false /\ sl_not_nullable (fst (common_flags true sl a)) = true.
Proof.
  intros H. assert (Hn : has a "not" = true).
  { unfold has_opt in H. unfold has. destruct (ann_get a (s "not")); [reflexivity|discriminate]. }
  unfold common_flags. rewrite Hn, H.
  destruct (has a "nullable"); destruct (is_pointer_type sl); destruct (has a "optional");
    destruct (negb (sl_is_return sl) && out_dir (sl_direction sl)); destruct (has a "allow-none");
    destruct (dir_eqb (sl_direction sl) DOut && negb (sl_is_return sl)); cbn; split; reflexivity.
Qed.

Lemma not_optional_overrides sl a :
  has_opt a "not" "optional" = true -> sl_optional (fst (common_flags true sl a)) = false.
Proof.
  intros H. assert (Hn : has a "not" = true).
  { unfold has_opt in H. unfold has. destruct (ann_get a (s "not")); [reflexivity|discriminate]. }
  unfold common_flags. rewrite Hn, H.
  destruct (has a "nullable"); destruct (is_pointer_type sl); destruct (has a "optional");
    destruct (negb (sl_is_return sl) && out_dir (sl_direction sl)); destruct (has a "allow-none");
    destruct (dir_eqb (sl_direction sl) DOut && negb (sl_is_return sl)); destruct (has_opt a "not" "nullable"); cbn; reflexivity.
Qed.

(* (not optional) alone leaves nullability alone *)
Lemma not_optional_keeps_nullable sl a :
  has_opt a "not" "nullable" = false ->
  sl_nullable (fst (common_flags true sl a)) = sl_nullable (fst (common_flags true sl (drop "not" a)))
  /\ sl_not_nullable (fst (common_flags true sl a)) = sl_not_nullable (fst (common_flags true sl (drop "not" a))).
Proof.
  intros H. unfold common_flags.
  rewrite (has_drop_same "not" a).
  rewrite !(has_drop_other "not") by (vm_compute; reflexivity).
  rewrite H.
  destruct (has a "nullable"); destruct (is_pointer_type sl); destruct (has a "optional");
    destruct (negb (sl_is_return sl) && out_dir (sl_direction sl)); destruct (has a "allow-none");
    destruct (dir_eqb (sl_direction sl) DOut && negb (sl_is_return sl)); destruct (has a "not"); cbn; split; reflexivity.
Qed.

(* the defect that was repaired: before the fix (fx = false) *)
Definition out_ptr_slot : slot :=
  {| sl_is_return := false; sl_name := s "v"; sl_kind := KdFund (s "gint"); sl_raw_ctype := s "gint*";
     sl_direction := DOut; sl_dir_unset := false; sl_caller_allocates := false; sl_transfer := Some TFull; sl_nullable := false;
     sl_not_nullable := false; sl_optional := false; sl_skip := false; sl_scope := None; sl_closure := None;
     sl_destroy := None; sl_attrs := [] |}.
Lemma not_optional_refuted_before_fix :
  exists sl a, has_opt a "not" "optional" = true /\ has_opt a "not" "nullable" = false
               /\ sl_optional (fst (common_flags false sl a)) = true
               /\ has a "nullable" = true /\ is_pointer_type sl = true /\ sl_nullable (fst (common_flags false sl a)) = false.
Proof.
  exists out_ptr_slot, [(s "optional", []); (s "nullable", []); (s "not", [(s "optional", None)])].
  vm_compute. repeat split; reflexivity.
Qed.

Lemma skip_reflected fx sl a : has a "skip" = true -> sl_skip (fst (common_flags fx sl a)) = true.
Proof.
  intros H. unfold common_flags. rewrite H.
  destruct (has a "nullable"); destruct (is_pointer_type sl); destruct (has a "optional");
    destruct (negb (sl_is_return sl) && out_dir (sl_direction sl)); destruct (has a "allow-none");
    destruct (dir_eqb (sl_direction sl) DOut && negb (sl_is_return sl)); destruct (has a "not"); destruct fx;
    cbn; apply orb_true_r.
Qed.

(* attributes: every key=value pair of the annotation with a non-empty value ends up in the list,
   unless a later pair of the same annotation has the same key *)
Lemma set_attr_in l k v : In (k, v) (set_attr l k v).
Proof.
  induction l as [|[a b] t IH]; cbn; [left; reflexivity|].
  destruct (str_eqb a k) eqn:E; [apply str_eqb_eq in E; subst; left; reflexivity | right; exact IH].
Qed.
Lemma set_attr_keeps l k v k' v' : str_eqb k' k = false -> In (k', v') l -> In (k', v') (set_attr l k v).
Proof.
  intros Hk. induction l as [|[a b] t IH]; cbn; [intros []|].
  intros [H|H].
  - inversion H; subst. rewrite Hk. left; reflexivity.
  - destruct (str_eqb a k); [right; exact H | right; apply IH; exact H].
Qed.
Lemma fold_set_attr_keeps ps : forall l k v,
  In (k, v) l -> Forall (fun kv => str_eqb k (fst kv) = false) ps ->
  In (k, v) (fold_left (fun l kv => set_attr l (fst kv) (snd kv)) ps l).
Proof.
  induction ps as [|[k0 v0] t IH]; intros l k v Hin Hall; cbn; [exact Hin|].
  inversion Hall as [|x y Hx Hy]; subst. apply IH; [|exact Hy]. apply set_attr_keeps; [exact Hx | exact Hin].
Qed.
Lemma attributes_reflected fx sl a pre k v post :
  attr_pairs a = pre ++ (k, v) :: post -> Forall (fun kv => str_eqb k (fst kv) = false) post ->
  In (k, v) (sl_attrs (fst (common_flags fx sl a))).
Proof.
  intros H Hp.
  assert (G : sl_attrs (fst (common_flags fx sl a))
              = fold_left (fun l kv => set_attr l (fst kv) (snd kv)) (attr_pairs a) (sl_attrs sl)).
  { unfold common_flags.
    destruct (has a "nullable"); destruct (is_pointer_type sl); destruct (has a "optional");
      destruct (negb (sl_is_return sl) && out_dir (sl_direction sl)); destruct (has a "allow-none");
      destruct (dir_eqb (sl_direction sl) DOut && negb (sl_is_return sl)); destruct (has a "not"); destruct fx; reflexivity. }
  rewrite G, H, fold_left_app. cbn [fold_left fst snd].
  apply fold_set_attr_keeps; [apply set_attr_in | exact Hp].
Qed.

(* ---------------------------------------------------------------- arrays *)
Lemma array_reflected e sl a aopts :
  ann_get a (s "array") = Some aopts ->
  exists t el,
    sl_kind (fst (fst (adjust_container e sl a)))
    = KdArray t el
        (match opt_val aopts (s "zero-terminated") with None => false | Some None => true | Some (Some v) => negb (str_eqb v (s "0")) end)
        (match opt_val aopts (s "fixed-size") with Some (Some n) => Some n | _ => None end)
        (match opt_val aopts (s "length") with Some (Some n) => Some n | _ => None end)
    /\ snd (adjust_container e sl a) = match opt_val aopts (s "length") with Some (Some n) => Some n | _ => None end.
Proof.
  intros H. unfold adjust_container. rewrite H.
  destruct (ann_get a (s "element-type")) as [[|[en ?] ?]|]; cbn [fst snd].
  - eexists _, _. split; reflexivity.
  - destruct (res_elem e en) as [x w]. eexists _, _. split; reflexivity.
  - eexists _, _. split; reflexivity.
Qed.

(* what the writer makes of the array fields *)
Lemma emit_array ps sl t el z f l :
  sl_kind sl = KdArray t el z f l ->
  b_array (emit ps sl) = true /\ b_fixed (emit ps sl) = f
  /\ b_length (emit ps sl) = match l with Some n => slot_index ps n | None => None end
  /\ b_zero (emit ps sl) = (if negb z then Some false else match f, l with None, None => None | _, _ => Some true end).
Proof. intros H. unfold emit. rewrite H. repeat split; reflexivity. Qed.

(* ---------------------------------------------------------------- indices *)
Lemma slot_index_go_spec n : forall l k i,
  (fix go (l : list slot) (i : nat) := match l with [] => None | p :: t => if str_eqb (sl_name p) n then Some i else go t (S i) end) l k = Some i ->
  (k <= i)%nat /\ exists p, nth_error l (i - k) = Some p /\ sl_name p = n
                           /\ forall j q, (j < i - k)%nat -> nth_error l j = Some q -> sl_name q <> n.
Proof.
  induction l as [|p t IH]; intros k i H; [discriminate|].
  destruct (str_eqb (sl_name p) n) eqn:E.
  - inversion H; subst. split; [lia|]. replace (i - i)%nat with O by lia. exists p. split; [reflexivity|].
    split; [apply str_eqb_eq; exact E|]. intros j q Hj. lia.
  - apply IH in H. destruct H as [Hk [q [Hq [Hn Hfirst]]]]. split; [lia|].
    exists q. replace (i - k)%nat with (S (i - S k)) by lia. split; [exact Hq|]. split; [exact Hn|].
    intros j r Hj Hr. destruct j as [|j].
    + cbn in Hr. inversion Hr; subst. intros F. apply str_eqb_eq in F. congruence.
    + cbn in Hr. apply (Hfirst j r); [lia|exact Hr].
Qed.

Lemma slot_index_spec ps n i :
  slot_index ps n = Some i ->
  (i < List.length ps)%nat
  /\ exists p, nth_error ps i = Some p /\ sl_name p = n
               /\ forall j q, (j < i)%nat -> nth_error ps j = Some q -> sl_name q <> n.
Proof.
  intros H. unfold slot_index in H. apply slot_index_go_spec in H.
  destruct H as [_ [p [Hp [Hn Hf]]]]. replace (i - 0)%nat with i in * by lia.
  split; [apply nth_error_Some; congruence|]. exists p. repeat split; assumption.
Qed.

Lemma indices_in_range ps sl :
  (forall i, b_closure (emit ps sl) = Some i ->
             (i < List.length ps)%nat /\ exists p n, sl_closure sl = Some n /\ nth_error ps i = Some p /\ sl_name p = n)
  /\ (forall i, b_destroy (emit ps sl) = Some i ->
                (i < List.length ps)%nat /\ exists p n, sl_destroy sl = Some n /\ nth_error ps i = Some p /\ sl_name p = n)
  /\ (forall i, b_length (emit ps sl) = Some i ->
                (i < List.length ps)%nat /\ exists p, nth_error ps i = Some p
                  /\ exists t el z f, sl_kind sl = KdArray t el z f (Some (sl_name p))).
Proof.
  unfold emit. split; [|split]; intros i H.
  - destruct (sl_kind sl); cbn in H; destruct (sl_is_return sl); try discriminate;
      destruct (sl_closure sl) as [n|] eqn:C; try discriminate;
      apply slot_index_spec in H; destruct H as [Hl [p [Hp [Hn _]]]]; (split; [exact Hl|]); exists p, n; auto.
  - destruct (sl_kind sl); cbn in H; destruct (sl_is_return sl); try discriminate;
      destruct (sl_destroy sl) as [n|] eqn:C; try discriminate;
      apply slot_index_spec in H; destruct H as [Hl [p [Hp [Hn _]]]]; (split; [exact Hl|]); exists p, n; auto.
  - destruct (sl_kind sl) as [| | | |t el z f l|] eqn:K; cbn in H; try discriminate.
    destruct l as [n|]; [|discriminate].
    apply slot_index_spec in H. destruct H as [Hl [p [Hp [Hn _]]]]. split; [exact Hl|]. exists p. split; [exact Hp|].
    exists t, el, z, f. subst n. reflexivity.
Qed.

(* ---------------------------------------------------------------- callbacks *)
Lemma callback_annotations_invalid_inert anyn sl a :
  is_callback_kind (sl_kind sl) = false ->
  fst (fst (apply_callback anyn sl a)) = sl /\ snd (apply_callback anyn sl a) = None
  /\ (has a "scope" = true -> In WScope (snd (fst (apply_callback anyn sl a))))
  /\ (has a "destroy" = true -> In WDestroy (snd (fst (apply_callback anyn sl a))))
  /\ (has a "closure" = true -> In WClosure (snd (fst (apply_callback anyn sl a)))).
Proof.
  intros H. unfold apply_callback. rewrite H. cbn [negb fst snd].
  split; [reflexivity|]. split; [reflexivity|].
  split; [|split]; intros G; rewrite G; auto using in_or_app, in_eq.
Qed.

Lemma callback_annotations_reflected anyn sl a :
  is_callback_kind (sl_kind sl) = true ->
  let r := fst (fst (apply_callback anyn sl a)) in
  (forall x, opt1 a "scope" = Some x -> opt1 a "destroy" = None -> sl_scope r = Some x)
  /\ (forall n, opt1 a "destroy" = Some n -> sl_destroy r = Some n /\ sl_scope r = Some (s "notified")
                                            /\ snd (apply_callback anyn sl a) = Some n)
  /\ (forall n, opt1 a "closure" = Some n -> sl_closure r = Some n
                                            /\ (is_in n anyn = true -> ~ In WClosure (snd (fst (apply_callback anyn sl a))))
                                            /\ (is_in n anyn = false -> In WClosure (snd (fst (apply_callback anyn sl a))))).
Proof.
  intros H. unfold apply_callback. rewrite H. cbn [negb].
  split; [|split].
  - intros x Hs Hd. rewrite Hs, Hd. destruct (opt1 a "closure"); reflexivity.
  - intros n Hd. rewrite Hd. destruct (opt1 a "closure"); repeat split; reflexivity.
  - intros n Hc. rewrite Hc. destruct (opt1 a "destroy"); (split; [reflexivity|]); split; intros G; rewrite G; cbn; auto;
      intros F; exact F.
Qed.

(* the recorded findings, on the model of the whole callable: the callback heuristics of pass 3
   replace explicit annotations *)
Definition env_cb : env :=
  [(s "FooCb", (s "Foo.Cb", KCallback)); (s "GDestroyNotify", (s "GLib.DestroyNotify", KDestroyNotify))].
Definition decl_of (n : string) (t : ctree) (a : option annots) : decl := {| d_name := s n; d_tree := t; d_ann := a |}.

Lemma explicit_closure_overridden_refuted :
  exists ds, let r := run_callable true env_cb false ds CVoid None in
             exists cb, nth_error (r_params r) 0 = Some cb
                        /\ opt1 (ann_of (d_ann (nth 0 ds (decl_of "" CVoid None)))) "closure" = Some (s "ctx")
                        /\ r_warn r = []
                        /\ b_closure (emit (r_params r) cb) = Some 2%nat
                        /\ slot_index (r_params r) (s "ctx") = Some 1%nat.
Proof.
  exists [decl_of "cb" (CTypedef (s "FooCb") false) (Some [(s "closure", [(s "ctx", None)])]);
          decl_of "ctx" (CTypedef (s "gpointer") false) None;
          decl_of "user_data" (CTypedef (s "gpointer") false) None].
  vm_compute. eexists. repeat split; reflexivity.
Qed.

Lemma explicit_scope_overridden_refuted :
  exists ds, let r := run_callable true env_cb false ds CVoid None in
             exists cb, nth_error (r_params r) 0 = Some cb
                        /\ opt1 (ann_of (d_ann (nth 0 ds (decl_of "" CVoid None)))) "scope" = Some (s "call")
                        /\ r_warn r = []
                        /\ b_scope (emit (r_params r) cb) = Some (s "notified").
Proof.
  exists [decl_of "cb" (CTypedef (s "FooCb") false) (Some [(s "scope", [(s "call", None)])]);
          decl_of "user_data" (CTypedef (s "gpointer") false) None;
          decl_of "notify" (CTypedef (s "GDestroyNotify") false) None].
  vm_compute. eexists. repeat split; reflexivity.
Qed.

Lemma invalid_closure_kept_refuted :
  exists sl a, In WClosure (snd (apply_closure sl a)) /\ sl_closure (fst (apply_closure sl a)) <> sl_closure sl.
Proof.
  exists out_ptr_slot, [(s "closure", [])]. vm_compute. split; [left; reflexivity | discriminate].
Qed.

(* ---------------------------------------------------------------- the length parameter *)
Fixpoint first_named (n : str) (ps : list slot) : option slot :=
  match ps with [] => None | p :: t => if str_eqb (sl_name p) n then Some p else first_named n t end.

Lemma first_named_on_named n f ps :
  (forall p, sl_name (f p) = sl_name p) ->
  first_named n (on_named n f ps) = option_map f (first_named n ps).
Proof.
  intros Hf. induction ps as [|p t IH]; [reflexivity|].
  cbn [on_named first_named]. destruct (str_eqb (sl_name p) n) eqn:E.
  - cbn [first_named]. rewrite Hf, E. reflexivity.
  - cbn [first_named]. rewrite E. exact IH.
Qed.

Lemma length_param_follows d u n ps p :
  first_named n (on_named n (follow_direction d u) ps) = Some p ->
  sl_direction p = d /\ (d = DOut -> sl_transfer p = Some TFull).
Proof.
  rewrite first_named_on_named by reflexivity.
  destruct (first_named n ps) as [q|]; [|discriminate]. cbn. intros H. inversion H; subst.
  split; [reflexivity|]. intros ->. reflexivity.
Qed.

(* in one step of the callable: the parameter named by length= ends up with the direction of the
   array parameter that names it *)
Lemma nth_error_set_nth {A} (x : A) : forall l i, (i < List.length l)%nat -> nth_error (set_nth i x l) i = Some x.
Proof.
  induction l as [|h t IH]; intros i H; [cbn in H; lia|].
  destruct i; [reflexivity|]. cbn. apply IH. cbn in H. lia.
Qed.
Lemma length_set_nth {A} (x : A) : forall l i, List.length (set_nth i x l) = List.length l.
Proof. induction l as [|h t IH]; intros i; [destruct i; reflexivity|]. destruct i; cbn; [reflexivity|]. rewrite IH. reflexivity. Qed.

Lemma on_named_nth n f : forall ps i p,
  nth_error ps i = Some p -> nth_error (on_named n f ps) i = Some p \/ nth_error (on_named n f ps) i = Some (f p).
Proof.
  induction ps as [|q t IH]; intros i p H; [destruct i; discriminate|].
  cbn [on_named]. destruct (str_eqb (sl_name q) n).
  - destruct i; cbn in *; [inversion H; subst; right; reflexivity | left; exact H].
  - destruct i; cbn in *; [left; exact H | apply IH; exact H].
Qed.

Lemma step_length_follows fx e cb ps ws i a ps' ws' n arr lp :
  step_param fx e cb (ps, ws) (i, a) = (ps', ws') ->
  nth_error ps i = Some arr ->
  (forall sl1, snd (apply_common fx e sl1 a) = Some n) ->
  nth_error ps' i <> None ->
  first_named n ps' = Some lp ->
  exists arr', nth_error ps' i = Some arr' /\ sl_direction lp = sl_direction arr'
               /\ (sl_direction arr' = DOut -> sl_transfer lp = Some TFull).
Proof.
  intros Hstep Harr Hlen Hi Hlp. unfold step_param in Hstep. rewrite Harr in Hstep.
  destruct (if cb then let '(sl1, w) := apply_closure arr a in (set_nth i sl1 ps, w)
            else let '(sl1, w, dside) := apply_callback (any_names ps) arr a in
                 (match dside with Some n0 => on_named n0 set_scope_notified (set_nth i sl1 ps) | None => set_nth i sl1 ps end, w))
    as [ps1 w1] eqn:E1.
  destruct (nth_error ps1 i) as [sl1|] eqn:E2.
  - destruct (apply_common fx e sl1 a) as [[sl2 w2] lside] eqn:E3.
    specialize (Hlen sl1). rewrite E3 in Hlen. cbn in Hlen. subst lside.
    inversion Hstep; subst ps' ws'; clear Hstep.
    assert (L : (i < List.length ps1)%nat) by (apply nth_error_Some; congruence).
    pose proof (nth_error_set_nth sl2 ps1 i L) as Hset.
    destruct (on_named_nth n (follow_direction (sl_direction sl2) (sl_dir_unset sl2)) _ _ _ Hset) as [G|G].
    + exists sl2. split; [exact G|]. apply length_param_follows in Hlp. destruct Hlp as [Hd Ht].
      split; [exact Hd|]. intros Ho. apply Ht. exact Ho.
    + exists (follow_direction (sl_direction sl2) (sl_dir_unset sl2) sl2). split; [exact G|]. apply length_param_follows in Hlp.
      destruct Hlp as [Hd Ht]. split; [rewrite Hd; reflexivity|]. intros Ho. apply Ht. exact Ho.
  - inversion Hstep; subst. rewrite Harr in Hi. clear -Hi E1 E2 Harr.
    exfalso. destruct cb.
    + destruct (apply_closure arr a) as [sl1 w]. inversion E1; subst.
      assert (L : (i < List.length ps')%nat) by (apply nth_error_Some; congruence).
      rewrite nth_error_set_nth in E2 by exact L. discriminate.
    + destruct (apply_callback (any_names ps') arr a) as [[sl1 w] dside]. inversion E1; subst.
      assert (L : (i < List.length ps')%nat) by (apply nth_error_Some; congruence).
      pose proof (nth_error_set_nth sl1 ps' i L) as Hset.
      destruct dside as [n0|]; [|congruence].
      destruct (on_named_nth n0 set_scope_notified _ _ _ Hset) as [G|G]; congruence.
Qed.

Lemma apply_common_length fx e sl a aopts n :
  ann_get a (s "array") = Some aopts -> opt_val aopts (s "length") = Some (Some n) ->
  snd (apply_common fx e sl a) = Some n.
Proof.
  intros H1 H2. unfold apply_common, common_types.
  destruct (match opt1 a "type" with
            | Some n0 => match resolve_name e n0 with
                         | Some k => (with_kind sl k, [])
                         | None => (sl, [WUnknownType])
                         end
            | None => (sl, [])
            end) as [sl1 w0].
  match goal with |- context [apply_transfer ?x a] => destruct (apply_transfer x a) as [sl3 w1] end.
  destruct (array_reflected e sl3 a aopts H1) as [t [el [_ Hs]]].
  destruct (adjust_container e sl3 a) as [[sl4 w2] len]. cbn [snd] in Hs. rewrite H2 in Hs. subst len.
  destruct (common_flags fx sl4 a). reflexivity.
Qed.

Lemma step_array_length_follows fx e cb ps ws i a ps' ws' aopts n arr lp :
  step_param fx e cb (ps, ws) (i, a) = (ps', ws') ->
  nth_error ps i = Some arr ->
  ann_get a (s "array") = Some aopts -> opt_val aopts (s "length") = Some (Some n) ->
  first_named n ps' = Some lp ->
  exists arr', nth_error ps' i = Some arr' /\ sl_direction lp = sl_direction arr'
               /\ (sl_direction arr' = DOut -> sl_transfer lp = Some TFull).
Proof.
  intros Hstep Harr H1 H2 Hlp.
  assert (Hi : nth_error ps' i <> None).
  { unfold step_param in Hstep. rewrite Harr in Hstep.
    destruct (if cb then let '(sl1, w) := apply_closure arr a in (set_nth i sl1 ps, w)
              else let '(sl1, w, dside) := apply_callback (any_names ps) arr a in
                   (match dside with Some n0 => on_named n0 set_scope_notified (set_nth i sl1 ps) | None => set_nth i sl1 ps end, w))
      as [ps1 w1] eqn:E1.
    destruct (nth_error ps1 i) as [sl1|] eqn:E2.
    - destruct (apply_common fx e sl1 a) as [[sl2 w2] lside].
      inversion Hstep; subst.
      assert (L : (i < List.length ps1)%nat) by (apply nth_error_Some; congruence).
      pose proof (nth_error_set_nth sl2 ps1 i L) as Hset.
      destruct lside as [n0|]; [|congruence].
      destruct (on_named_nth n0 (follow_direction (sl_direction sl2) (sl_dir_unset sl2)) _ _ _ Hset) as [G|G]; congruence.
    - inversion Hstep; subst. congruence. }
  exact (step_length_follows fx e cb ps ws i a ps' ws' n arr lp Hstep Harr
           (fun sl1 => apply_common_length fx e sl1 a aopts n H1 H2) Hi Hlp).
Qed.
