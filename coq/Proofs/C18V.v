From Coq Require Import List Arith Bool Lia.
From GIV.Model Require Import C18V.
Import ListNotations.

Definition early (c : vpc) : bool := match c with VRead | VList | VUnlink => true | _ => false end.
Definition good (s : vstate) : Prop := entry s = None \/ entry s = Some (cur s).

Record Inv (s : vstate) : Prop := {
  i_ver : Forall (fun p => active p = true -> pv p = cur s) (procs s);
  i_good : good s \/ (verfile s <> Some (cur s) /\ Forall (fun p => active p = true -> early (ppc p) = true) (procs s));
  i_le : forall v, verfile s = Some v -> v <= cur s;
  i_served : Forall (fun pr => fst pr = snd pr) (served s) }.

Lemma Forall_upd {A} (P : A -> Prop) f : forall l i,
  Forall P l -> (forall x, nth_error l i = Some x -> P x -> P (f x)) -> Forall P (upd i f l).
Proof.
  induction l as [|x t IH]; intros i H Hf; [destruct i; constructor|].
  inversion H as [|? ? Hx Ht]; subst. destruct i; cbn.
  - constructor; [apply Hf; [reflexivity|exact Hx] | exact Ht].
  - constructor; [exact Hx|]. apply IH; [exact Ht|]. intros y Hy. apply Hf. exact Hy.
Qed.

Lemma Forall_nth {A} (P : A -> Prop) l i x : Forall P l -> nth_error l i = Some x -> P x.
Proof. intros H Hn. rewrite Forall_forall in H. apply H. eapply nth_error_In; eassumption. Qed.

Lemma existsb_false_forall {A} (f : A -> bool) l : existsb f l = false -> Forall (fun x => f x = false) l.
Proof.
  induction l as [|x t IH]; cbn; intros H; constructor.
  - apply orb_false_iff in H. apply H.
  - apply IH. apply orb_false_iff in H. apply H.
Qed.

Lemma onat_eqb_true a b : onat_eqb a b = true -> a = Some b.
Proof. destruct a as [x|]; cbn; [|discriminate]. intros H. apply Nat.eqb_eq in H. congruence. Qed.

Lemma active_set_pc c p : ppc p <> VDone -> c <> VDone -> active (set_pc c p) = active p.
Proof. intros H1 H2. unfold active, set_pc; cbn. destruct (ppc p), c; try reflexivity; congruence. Qed.

Lemma inv_init : Inv vinit.
Proof. constructor; cbn; [constructor | left; left; reflexivity | intros v H; discriminate | constructor]. Qed.

Ltac inv_fields H := destruct H as [Hver Hgood Hle Hserved].

Lemma inv_step s e : Inv s -> Inv (vstep s e).
Proof.
  intros H. inv_fields H. destruct e as [|i|i|i|i|i|]; cbn [vstep].
  - (* spawn *)
    constructor; cbn.
    + apply Forall_app. split; [exact Hver|]. constructor; [reflexivity|constructor].
    + destruct Hgood as [G|[G1 G2]]; [left; exact G|]. right. split; [exact G1|].
      apply Forall_app. split; [exact G2|]. constructor; [reflexivity|constructor].
    + exact Hle.
    + exact Hserved.
  - (* step *)
    destruct (nth_error (procs s) i) as [p|] eqn:Hp; [|constructor; assumption].
    destruct (active p) eqn:Ha; cbn [negb]; [|constructor; assumption].
    pose proof (Forall_nth _ _ _ _ Hver Hp Ha) as Hpv.
    destruct (ppc p) eqn:Hpc.
    + (* VRead *)
      destruct (onat_eqb (verfile s) (pv p)) eqn:Hv.
      * apply onat_eqb_true in Hv. rewrite Hpv in Hv.
        constructor; cbn.
        -- apply Forall_upd; [exact Hver|]. intros x Hx Px. intros _. cbn.
           rewrite Hp in Hx. inversion Hx; subst. exact Hpv.
        -- left. destruct Hgood as [G|[G1 _]]; [exact G|congruence].
        -- exact Hle.
        -- exact Hserved.
      * constructor; cbn.
        -- apply Forall_upd; [exact Hver|]. intros x Hx Px. intros _. cbn.
           rewrite Hp in Hx. inversion Hx; subst. exact Hpv.
        -- destruct Hgood as [G|[G1 G2]]; [left; exact G|]. right. split; [exact G1|].
           apply Forall_upd; [exact G2|]. intros x Hx Px _. reflexivity.
        -- exact Hle.
        -- exact Hserved.
    + (* VList *)
      constructor; cbn.
      * apply Forall_upd; [exact Hver|]. intros x Hx Px _. cbn. rewrite Hp in Hx. inversion Hx; subst. exact Hpv.
      * destruct (entry s) as [v|] eqn:He.
        -- destruct Hgood as [G|[G1 G2]]; [left; exact G|]. right. split; [exact G1|].
           apply Forall_upd; [exact G2|]. intros x Hx Px _. reflexivity.
        -- left. left. exact He.
      * exact Hle.
      * exact Hserved.
    + (* VUnlink *)
      constructor; cbn.
      * apply Forall_upd; [exact Hver|]. intros x Hx Px _. cbn. rewrite Hp in Hx. inversion Hx; subst. exact Hpv.
      * left. left. reflexivity.
      * exact Hle.
      * exact Hserved.
    + (* VWrite *)
      constructor; cbn.
      * apply Forall_upd; [exact Hver|]. intros x Hx Px _. cbn. rewrite Hp in Hx. inversion Hx; subst. exact Hpv.
      * left. destruct Hgood as [G|[_ G2]]; [exact G|].
        pose proof (Forall_nth _ _ _ _ G2 Hp Ha) as F. rewrite Hpc in F. discriminate.
      * intros v Hv. inversion Hv; subst. lia.
      * exact Hserved.
    + constructor; assumption.
    + constructor; assumption.
  - (* store *)
    destruct (nth_error (procs s) i) as [p|] eqn:Hp; [|constructor; assumption].
    destruct (active p) eqn:Ha; cbn [andb]; [|constructor; assumption].
    destruct (ppc p) eqn:Hpc; try (constructor; assumption).
    pose proof (Forall_nth _ _ _ _ Hver Hp Ha) as Hpv.
    constructor; cbn; [exact Hver | left; right; rewrite Hpv; reflexivity | exact Hle | exact Hserved].
  - (* load *)
    destruct (nth_error (procs s) i) as [p|] eqn:Hp; [|constructor; assumption].
    destruct (active p) eqn:Ha; cbn [andb]; [|constructor; assumption].
    destruct (ppc p) eqn:Hpc; try (constructor; assumption).
    destruct (entry s) as [v|] eqn:He; [|constructor; assumption].
    pose proof (Forall_nth _ _ _ _ Hver Hp Ha) as Hpv.
    constructor; cbn; [exact Hver | | exact Hle | ].
    + destruct Hgood as [G|[G1 G2]]; [left; unfold good in *; cbn; rewrite He in *; exact G|].
      pose proof (Forall_nth _ _ _ _ G2 Hp Ha) as F. rewrite Hpc in F. discriminate.
    + constructor; [|exact Hserved]. cbn.
      destruct Hgood as [[G|G]|[_ G2]].
      * congruence.
      * rewrite He in G. inversion G; subst. exact Hpv.
      * pose proof (Forall_nth _ _ _ _ G2 Hp Ha) as F. rewrite Hpc in F. discriminate.
  - (* finish *)
    destruct (nth_error (procs s) i) as [p|] eqn:Hp; [|constructor; assumption].
    destruct (active p) eqn:Ha; cbn [andb]; [|constructor; assumption].
    destruct (ppc p) eqn:Hpc; try (constructor; assumption).
    constructor; cbn.
    + apply Forall_upd; [exact Hver|]. intros x Hx Px F. unfold active, set_pc in F; cbn in F.
      rewrite andb_false_r in F. discriminate.
    + destruct Hgood as [G|[G1 G2]]; [left; exact G|]. right. split; [exact G1|].
      apply Forall_upd; [exact G2|]. intros x Hx Px F. unfold active, set_pc in F; cbn in F.
      rewrite andb_false_r in F. discriminate.
    + exact Hle.
    + exact Hserved.
  - (* kill *)
    constructor; cbn.
    + apply Forall_upd; [exact Hver|]. intros x Hx Px F. unfold active, kill in F; cbn in F. discriminate.
    + destruct Hgood as [G|[G1 G2]]; [left; exact G|]. right. split; [exact G1|].
      apply Forall_upd; [exact G2|]. intros x Hx Px F. unfold active, kill in F; cbn in F. discriminate.
    + exact Hle.
    + exact Hserved.
  - (* upgrade *)
    destruct (existsb active (procs s)) eqn:Hex; [constructor; assumption|].
    apply existsb_false_forall in Hex.
    constructor; cbn.
    + eapply Forall_impl; [|exact Hex]. cbn. intros a Hf Ht. congruence.
    + right. split.
      * intros F. apply Hle in F. lia.
      * eapply Forall_impl; [|exact Hex]. cbn. intros a Hf Ht. congruence.
    + intros v Hv. apply Hle in Hv. lia.
    + exact Hserved.
Qed.

Lemma inv_run evs : forall s, Inv s -> Inv (fold_left vstep evs s).
Proof. induction evs as [|e t IH]; intros s H; [exact H|]. cbn. apply IH. apply inv_step. exact H. Qed.

Theorem version_safe evs : Forall (fun pr => fst pr = snd pr) (served (vrun evs)).
Proof. apply i_served. apply inv_run. exact inv_init. Qed.

(* the order of purge and version write matters: recording the version first lets a second
   scanner, or the next one after a kill, be served an entry of the previous scanner version *)
Lemma version_first_refuted :
  exists evs, In (1, 0) (served (fold_left vstep_version_first evs vinit)).
Proof.
  exists [VSpawn; VStep 0; VStep 0; VStep 0; VStore 0; VFinish 0; VUpgrade;
          VSpawn; VStep 1; VStep 1; VSpawn; VStep 2; VLoad 2].
  vm_compute. left. reflexivity.
Qed.

Example version_run_nontrivial :
  served (vrun [VSpawn; VStep 0; VStep 0; VStep 0; VStore 0; VLoad 0; VFinish 0; VUpgrade;
                VSpawn; VStep 1; VStep 1; VStep 1; VStep 1; VLoad 1; VStore 1; VLoad 1]) = [(1, 1); (0, 0)].
Proof. vm_compute. reflexivity. Qed.
