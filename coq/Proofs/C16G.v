From Coq Require Import List ZArith Bool Lia Permutation.
From GIV.Lib Require Import Regex Str.
From GIV.Model Require Import C16G.
Import ListNotations.
Local Open Scope Z_scope.

Definition cands_ok (cands : list (str * Z)) : Prop :=
  (forall n p, lookup n cands = Some p -> 0 <= p) /\
  (forall n n' p, lookup n cands = Some p -> lookup n' cands = Some p -> n = n').

Definition is_cand (cands : list (str * Z)) (setter : option str) (m : str) : option Z :=
  if match setter with Some s => str_eqb m s | None => false end then None else lookup m cands.

Lemma is_cand_lookup cands setter m p : is_cand cands setter m = Some p -> lookup m cands = Some p.
Proof. unfold is_cand. destruct (match setter with Some s => str_eqb m s | None => false end); [discriminate|auto]. Qed.

Lemma gstep_eq cands setter g m :
  gstep cands setter g m =
  match is_cand cands setter m with
  | None => g
  | Some p => if priority_of cands g <=? p then Some m else g
  end.
Proof. unfold gstep, is_cand. destruct (match setter with Some s => str_eqb m s | None => false end); reflexivity. Qed.

(* what the election has reached after the methods [seen] *)
Definition best (cands : list (str * Z)) (setter : option str) (seen : list str) (g : option str) : Prop :=
  (g = None /\ forall m, In m seen -> is_cand cands setter m = None) \/
  (exists m p, g = Some m /\ In m seen /\ is_cand cands setter m = Some p /\
               forall m' p', In m' seen -> is_cand cands setter m' = Some p' -> p' <= p).

Lemma best_step cands setter seen g m :
  cands_ok cands -> best cands setter seen g -> best cands setter (seen ++ [m]) (gstep cands setter g m).
Proof.
  intros [Hpos Hinj] Hb. rewrite gstep_eq.
  destruct (is_cand cands setter m) as [p|] eqn:Hm.
  - assert (Hp : 0 <= p) by (eapply Hpos, is_cand_lookup, Hm).
    destruct Hb as [[Hg Hnone] | (c & q & Hg & Hin & Hc & Hmax)].
    + subst g. cbn [priority_of]. destruct (Z.leb_spec (-1) p) as [_|Hlt]; [|lia].
      right. exists m, p. split; [reflexivity|]. split; [apply in_or_app; right; left; reflexivity|]. split; [exact Hm|].
      intros m' p' Hin' Hc'. apply in_app_or in Hin'. destruct Hin' as [Hin'|[Heq|[]]].
      * rewrite (Hnone _ Hin') in Hc'. discriminate.
      * subst m'. rewrite Hm in Hc'. injection Hc' as <-. lia.
    + subst g. cbn [priority_of]. rewrite (is_cand_lookup _ _ _ _ Hc).
      destruct (Z.leb_spec q p) as [Hle|Hlt].
      * right. exists m, p. split; [reflexivity|]. split; [apply in_or_app; right; left; reflexivity|]. split; [exact Hm|].
        intros m' p' Hin' Hc'. apply in_app_or in Hin'. destruct Hin' as [Hin'|[Heq|[]]].
        -- specialize (Hmax _ _ Hin' Hc'). lia.
        -- subst m'. rewrite Hm in Hc'. injection Hc' as <-. lia.
      * right. exists c, q. split; [reflexivity|]. split; [apply in_or_app; left; exact Hin|]. split; [exact Hc|].
        intros m' p' Hin' Hc'. apply in_app_or in Hin'. destruct Hin' as [Hin'|[Heq|[]]].
        -- exact (Hmax _ _ Hin' Hc').
        -- subst m'. rewrite Hm in Hc'. injection Hc' as <-. lia.
  - destruct Hb as [[Hg Hnone] | (c & q & Hg & Hin & Hc & Hmax)].
    + left. split; [exact Hg|]. intros m' Hin'. apply in_app_or in Hin'. destruct Hin' as [Hin'|[Heq|[]]]; [auto|subst; exact Hm].
    + right. exists c, q. split; [exact Hg|]. split; [apply in_or_app; left; exact Hin|]. split; [exact Hc|].
      intros m' p' Hin' Hc'. apply in_app_or in Hin'. destruct Hin' as [Hin'|[Heq|[]]]; [eauto|].
      subst m'. rewrite Hm in Hc'. discriminate.
Qed.

Lemma best_fold cands setter l : forall seen g,
  cands_ok cands -> best cands setter seen g -> best cands setter (seen ++ l) (fold_left (gstep cands setter) l g).
Proof.
  induction l as [|m l IH]; intros seen g Hok Hb; cbn [fold_left].
  - rewrite app_nil_r. exact Hb.
  - replace (seen ++ m :: l) with ((seen ++ [m]) ++ l) by (rewrite <- app_assoc; reflexivity).
    apply IH; [exact Hok|]. apply best_step; assumption.
Qed.

(* the elected getter is the candidate of the highest priority among the methods, none when no method is a candidate *)
Lemma elect_best cands setter methods :
  cands_ok cands -> best cands setter methods (elect cands setter methods None).
Proof.
  intros Hok. unfold elect. change methods with ([] ++ methods) at 1. apply best_fold; [exact Hok|].
  left. split; [reflexivity|]. intros m [].
Qed.

Lemma best_unique cands setter l l' g g' :
  cands_ok cands -> (forall m, In m l <-> In m l') -> best cands setter l g -> best cands setter l' g' -> g = g'.
Proof.
  intros [Hpos Hinj] Hsame [[Hg Hn] | (m & p & Hg & Hin & Hc & Hmax)] [[Hg' Hn'] | (m' & p' & Hg' & Hin' & Hc' & Hmax')]; subst g g'.
  - reflexivity.
  - apply Hsame in Hin'. rewrite (Hn _ Hin') in Hc'. discriminate.
  - apply Hsame in Hin. rewrite (Hn' _ Hin) in Hc. discriminate.
  - assert (H1 : p' <= p) by (apply (Hmax m' p'); [apply Hsame; exact Hin'|exact Hc']).
    assert (H2 : p <= p') by (apply (Hmax' m p); [apply Hsame; exact Hin|exact Hc]).
    assert (p = p') by lia. subst p'.
    f_equal. eapply Hinj; eapply is_cand_lookup; eassumption.
Qed.

(* the order in which the methods were declared (the order of the source files) does not matter *)
Lemma elect_order_independent cands setter l l' :
  cands_ok cands -> Permutation l l' -> elect cands setter l None = elect cands setter l' None.
Proof.
  intros Hok Hp. eapply best_unique; [exact Hok| |apply elect_best; exact Hok|apply elect_best; exact Hok].
  intros m; split; intros H; [eapply Permutation_in; eauto | eapply Permutation_in; [apply Permutation_sym|]; eauto].
Qed.

(* the table the code builds satisfies the hypothesis *)
Lemma app_inj_head (a b c : str) : a ++ b = a ++ c -> b = c.
Proof. apply app_inv_head. Qed.

Lemma getter_candidates_ok annotated readable writable is_bool name :
  cands_ok (getter_candidates annotated readable writable is_bool name).
Proof.
  unfold getter_candidates.
  destruct annotated as [g|].
  - split.
    + intros n p. cbn [lookup]. destruct (str_eqb g n); [intros [= <-]; lia|discriminate].
    + intros n n' p. cbn [lookup]. destruct (str_eqb g n) eqn:E1; [|discriminate]. destruct (str_eqb g n') eqn:E2; [|discriminate].
      apply str_eqb_eq in E1, E2. congruence.
  - destruct readable; [|split; cbn [lookup]; intros; discriminate].
    set (c2 := if is_bool && negb (startswith s_is_ name) then [(s_is_ ++ name, 25)] else []).
    set (c3 := if negb writable && is_bool then [(name, 10)] else []).
    assert (H2 : forall n p, lookup n c2 = Some p -> p = 25 /\ n = s_is_ ++ name).
    { intros n p. unfold c2. destruct (is_bool && negb (startswith s_is_ name)); cbn [lookup]; [|discriminate].
      destruct (str_eqb (s_is_ ++ name) n) eqn:E; [|discriminate]. apply str_eqb_eq in E. intros [= <-]. auto. }
    assert (H3 : forall n p, lookup n c3 = Some p -> p = 10 /\ n = name).
    { intros n p. unfold c3. destruct (negb writable && is_bool); cbn [lookup]; [|discriminate].
      destruct (str_eqb name n) eqn:E; [|discriminate]. apply str_eqb_eq in E. intros [= <-]. auto. }
    assert (Happ : forall n a b, lookup n (a ++ b) = match lookup n a with Some p => Some p | None => lookup n b end).
    { intros n a. induction a as [|[k v] a IH]; intros b; cbn [lookup app]; [reflexivity|]. destruct (str_eqb k n); [reflexivity|apply IH]. }
    assert (H : forall n p, lookup n ([(s_get_ ++ name, 50)] ++ c2 ++ c3) = Some p ->
                            (p = 50 /\ n = s_get_ ++ name) \/ (p = 25 /\ n = s_is_ ++ name) \/ (p = 10 /\ n = name)).
    { intros n p. rewrite Happ. cbn [lookup]. destruct (str_eqb (s_get_ ++ name) n) eqn:E.
      - apply str_eqb_eq in E. intros [= <-]. left. auto.
      - rewrite Happ. destruct (lookup n c2) as [q|] eqn:E2.
        + intros [= <-]. right; left. apply H2. exact E2.
        + intros E3. right; right. apply H3. exact E3. }
    split.
    + intros n p Hl. destruct (H _ _ Hl) as [[-> _]|[[-> _]|[-> _]]]; lia.
    + intros n n' p Hl Hl'. destruct (H _ _ Hl) as [[-> ->]|[[-> ->]|[-> ->]]]; destruct (H _ _ Hl') as [[E ->]|[[E ->]|[E ->]]];
        try reflexivity; try discriminate E.
Qed.

(* the variant that reads the current priority once before the loop depends on the order *)
Definition w_name : str := [97]%N.
Definition w_cands := getter_candidates None true true true w_name.
Lemma elect_once_order_dependent :
  elect_once w_cands None [s_get_ ++ w_name; s_is_ ++ w_name] None <> elect_once w_cands None [s_is_ ++ w_name; s_get_ ++ w_name] None.
Proof. vm_compute. discriminate. Qed.

Example elect_nonvacuous :
  elect w_cands None [s_is_ ++ w_name; s_get_ ++ w_name; w_name] None = Some (s_get_ ++ w_name)
  /\ elect w_cands None [s_get_ ++ w_name; s_is_ ++ w_name] None = Some (s_get_ ++ w_name)
  /\ elect (getter_candidates None true false true w_name) None [w_name; s_is_ ++ w_name] None = Some (s_is_ ++ w_name).
Proof. vm_compute. auto. Qed.
