From Coq Require Import List Arith NArith Bool String Ascii.
From GIV.Lib Require Import Regex Str.
From GIV.Gen Require Import GirAttrs.
From GIV.Model Require Import C02 C07.
Import ListNotations.
Local Open Scope N_scope.

Lemma attr_contract_holds : attr_contract = true.
Proof. vm_compute. reflexivity. Qed.

Lemma attr_contract_in a : In a writer_attrs -> In a reader_attrs \/ In a derived_or_syntax.
Proof.
  intros H. pose proof attr_contract_holds as C. unfold attr_contract in C. rewrite forallb_forall in C. specialize (C a H).
  apply orb_true_iff in C. destruct C as [C|C]; apply existsb_exists in C; destruct C as [x [Hx Hq]]; apply str_eqb_eq in Hq; subst; auto.
Qed.

Lemma flags_roundtrip b :
  read_flag_default_true (write_flag_default_true b) = b /\ read_flag_default_false (write_flag_default_false b) = b.
Proof. destruct b; split; vm_compute; reflexivity. Qed.

Lemma null_roundtrip d n o : read_null d (write_null d n o) = (n, o).
Proof. destruct d, n, o; reflexivity. Qed.

Lemma dir_roundtrip d ca : (d = DirIn -> ca = false) -> read_dir (write_dir d ca) = (d, ca).
Proof. intros H. destruct d; cbn; try reflexivity. rewrite (H eq_refl). reflexivity. Qed.

Lemma zero_roundtrip zt sz ln : read_zero (write_zero zt sz ln) = zt.
Proof. destruct zt, sz, ln; reflexivity. Qed.

Lemma lengths_roundtrip ms : read_lengths ms = map written_length ms.
Proof. reflexivity. Qed.

(* the pairing as found loses or misplaces a length as soon as an anonymous member precedes the array *)
Lemma lengths_found_refuted :
  exists ms, read_lengths_found ms <> map written_length ms.
Proof.
  exists [MAnon; MPlain (s "n") None; MPlain (s "arr") (Some 1%nat)]. vm_compute. discriminate.
Qed.
