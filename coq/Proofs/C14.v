From Coq Require Import List NArith ZArith Bool Lia.
From GIV.Lib Require Import Regex Str.
From GIV.Gen Require Import HashSizes.
From GIV.Model Require Import C14.
Import ListNotations.
Local Open Scope N_scope.

(* ------------------------------------------------------------ soundness: needs nothing about h *)
Theorem lookup_hashed_sound h table dir name i e :
  lookup_hashed h table dir name = Some (i, e) ->
  e.(d_name) = name /\ exists k, i = S k /\ nth_error dir k = Some e.
Proof.
  unfold lookup_hashed. set (idx := N.to_nat _).
  destruct (nth_error dir idx) as [e'|] eqn:En; [|discriminate].
  destruct (str_eqb name (d_name e')) eqn:Es; [|discriminate]. intro H. injection H as <- <-.
  apply str_eqb_eq in Es. split; [auto|]. exists idx. auto.
Qed.

Lemma lookup_linear_spec dir : forall name i,
  match lookup_linear dir name i with
  | Some (j, e) => exists k, j = (i + k)%nat /\ nth_error dir k = Some e /\ e.(d_name) = name /\
                             forall k' e', (k' < k)%nat -> nth_error dir k' = Some e' -> e'.(d_name) <> name
  | None => forall e, In e dir -> e.(d_name) <> name
  end.
Proof.
  induction dir as [|x t IH]; intros name i; simpl; [intros e []|].
  destruct (str_eqb name (d_name x)) eqn:E.
  - apply str_eqb_eq in E. exists O. split; [lia|]. split; [reflexivity|]. split; [auto|]. intros k' e' Hk. lia.
  - specialize (IH name (S i)). destruct (lookup_linear t name (S i)) as [[j e]|].
    + destruct IH as (k & -> & Hn & Hname & Hfirst). exists (S k). split; [lia|]. split; [exact Hn|]. split; [exact Hname|].
      intros k' e' Hk Hn'. destruct k' as [|k'].
      * simpl in Hn'. injection Hn' as <-. intro Heq. rewrite Heq, str_eqb_refl in E. discriminate.
      * simpl in Hn'. apply (Hfirst k' e'); [lia|exact Hn'].
    + intros e [<-|Hin]; [|apply IH; exact Hin]. intro Heq. subst. rewrite str_eqb_refl in E. discriminate.
Qed.

Theorem lookup_linear_sound dir name i e :
  lookup_linear dir name 1 = Some (i, e) -> e.(d_name) = name /\ exists k, i = S k /\ nth_error dir k = Some e.
Proof.
  intro H. pose proof (lookup_linear_spec dir name 1) as Hs. rewrite H in Hs.
  destruct Hs as (k & -> & Hn & Hname & _). split; [exact Hname|]. exists k. auto.
Qed.

Theorem lookup_linear_absent dir name :
  (forall e, In e dir -> e.(d_name) <> name) -> lookup_linear dir name 1 = None.
Proof.
  intro H. pose proof (lookup_linear_spec dir name 1) as Hs.
  destruct (lookup_linear dir name 1) as [[j e]|]; [|reflexivity].
  destruct Hs as (k & _ & Hn & Hname & _). exfalso. exact (H e (nth_error_In _ _ Hn) Hname).
Qed.

Theorem lookup_hashed_absent h table dir name :
  (forall e, In e dir -> e.(d_name) <> name) -> lookup_hashed h table dir name = None.
Proof.
  intro H. destruct (lookup_hashed h table dir name) as [[i e]|] eqn:E; [|reflexivity].
  apply lookup_hashed_sound in E as (Hname & k & _ & Hn). exfalso.
  exact (H e (nth_error_In _ _ Hn) Hname).
Qed.

(* ------------------------------------------------------------ the table the builder writes *)
Lemma set_nth_same l : forall i v, (i < length l)%nat -> nth i (set_nth l i v) 0 = v.
Proof.
  induction l as [|x t IH]; intros i v H; simpl in *; [lia|].
  destruct i as [|i]; simpl; [reflexivity|apply IH; lia].
Qed.
Lemma set_nth_other l : forall i j v, i <> j -> nth j (set_nth l i v) 0 = nth j l 0.
Proof.
  induction l as [|x t IH]; intros [|i] [|j] v H; simpl; try reflexivity; try congruence. apply IH. congruence.
Qed.
Lemma set_nth_length l : forall i v, length (set_nth l i v) = length l.
Proof. induction l as [|x t IH]; intros [|i] v; simpl; auto. Qed.

Lemma fill_other h names : forall i tbl x,
  (forall s, In s names -> N.to_nat (h s) <> x) -> nth x (fill h names i tbl) 0 = nth x tbl 0.
Proof.
  induction names as [|s t IH]; intros i tbl x H; simpl; [reflexivity|].
  rewrite IH by (intros s' Hs'; apply H; right; exact Hs').
  apply set_nth_other. apply H. left; reflexivity.
Qed.

(* perfect-hash hypothesis: h is injective on the names and lands inside the table *)
Definition perfect (h : str -> N) (names : list str) : Prop :=
  NoDup (map h names) /\ forall s, In s names -> (N.to_nat (h s) < length names)%nat.

Lemma fill_hit h names : forall i tbl k s,
  NoDup (map h names) -> (forall s', In s' names -> (N.to_nat (h s') < length tbl)%nat) ->
  nth_error names k = Some s -> nth (N.to_nat (h s)) (fill h names i tbl) 0 = i + N.of_nat k.
Proof.
  induction names as [|s0 t IH]; intros i tbl k s Hnd Hlt Hk; [destruct k; discriminate|].
  simpl in Hnd. inversion Hnd as [|? ? Hnotin Hnd']; subst. simpl.
  destruct k as [|k'].
  - simpl in Hk. injection Hk as <-. rewrite fill_other.
    + rewrite set_nth_same by (apply Hlt; left; reflexivity). lia.
    + intros s' Hs' Heq. apply Hnotin. apply in_map_iff. exists s'. split; [|exact Hs']. lia.
  - simpl in Hk. rewrite (IH (i + 1) _ k' s Hnd').
    + lia.
    + intros s' Hs'. rewrite set_nth_length. apply Hlt. right; exact Hs'.
    + exact Hk.
Qed.

(* ------------------------------------------------------------ completeness under the hypothesis *)
Theorem lookup_hashed_complete h dir k e :
  let names := map d_name dir in
  perfect h names -> nth_error dir k = Some e ->
  lookup_hashed h (build_table h names) dir e.(d_name) = Some (S k, e).
Proof.
  intros names [Hnd Hlt] Hk. unfold lookup_hashed, hash_index.
  assert (Hlen : length names = length dir) by apply map_length.
  assert (Hin : In (d_name e) names) by (apply in_map; eapply nth_error_In; exact Hk).
  pose proof (Hlt _ Hin) as Hb. rewrite Hlen in Hb.
  assert (Hoff : (N.of_nat (length dir) <=? h (d_name e)) = false) by (apply N.leb_gt; lia).
  rewrite Hoff. unfold build_table.
  assert (Hnk : nth_error names k = Some (d_name e)) by (unfold names; rewrite nth_error_map, Hk; reflexivity).
  rewrite (fill_hit h names 0 _ k (d_name e) Hnd); [|intros s' Hs'; rewrite repeat_length; apply Hlt; exact Hs'|exact Hnk].
  simpl. rewrite Nnat.Nat2N.id, Hk, str_eqb_refl. reflexivity.
Qed.

(* with distinct names both paths agree on every probe *)
Theorem lookup_paths_agree h dir name :
  let names := map d_name dir in
  perfect h names -> NoDup names ->
  lookup_hashed h (build_table h names) dir name = lookup_linear dir name 1.
Proof.
  intros names Hp Hnd. subst names.
  pose proof (lookup_linear_spec dir name 1) as Hs.
  destruct (lookup_linear dir name 1) as [[j e]|].
  - destruct Hs as (k & -> & Hn & Hname & _). subst name.
    rewrite (lookup_hashed_complete h dir k e Hp Hn). reflexivity.
  - apply lookup_hashed_absent. exact Hs.
Qed.

(* ------------------------------------------------------------ GType names and error domains *)
Theorem lookup_gtype_spec dir g :
  match lookup_gtype dir g with
  | Some e => In e dir /\ e.(d_registered) = true /\ e.(d_gtype_name) = Some g
  | None => forall e, In e dir -> e.(d_registered) = true -> e.(d_gtype_name) <> Some g
  end.
Proof.
  induction dir as [|x t IH]; simpl; [intros e []|].
  destruct (d_registered x && opt_is (d_gtype_name x) g) eqn:E.
  - apply andb_true_iff in E as [Hr Ho]. unfold opt_is in Ho. destruct (d_gtype_name x) as [n|] eqn:En; [|discriminate].
    apply str_eqb_eq in Ho. subst. auto.
  - destruct (lookup_gtype t g) as [e|].
    + destruct IH as (Hin & Hr & Hg). auto.
    + intros e [<-|Hin] Hr; [|apply IH; assumption]. intro Hg. rewrite Hr, Hg in E. simpl in E.
      rewrite str_eqb_refl in E. discriminate.
Qed.

Theorem lookup_domain_spec dir d :
  match lookup_domain dir d with
  | Some e => In e dir /\ e.(d_is_enum) = true /\ e.(d_error_domain) = Some d
  | None => forall e, In e dir -> e.(d_is_enum) = true -> e.(d_error_domain) <> Some d
  end.
Proof.
  induction dir as [|x t IH]; simpl; [intros e []|].
  destruct (d_is_enum x && opt_is (d_error_domain x) d) eqn:E.
  - apply andb_true_iff in E as [Hr Ho]. unfold opt_is in Ho. destruct (d_error_domain x) as [n|] eqn:En; [|discriminate].
    apply str_eqb_eq in Ho. subst. auto.
  - destruct (lookup_domain t d) as [e|].
    + destruct IH as (Hin & Hr & Hg). auto.
    + intros e [<-|Hin] Hr; [|apply IH; assumption]. intro Hg. rewrite Hr, Hg in E. simpl in E.
      rewrite str_eqb_refl in E. discriminate.
Qed.

(* the two-pass repository search finds a type iff some loaded typelib registers it, and what
   it returns carries that GType name -- however imprecise the prefix filter *)
Definition has_gtype (l : tlib) (g : str) : Prop :=
  exists e, In e l.(t_dir) /\ e.(d_registered) = true /\ e.(d_gtype_name) = Some g.

Lemma find_pass_sound b libs g e : find_pass b libs g = Some e ->
  exists l, In l libs /\ In e l.(t_dir) /\ e.(d_registered) = true /\ e.(d_gtype_name) = Some g.
Proof.
  induction libs as [|l t IH]; simpl; [discriminate|].
  destruct (b && negb (matches_prefix (t_prefixes l) g)).
  - intro H. destruct (IH H) as (l' & Hl & Hr). exists l'. split; [right; exact Hl|exact Hr].
  - pose proof (lookup_gtype_spec (t_dir l) g) as Hs. destruct (lookup_gtype (t_dir l) g) as [e'|].
    + intro H. injection H as <-. exists l. split; [left; reflexivity|exact Hs].
    + intro H. destruct (IH H) as (l' & Hl & Hr). exists l'. split; [right; exact Hl|exact Hr].
Qed.
Lemma find_pass_all_none libs g : find_pass false libs g = None -> forall l, In l libs -> ~ has_gtype l g.
Proof.
  induction libs as [|l t IH]; simpl; [intros _ l []|].
  pose proof (lookup_gtype_spec (t_dir l) g) as Hs. destruct (lookup_gtype (t_dir l) g) as [e'|]; [discriminate|].
  intros H l' [<-|Hl]; [|apply IH; assumption]. intros (e & Hin & Hr & Hg). exact (Hs e Hin Hr Hg).
Qed.

Theorem find_by_gtype_spec libs g :
  match find_by_gtype libs g with
  | Some e => exists l, In l libs /\ In e l.(t_dir) /\ e.(d_registered) = true /\ e.(d_gtype_name) = Some g
  | None => forall l, In l libs -> ~ has_gtype l g
  end.
Proof.
  unfold find_by_gtype. destruct (find_pass true libs g) as [e|] eqn:E1.
  - eapply find_pass_sound; exact E1.
  - destruct (find_pass false libs g) as [e|] eqn:E2.
    + eapply find_pass_sound; exact E2.
    + apply find_pass_all_none. exact E2.
Qed.

(* ------------------------------------------------------------ sizes *)
Local Open Scope Z_scope.
Lemma align_value4 x : align_value x 4 = ((x + 3) / 4) * 4.
Proof.
  unfold align_value. replace (4 - 1) with (Z.ones 2) by reflexivity.
  rewrite <- Z.ldiff_land, Z.ldiff_ones_r by lia.
  rewrite Z.shiftr_div_pow2, Z.shiftl_mul_pow2 by lia. reflexivity.
Qed.

Theorem pack_arith c n :
  0 <= c -> 0 <= n -> align_value (packed_size c n) 4 < 2 ^ 32 ->
  dirmap_offset c mod 4 = 0 /\ 4 + c <= dirmap_offset c /\
  packed_size c n = dirmap_offset c + 2 * n /\
  packed_size c n <= required_size c n /\ required_size c n mod 4 = 0.
Proof.
  intros Hc Hn Hfit. unfold required_size, packed_size, dirmap_offset in *.
  assert (Hb : required_size_bits = 32) by reflexivity. rewrite Hb.
  rewrite !align_value4 in *.
  set (d := (4 + c + 3) / 4 * 4) in *.
  assert (Hd : d mod 4 = 0 /\ 4 + c <= d) by (unfold d; split; [apply Z.mod_mul; lia|];
    pose proof (Z.div_mod (4 + c + 3) 4 ltac:(lia)); pose proof (Z.mod_pos_bound (4 + c + 3) 4 ltac:(lia)); lia).
  destruct Hd as [Hd1 Hd2].
  set (p := d + n * 2) in *.
  assert (Hp : 0 <= p) by (unfold p; lia).
  assert (Hal : p <= (p + 3) / 4 * 4) by
    (pose proof (Z.div_mod (p + 3) 4 ltac:(lia)); pose proof (Z.mod_pos_bound (p + 3) 4 ltac:(lia)); lia).
  assert (Hsmall : p mod 2 ^ 32 = p) by (apply Z.mod_small; lia).
  rewrite Hsmall. rewrite (Z.mod_small ((p + 3) / 4 * 4)) by lia.
  repeat split; auto; try lia. apply Z.mod_mul. lia.
Qed.
