From Coq Require Import List NArith Bool Lia Permutation Sorting.Sorted.
From GIV.Lib Require Import Regex Str.
From GIV.Model Require Import C16.
Import ListNotations.
Local Open Scope N_scope.

(* ---------------------------------------------------------------- string order *)
Lemma str_leb_refl a : str_leb a a = true.
Proof. induction a as [|x t IH]; [reflexivity|]. cbn. rewrite N.ltb_irrefl. exact IH. Qed.

Lemma str_leb_total a : forall b, str_leb a b = true \/ str_leb b a = true.
Proof.
  induction a as [|x t IH]; intros [|y u]; cbn; auto.
  destruct (N.ltb_spec x y); [left; reflexivity|].
  destruct (N.ltb_spec y x); [right; reflexivity|].
  apply IH.
Qed.

Lemma str_leb_antisym a : forall b, str_leb a b = true -> str_leb b a = true -> a = b.
Proof.
  induction a as [|x t IH]; intros [|y u]; cbn; try discriminate; [reflexivity|].
  destruct (N.ltb_spec x y) as [L|L].
  - destruct (N.ltb_spec y x); [lia|]. destruct (N.ltb_spec x y); [discriminate|lia].
  - destruct (N.ltb_spec y x) as [M|M]; [discriminate|].
    intros H1 H2. assert (x = y) by lia. subst. f_equal. apply IH; assumption.
Qed.

Lemma str_leb_trans a : forall b c, str_leb a b = true -> str_leb b c = true -> str_leb a c = true.
Proof.
  induction a as [|x t IH]; intros [|y u] [|z v]; cbn; try discriminate; try reflexivity.
  destruct (N.ltb_spec x y) as [L|L].
  - intros _. destruct (N.ltb_spec y z); [intros _; destruct (N.ltb_spec x z); [reflexivity|lia]|].
    destruct (N.ltb_spec z y); [discriminate|]. intros _. destruct (N.ltb_spec x z); [reflexivity|lia].
  - destruct (N.ltb_spec y x); [discriminate|]. assert (x = y) by lia. subst y.
    intros H1. destruct (N.ltb_spec x z); [reflexivity|].
    destruct (N.ltb_spec z x); [discriminate|]. apply IH. exact H1.
Qed.

Lemma key_leb_total a b : key_leb a b = true \/ key_leb b a = true.
Proof.
  unfold key_leb. destruct (N.ltb_spec (fst a) (fst b)); [left; reflexivity|].
  destruct (N.ltb_spec (fst b) (fst a)); [right; reflexivity|]. apply str_leb_total.
Qed.
Lemma key_leb_antisym a b : key_leb a b = true -> key_leb b a = true -> a = b.
Proof.
  unfold key_leb. destruct a as [a1 a2], b as [b1 b2]; cbn.
  destruct (N.ltb_spec a1 b1).
  - destruct (N.ltb_spec b1 a1); [lia|]. destruct (N.ltb_spec a1 b1); [discriminate|lia].
  - destruct (N.ltb_spec b1 a1); [discriminate|]. intros H1 H2. assert (a1 = b1) by lia. subst.
    f_equal. apply str_leb_antisym; assumption.
Qed.
Lemma key_leb_trans a b c : key_leb a b = true -> key_leb b c = true -> key_leb a c = true.
Proof.
  unfold key_leb. destruct a as [a1 a2], b as [b1 b2], c as [c1 c2]; cbn.
  destruct (N.ltb_spec a1 b1).
  - intros _. destruct (N.ltb_spec b1 c1); [intros _; destruct (N.ltb_spec a1 c1); [reflexivity|lia]|].
    destruct (N.ltb_spec c1 b1); [discriminate|]. intros _. destruct (N.ltb_spec a1 c1); [reflexivity|lia].
  - destruct (N.ltb_spec b1 a1); [discriminate|]. assert (a1 = b1) by lia. subst b1. intros H1.
    destruct (N.ltb_spec a1 c1); [reflexivity|]. destruct (N.ltb_spec c1 a1); [discriminate|].
    apply str_leb_trans. exact H1.
Qed.

(* ---------------------------------------------------------------- generic insertion sort *)
Section SortFacts.
  Context {A K : Type} (leb : A -> A -> bool) (kf : A -> K).
  Context (leb_total : forall a b, leb a b = true \/ leb b a = true)
          (leb_trans : forall a b c, leb a b = true -> leb b c = true -> leb a c = true)
          (leb_antisym : forall a b, leb a b = true -> leb b a = true -> kf a = kf b).

  Definition le (a b : A) : Prop := leb a b = true.

  Lemma insert_perm x l : Permutation (insert leb x l) (x :: l).
  Proof.
    induction l as [|y t IH]; [reflexivity|]. cbn. destruct (leb x y); [reflexivity|].
    rewrite IH. apply perm_swap.
  Qed.
  Lemma isort_perm l : Permutation (isort leb l) l.
  Proof. induction l as [|x t IH]; [reflexivity|]. cbn. rewrite insert_perm. constructor. exact IH. Qed.

  Lemma insert_sorted x l : StronglySorted le l -> StronglySorted le (insert leb x l).
  Proof.
    induction l as [|y t IH]; intros H; cbn; [repeat constructor|].
    inversion H as [|? ? Ht Hall]; subst.
    destruct (leb x y) eqn:E.
    - constructor; [exact H|]. constructor; [exact E|].
      eapply Forall_impl; [|exact Hall]. intros a Ha. eapply leb_trans; [exact E|exact Ha].
    - constructor; [apply IH; exact Ht|].
      assert (Hyx : leb y x = true) by (destruct (leb_total x y); congruence).
      apply Forall_forall. intros a Ha.
      apply (Permutation_in _ (insert_perm x t)) in Ha. destruct Ha as [<-|Ha]; [exact Hyx|].
      rewrite Forall_forall in Hall. apply Hall. exact Ha.
  Qed.
  Lemma isort_sorted l : StronglySorted le (isort leb l).
  Proof. induction l as [|x t IH]; cbn; [constructor|]. apply insert_sorted. exact IH. Qed.

  Lemma sorted_perm_eq l1 : forall l2,
    StronglySorted le l1 -> StronglySorted le l2 -> Permutation l1 l2 -> NoDup (map kf l1) -> l1 = l2.
  Proof.
    induction l1 as [|a t1 IH]; intros l2 S1 S2 P N.
    - apply Permutation_nil in P. subst. reflexivity.
    - destruct l2 as [|b t2]; [apply Permutation_sym, Permutation_nil in P; discriminate|].
      inversion S1 as [|? ? S1t A1]; subst. inversion S2 as [|? ? S2t A2]; subst.
      inversion N as [|? ? Nin Nt]; subst.
      assert (Hb : In b (a :: t1)) by (apply (Permutation_in _ (Permutation_sym P)); left; reflexivity).
      assert (Ha : In a (b :: t2)) by (apply (Permutation_in _ P); left; reflexivity).
      assert (E : a = b).
      { destruct Hb as [Hb|Hb]; [exact Hb|]. exfalso. apply Nin.
        destruct Ha as [Ha|Ha].
        - subst. apply in_map. exact Hb.
        - rewrite Forall_forall in A1, A2.
          assert (kf a = kf b) by (apply leb_antisym; [apply A1; exact Hb | apply A2; exact Ha]).
          rewrite H. apply in_map. exact Hb. }
      subst b. f_equal. apply IH; try assumption. eapply Permutation_cons_inv. exact P.
  Qed.

  Theorem isort_perm_invariant l l' :
    Permutation l l' -> NoDup (map kf l) -> isort leb l = isort leb l'.
  Proof.
    intros P N. apply sorted_perm_eq; try apply isort_sorted.
    - rewrite isort_perm, isort_perm. exact P.
    - eapply Permutation_NoDup; [|exact N]. apply Permutation_map. symmetry. apply isort_perm.
  Qed.
End SortFacts.

(* ---------------------------------------------------------------- namespace members *)
Lemma node_leb_total a b : node_leb a b = true \/ node_leb b a = true.
Proof. apply key_leb_total. Qed.
Lemma node_leb_trans a b c : node_leb a b = true -> node_leb b c = true -> node_leb a c = true.
Proof. apply key_leb_trans. Qed.
Lemma node_leb_antisym a b : node_leb a b = true -> node_leb b a = true -> node_key a = node_key b.
Proof. apply key_leb_antisym. Qed.

Theorem members_perm_invariant l l' :
  Permutation l l' -> NoDup (map node_key l) -> write_members l = write_members l'.
Proof.
  intros P N. unfold write_members. f_equal.
  exact (isort_perm_invariant node_leb node_key node_leb_total node_leb_trans node_leb_antisym l l' P N).
Qed.

Theorem members_sorted l :
  StronglySorted (fun a b => node_leb a b = true) (isort node_leb l) /\ Permutation (isort node_leb l) l.
Proof. split; [apply isort_sorted; [apply node_leb_total | apply node_leb_trans] | apply isort_perm]. Qed.

(* aliases come first, whatever their names *)
Lemma alias_first a b : n_alias a = true -> n_alias b = false -> node_leb a b = true.
Proof. intros Ha Hb. unfold node_leb, node_key, key_leb. rewrite Ha, Hb. reflexivity. Qed.

(* ---------------------------------------------------------------- positions *)
Definition pos_id (p : position) : str * N := (p_file p, p_line p).

Lemma pos_leb_total a b : pos_leb a b = true \/ pos_leb b a = true.
Proof.
  unfold pos_leb. destruct (str_eqb (p_file a) (p_file b)) eqn:E.
  - apply str_eqb_eq in E. rewrite E, str_eqb_refl.
    destruct (N.leb_spec (p_line a) (p_line b)); [left; reflexivity|]. right. apply N.leb_le. lia.
  - assert (E2 : str_eqb (p_file b) (p_file a) = false).
    { destruct (str_eqb (p_file b) (p_file a)) eqn:F; [|reflexivity]. apply str_eqb_eq in F. rewrite F, str_eqb_refl in E. discriminate. }
    rewrite E2. apply str_leb_total.
Qed.
Lemma pos_leb_antisym a b : pos_leb a b = true -> pos_leb b a = true -> pos_id a = pos_id b.
Proof.
  unfold pos_leb, pos_id. destruct (str_eqb (p_file a) (p_file b)) eqn:E.
  - apply str_eqb_eq in E. rewrite E, str_eqb_refl. intros H1 H2. apply N.leb_le in H1, H2. f_equal. lia.
  - assert (E2 : str_eqb (p_file b) (p_file a) = false).
    { destruct (str_eqb (p_file b) (p_file a)) eqn:F; [|reflexivity]. apply str_eqb_eq in F. rewrite F, str_eqb_refl in E. discriminate. }
    rewrite E2. intros H1 H2. pose proof (str_leb_antisym _ _ H1 H2) as F. rewrite F, str_eqb_refl in E. discriminate.
Qed.
Lemma pos_leb_trans a b c : pos_leb a b = true -> pos_leb b c = true -> pos_leb a c = true.
Proof.
  unfold pos_leb.
  destruct (str_eqb (p_file a) (p_file b)) eqn:E1.
  - apply str_eqb_eq in E1. rewrite E1. destruct (str_eqb (p_file b) (p_file c)); [|auto].
    intros H1 H2. apply N.leb_le in H1, H2. apply N.leb_le. lia.
  - destruct (str_eqb (p_file b) (p_file c)) eqn:E2.
    + apply str_eqb_eq in E2. rewrite <- E2, E1. auto.
    + intros H1 H2. destruct (str_eqb (p_file a) (p_file c)) eqn:E3.
      * apply str_eqb_eq in E3. rewrite <- E3 in H2. pose proof (str_leb_antisym _ _ H1 H2) as F.
        rewrite F, str_eqb_refl in E1. discriminate.
      * eapply str_leb_trans; eassumption.
Qed.

Theorem main_position_perm l l' :
  Permutation l l' -> NoDup (map pos_id l) -> main_position l = main_position l'.
Proof.
  intros P N. unfold main_position, psort.
  rewrite (isort_perm_invariant pos_leb pos_id pos_leb_total pos_leb_trans pos_leb_antisym l l' P N). reflexivity.
Qed.

(* the code as found depended on the iteration order of the set *)
Definition pA : position := {| p_file := [97]; p_line := 5; p_typedef := false |}.
Definition pB : position := {| p_file := [98]; p_line := 30; p_typedef := false |}.
Lemma main_position_found_refuted :
  Permutation [pA; pB] [pB; pA] /\ main_position_found [pA; pB] <> main_position_found [pB; pA].
Proof. split; [apply perm_swap | vm_compute; discriminate]. Qed.

(* the main position is a non-typedef position whenever there is one *)
Lemma main_pos_iter_prefers l : forall res p,
  main_pos_iter l res = Some p -> (exists q, In q l /\ p_typedef q = false) -> p_typedef p = false.
Proof.
  induction l as [|x t IH]; intros res p H [q [Hq Hf]]; [destruct Hq|].
  cbn in H. destruct (p_typedef x) eqn:E.
  - destruct Hq as [<-|Hq]; [congruence|]. eapply IH; [exact H|]. exists q. auto.
  - inversion H; subst. exact E.
Qed.
Theorem main_position_prefers_definition l p :
  main_position l = Some p -> (exists q, In q l /\ p_typedef q = false) -> p_typedef p = false.
Proof.
  unfold main_position. intros H [q [Hq Hf]]. eapply main_pos_iter_prefers; [exact H|].
  exists q. split; [|exact Hf]. unfold psort. apply (Permutation_in _ (Permutation_sym (isort_perm pos_leb l))). exact Hq.
Qed.

(* ---------------------------------------------------------------- comment blocks *)
Lemma blocks_lookup_absent {B} (blocks : list (str * B)) name : forall acc,
  ~ In name (map fst blocks) -> blocks_lookup blocks name acc = acc.
Proof.
  induction blocks as [|[n b] t IH]; intros acc H; [reflexivity|]. cbn.
  destruct (str_eqb n name) eqn:E; [apply str_eqb_eq in E; subst; exfalso; apply H; left; reflexivity|].
  apply IH. intros F. apply H. right. exact F.
Qed.

Lemma blocks_lookup_unique {B} (blocks : list (str * B)) name b : forall acc,
  NoDup (map fst blocks) -> In (name, b) blocks -> blocks_lookup blocks name acc = Some b.
Proof.
  induction blocks as [|[n x] t IH]; intros acc N H; [destruct H|]. cbn.
  inversion N as [|? ? Nin Nt]; subst.
  destruct H as [H|H].
  - inversion H; subst. rewrite str_eqb_refl. apply blocks_lookup_absent. exact Nin.
  - apply IH; assumption.
Qed.

Theorem blocks_perm_invariant {B} (blocks blocks' : list (str * B)) name :
  Permutation blocks blocks' -> NoDup (map fst blocks) ->
  blocks_lookup blocks name None = blocks_lookup blocks' name None.
Proof.
  intros P N.
  assert (N' : NoDup (map fst blocks')) by (eapply Permutation_NoDup; [apply Permutation_map; exact P | exact N]).
  destruct (in_dec (list_eq_dec N.eq_dec) name (map fst blocks)) as [I|I].
  - apply in_map_iff in I. destruct I as [[n b] [Hn Hin]]. cbn in Hn. subst n.
    rewrite (blocks_lookup_unique blocks name b None N Hin).
    rewrite (blocks_lookup_unique blocks' name b None N' (Permutation_in _ P Hin)). reflexivity.
  - rewrite blocks_lookup_absent by exact I.
    rewrite blocks_lookup_absent; [reflexivity|]. intros F. apply I.
    apply (Permutation_in _ (Permutation_sym (Permutation_map fst P))). exact F.
Qed.

(* ---------------------------------------------------------------- typedef / struct order *)
Definition same_record (a b : rec) : Prop :=
  r_name a = r_name b /\ r_fields a = r_fields b /\ r_opaque a = r_opaque b /\ r_disguised a = r_disguised b
  /\ Permutation (r_positions a) (r_positions b).

Theorem typedef_struct_order name fields p1 p2 :
  match trun [TTypedef name p1; TStruct fields p2], trun [TStruct fields p2; TTypedef name p1] with
  | (Some a, []), (Some b, []) => same_record a b /\ r_name a = Some name /\ r_fields a = fields
  | _, _ => False
  end.
Proof.
  cbn. split; [|split; reflexivity]. unfold same_record; cbn.
  repeat split; try reflexivity; try (destruct fields; reflexivity); apply perm_swap.
Qed.

(* a forward declaration `struct _Tag;` before or after changes nothing but the set of positions *)
Theorem forward_declaration_order name fields p0 p1 p2 :
  match trun [TStruct [] p0; TTypedef name p1; TStruct fields p2], trun [TTypedef name p1; TStruct fields p2; TStruct [] p0] with
  | (Some a, []), (Some b, []) => same_record a b
  | _, _ => False
  end.
Proof.
  cbn. unfold same_record; cbn. rewrite app_nil_r.
  repeat split; try reflexivity; try (destruct fields; reflexivity).
  change [p0; p1; p2] with ([p0] ++ [p1; p2]). change [p1; p2; p0] with ([p1; p2] ++ [p0]). apply Permutation_app_comm.
Qed.

(* two typedefs of one tag (GObject / GInitiallyUnowned): wherever the structure body stands, both
   records carry its fields *)
Theorem second_typedef_order a b f0 fields p1 p2 p3 :
  let f := f0 :: fields in
  Forall2 same_record (tfinal (trun [TTypedef a p1; TTypedef b p2; TStruct f p3])) (tfinal (trun [TTypedef a p1; TStruct f p3; TTypedef b p2]))
  /\ Forall2 same_record (tfinal (trun [TTypedef a p1; TTypedef b p2; TStruct f p3])) (tfinal (trun [TStruct f p3; TTypedef a p1; TTypedef b p2]))
  /\ map r_fields (tfinal (trun [TTypedef a p1; TTypedef b p2; TStruct f p3])) = [f; f].
Proof.
  cbn. unfold same_record. repeat split; repeat constructor; cbn; try reflexivity; try apply perm_swap.
Qed.
