From Coq Require Import List Arith NArith Bool String Ascii Lia.
From GIV.Lib Require Import Regex Str.
From GIV.Model Require Import C02 C04 C12Q.
Import ListNotations.
Local Open Scope N_scope.

Lemma set_domain_length es : forall i d, List.length (set_domain es i d) = List.length es.
Proof. induction es as [|e t IH]; intros [|j] d; cbn; try reflexivity; rewrite IH; reflexivity. Qed.

Lemma set_domain_names es : forall i d, map qe_name (set_domain es i d) = map qe_name es
                                        /\ map qe_prefix (set_domain es i d) = map qe_prefix es.
Proof.
  induction es as [|e t IH]; intros [|j] d; cbn; try (split; reflexivity).
  destruct (IH j d) as [A B]. rewrite A, B. split; reflexivity.
Qed.

Lemma set_domain_nth es : forall i d j,
  nth_error (set_domain es i d) j =
  if Nat.eqb i j then option_map (fun e => {| qe_name := qe_name e; qe_prefix := qe_prefix e; qe_domain := Some d |}) (nth_error es j)
  else nth_error es j.
Proof.
  induction es as [|e t IH]; intros [|i] d [|j]; cbn; try reflexivity.
  - destruct (Nat.eqb i j); reflexivity.
  - apply IH.
Qed.

(* names and prefixes never change, so the enumeration a quark belongs to does not depend on the quarks before it *)
Lemma find_index_ext {A} (f g : A -> bool) l : forall i, map f l = map g l -> find_index f l i = find_index g l i.
Proof.
  induction l as [|x t IH]; intros i H; [reflexivity|]. cbn in H. inversion H as [[H1 H2]]. cbn. rewrite H1. rewrite (IH (S i) H2). reflexivity.
Qed.

Lemma find_index_set_domain (f : qenum -> bool) es :
  (forall e d, f {| qe_name := qe_name e; qe_prefix := qe_prefix e; qe_domain := Some d |} = f e) ->
  forall n i d, find_index f (set_domain es i d) n = find_index f es n.
Proof.
  intros Hf. induction es as [|e t IH]; intros n [|j] d; cbn [set_domain find_index]; try reflexivity.
  - rewrite Hf. reflexivity.
  - destruct (f e); [reflexivity|]. apply IH.
Qed.

Lemma target_stable es i d short : target (set_domain es i d) short = target es short.
Proof.
  unfold target, by_prefix, by_name.
  rewrite (find_index_set_domain (fun e => opt_str_eqb (qe_prefix e) short) es (fun _ _ => eq_refl)).
  rewrite (find_index_set_domain (fun e => str_eqb (uscore_noprefix (qe_name e)) short || str_eqb (qe_name e) short) es (fun _ _ => eq_refl)).
  reflexivity.
Qed.

Lemma find_index_bound {A} (f : A -> bool) l : forall i k, find_index f l i = Some k -> (i <= k < i + List.length l)%nat.
Proof.
  induction l as [|x t IH]; intros i k H; [discriminate|]. cbn in H. destruct (f x).
  - inversion H; subst. cbn. lia.
  - apply IH in H. cbn. lia.
Qed.

Lemma target_bound es short k : target es short = Some k -> (k < List.length es)%nat.
Proof.
  unfold target, by_prefix, by_name. intros H.
  destruct (find_index (fun e => opt_str_eqb (qe_prefix e) short) es 0) eqn:E.
  - inversion H; subst. apply find_index_bound in E. lia.
  - apply find_index_bound in H. lia.
Qed.

(* state after all quarks: the domain of enumeration j is that of the last quark whose target is j, or what it was *)
Fixpoint last_domain (es : list qenum) (qs : list quark) (j : nat) (acc : option str) : option str :=
  match qs with
  | [] => acc
  | q :: t => last_domain es t j (match target es (q_short q) with
                                   | Some i => if Nat.eqb i j then Some (q_domain q) else acc
                                   | None => acc
                                   end)
  end.

Lemma qstep_eq es w q :
  qstep (es, w) q = match target es (q_short q) with
                    | Some i => (set_domain es i (q_domain q), w)
                    | None => (es, w ++ [q_short q])
                    end.
Proof. unfold qstep, pair_one. cbn [fst snd]. destruct (target es (q_short q)); reflexivity. Qed.

Lemma pair_all_state qs : forall es0 es w,
  map qe_name es = map qe_name es0 -> map qe_prefix es = map qe_prefix es0 ->
  (forall short, target es short = target es0 short) ->
  let r := fold_left qstep qs (es, w) in
  map qe_name (fst r) = map qe_name es0 /\ map qe_prefix (fst r) = map qe_prefix es0
  /\ (forall j, option_map qe_domain (nth_error (fst r) j)
                = option_map (fun e => last_domain es0 qs j (qe_domain e)) (nth_error es j))
  /\ snd r = w ++ map q_short (filter (fun q => match target es0 (q_short q) with None => true | Some _ => false end) qs).
Proof.
  induction qs as [|q t IH]; intros es0 es w Hn Hp Ht.
  - cbn [fold_left fst snd last_domain filter map]. split; [exact Hn|]. split; [exact Hp|]. split.
    + intros j. destruct (nth_error es j); reflexivity.
    + rewrite app_nil_r. reflexivity.
  - cbn [fold_left]. rewrite qstep_eq. rewrite (Ht (q_short q)).
    destruct (target es0 (q_short q)) as [i|] eqn:T.
    + cbn [fst snd].
      destruct (set_domain_names es i (q_domain q)) as [A B].
      specialize (IH es0 (set_domain es i (q_domain q)) w).
      destruct IH as [I1 [I2 [I3 I4]]].
      * rewrite A. exact Hn.
      * rewrite B. exact Hp.
      * intros short. rewrite target_stable. apply Ht.
      * split; [exact I1|]. split; [exact I2|]. split.
        -- intros j. rewrite I3. rewrite set_domain_nth. cbn [last_domain]. rewrite T.
           destruct (Nat.eqb i j) eqn:E; destruct (nth_error es j); reflexivity.
        -- rewrite I4. cbn [filter]. rewrite T. reflexivity.
    + cbn [fst snd].
      specialize (IH es0 es (w ++ [q_short q]) Hn Hp Ht). destruct IH as [I1 [I2 [I3 I4]]].
      split; [exact I1|]. split; [exact I2|]. split.
      * intros j. rewrite I3. cbn [last_domain]. rewrite T. reflexivity.
      * rewrite I4. cbn [filter]. rewrite T. cbn [map]. rewrite <- app_assoc. reflexivity.
Qed.

(* the statement of the property, for every list of enumerations and every list of quark functions *)
Theorem error_domains es qs :
  let r := pair_all es qs in
  map qe_name (fst r) = map qe_name es /\ map qe_prefix (fst r) = map qe_prefix es
  /\ (forall j e, nth_error es j = Some e ->
        option_map qe_domain (nth_error (fst r) j) = Some (last_domain es qs j (qe_domain e)))
  /\ snd r = map q_short (filter (fun q => match target es (q_short q) with None => true | Some _ => false end) qs).
Proof.
  unfold pair_all.
  destruct (pair_all_state qs es es [] eq_refl eq_refl (fun _ => eq_refl)) as [A [B [C D]]].
  split; [exact A|]. split; [exact B|]. split; [|exact D].
  intros j e He. rewrite C, He. reflexivity.
Qed.

(* corollaries in the property's words *)
Lemma last_domain_none es qs j acc :
  (forall q, In q qs -> target es (q_short q) <> Some j) -> last_domain es qs j acc = acc.
Proof.
  revert acc. induction qs as [|q t IH]; intros acc H; [reflexivity|]. cbn [last_domain].
  destruct (target es (q_short q)) as [i|] eqn:T.
  - destruct (Nat.eqb i j) eqn:E.
    + apply Nat.eqb_eq in E. subst. exfalso. apply (H q (or_introl eq_refl)). exact T.
    + apply IH. intros q' Hq. apply H. right. exact Hq.
  - apply IH. intros q' Hq. apply H. right. exact Hq.
Qed.

Lemma last_domain_single es pre q post j acc :
  target es (q_short q) = Some j ->
  (forall q', In q' post -> target es (q_short q') <> Some j) ->
  last_domain es (pre ++ q :: post) j acc = Some (q_domain q).
Proof.
  intros T H. revert acc. induction pre as [|p t IH]; intros acc.
  - cbn [app last_domain]. rewrite T, Nat.eqb_refl. apply last_domain_none. exact H.
  - cbn [app last_domain]. apply IH.
Qed.

Theorem domain_given es pre q post j e :
  nth_error es j = Some e -> target es (q_short q) = Some j ->
  (forall q', In q' post -> target es (q_short q') <> Some j) ->
  option_map qe_domain (nth_error (fst (pair_all es (pre ++ q :: post))) j) = Some (Some (q_domain q)).
Proof.
  intros He T H. destruct (error_domains es (pre ++ q :: post)) as [_ [_ [C _]]].
  rewrite (C j e He). rewrite (last_domain_single es pre q post j (qe_domain e) T H). reflexivity.
Qed.

Theorem domain_kept es qs j e :
  nth_error es j = Some e -> (forall q, In q qs -> target es (q_short q) <> Some j) ->
  option_map qe_domain (nth_error (fst (pair_all es qs)) j) = Some (qe_domain e).
Proof.
  intros He H. destruct (error_domains es qs) as [_ [_ [C _]]].
  rewrite (C j e He). rewrite (last_domain_none es qs j (qe_domain e) H). reflexivity.
Qed.

Theorem unmatched_reported es qs :
  snd (pair_all es qs) = map q_short (filter (fun q => match target es (q_short q) with None => true | Some _ => false end) qs)
  /\ map qe_name (fst (pair_all es qs)) = map qe_name es.
Proof. destruct (error_domains es qs) as [A [_ [_ D]]]. split; assumption. Qed.

(* the symbol prefix of the get-type function decides before the spelling of the name *)
Theorem registered_prefix_first es short i :
  by_prefix es short = Some i -> target es short = Some i.
Proof. unfold target. intros H. rewrite H. reflexivity. Qed.
