From Coq Require Import List NArith Bool.
From GIV.Lib Require Import Regex Str.
From GIV.Model Require Import C14.
From GIV.Proofs Require Import C14.
From GIV.Model Require Import C14R.
Import ListNotations.
Local Open Scope N_scope.

Definition entry_of (libs : list tlib) (g : str) (e : dentry) : Prop :=
  exists l, In l libs /\ In e l.(t_dir) /\ e.(d_registered) = true /\ e.(d_gtype_name) = Some g.

(* what the two tables may hold *)
Definition rinv (st : rstate) : Prop :=
  (forall g e, assoc g (r_found st) = Some e -> entry_of (r_libs st) g e) /\
  (forall g, In g (r_unknown st) -> forall l, In l (r_libs st) -> ~ has_gtype l g).

Definition answer_ok (libs : list tlib) (g : str) (a : option dentry) : Prop :=
  match a with
  | Some e => entry_of libs g e
  | None => forall l, In l libs -> ~ has_gtype l g
  end.

Lemma smem_in g l : smem g l = true -> In g l.
Proof.
  unfold smem. intro H. apply existsb_exists in H as (x & Hin & Hx). apply str_eqb_eq in Hx. subst. exact Hin.
Qed.

Lemma rinv_empty : rinv r_empty.
Proof. split; simpl; [intros; discriminate|intros g []]. Qed.

Lemma libs_grow st (lazy : bool) l l' :
  In l' (r_libs st) ->
  In l' ((if lazy then r_eager st else r_eager st ++ [l]) ++ (if lazy then r_lazy st ++ [l] else r_lazy st)).
Proof.
  unfold r_libs. intro H. apply in_app_or in H. destruct lazy; apply in_or_app; destruct H as [H|H]; auto.
  - right. apply in_or_app; auto.
  - left. apply in_or_app; auto.
Qed.

Lemma rstep_inv st o : rinv st -> rinv (fst (rstep st o)).
Proof.
  intros [Hf Hu]. destruct o as [lazy l|g]; cbn [rstep rstep_gen fst].
  - split.
    + intros g e Ha. cbn [r_found] in Ha. destruct (Hf g e Ha) as (l' & Hin & Hr). exists l'. split; [|exact Hr].
      unfold r_libs at 1. cbn [r_eager r_lazy]. apply libs_grow. exact Hin.
    + cbn [r_unknown]. rewrite andb_false_r. intros g [].
  - destruct (assoc g (r_found st)) as [e|] eqn:Ea; [split; assumption|].
    destruct (smem g (r_unknown st)) eqn:Em; [split; assumption|].
    pose proof (find_by_gtype_spec (r_libs st) g) as Hs.
    destruct (find_by_gtype (r_libs st) g) as [e|]; cbn [fst]; split; cbn [r_found r_unknown]; unfold r_libs; cbn [r_eager r_lazy]; fold (r_libs st).
    + intros g' e'. cbn [assoc]. destruct (str_eqb g g') eqn:E.
      * apply str_eqb_eq in E. subst g'. intros [= <-]. exact Hs.
      * apply Hf.
    + exact Hu.
    + exact Hf.
    + intros g' [<-|Hin]; [exact Hs|apply Hu; exact Hin].
Qed.

Lemma rstep_answer st g : rinv st -> forall a, snd (rstep st (RFind g)) = Some a -> answer_ok (r_libs st) g a.
Proof.
  intros [Hf Hu] a. cbn [rstep rstep_gen].
  destruct (assoc g (r_found st)) as [e|] eqn:Ea.
  - cbn [snd]. intros [= <-]. apply Hf. exact Ea.
  - destruct (smem g (r_unknown st)) eqn:Em.
    + cbn [snd]. intros [= <-]. cbn [answer_ok]. apply Hu. apply smem_in. exact Em.
    + pose proof (find_by_gtype_spec (r_libs st) g) as Hs.
      destruct (find_by_gtype (r_libs st) g) as [e|]; cbn [snd]; intros [= <-]; exact Hs.
Qed.

(* every answer of every history is right for the typelibs loaded at that moment *)
Fixpoint answers_ok (st : rstate) (ops : list rop) : Prop :=
  match ops with
  | [] => True
  | o :: t => match o with
              | RFind g => forall a, snd (rstep st o) = Some a -> answer_ok (r_libs st) g a
              | RLoad _ _ => True
              end /\ answers_ok (fst (rstep st o)) t
  end.

Lemma history_ok ops : forall st, rinv st -> answers_ok st ops.
Proof.
  induction ops as [|o t IH]; intros st Hi; cbn [answers_ok]; [exact I|].
  split; [|apply IH, rstep_inv, Hi]. destruct o as [lazy l|g]; [exact I|]. apply rstep_answer. exact Hi.
Qed.

Theorem repo_find_by_gtype_history ops : answers_ok r_empty ops.
Proof. apply history_ok, rinv_empty. Qed.

(* in particular: asked before the typelib that registers it is loaded (a miss), and again afterwards *)
Lemma miss_then_load g (lazy : bool) l e :
  lookup_gtype l.(t_dir) g = Some e ->
  snd (rrun r_empty [RFind g; RLoad lazy l; RFind g]) = [Some None; None; Some (Some e)].
Proof.
  intros Hl.
  assert (Hf : find_by_gtype [l] g = Some e).
  { unfold find_by_gtype. cbn [find_pass]. rewrite Hl. destruct (true && negb (matches_prefix (t_prefixes l) g)); reflexivity. }
  unfold rrun. destruct lazy; simpl; unfold r_libs; cbn [r_eager r_lazy app]; rewrite Hf; reflexivity.
Qed.

(* the variant that keeps unknown_gtypes across a lazy registration answers wrongly *)
Definition w_entry : dentry := {| d_name := [84]; d_registered := true; d_gtype_name := Some [68;84]; d_is_enum := false; d_error_domain := None |}.
Definition w_lib : tlib := {| t_prefixes := [[68]]; t_dir := [w_entry] |}.
Lemma stale_unknown_refuted :
  snd (rrun_gen false r_empty [RFind [68;84]; RLoad true w_lib; RFind [68;84]]) = [Some None; None; Some None]
  /\ has_gtype w_lib [68;84].
Proof. split; [vm_compute; reflexivity|]. exists w_entry. cbn. auto. Qed.
