From Coq Require Import List Arith Bool Lia.
From GIV.Model Require Import C18.
Import ListNotations.

(* ------------------------------------------------------------ the code as found serves stale data *)
(* (a) the source changes between a storer's parse and its write: the entry is newer than the
       source but holds the old parse; a later load returns it *)
Definition witness_a : list event :=
  [Spawn; Step 0; Step 0; Modify; Step 0; Step 0; Step 0; Step 0; Step 0;
   Spawn; Step 1; Step 1; Step 1; Step 1].
(* (b) a loader has opened the old entry; a storer renames a fresh one into place; the loader
       validates the NEW file by path and unpickles the OLD inode *)
Definition witness_b : list event :=
  [Spawn; Step 0; Step 0; Step 0; Step 0; Step 0; Step 0; Step 0;     (* entry for version 0 *)
   Modify;
   Spawn; Step 1;                                                     (* loader opens the old entry *)
   Spawn; Step 2; Step 2; Step 2; Step 2; Step 2; Step 2; Step 2; Step 2; Step 2; Step 2;  (* storer replaces it *)
   Step 1; Step 1; Step 1].

Definition stale (s : st) (pid : nat) : bool :=
  match result_of s pid with
  | Some r => negb (existsb (Nat.eqb r) (seen_of s pid))
  | None => false
  end.

Lemma refuted_a : stale (run false witness_a) 1 = true.
Proof. vm_compute. reflexivity. Qed.
Lemma refuted_b : stale (run false witness_b) 1 = true.
Proof. vm_compute. reflexivity. Qed.
(* the same schedules are harmless under the repaired protocol *)
Lemma repaired_a : stale (run true (witness_a ++ [Step 1; Step 1; Step 1; Step 1; Step 1; Step 1; Step 1])) 1 = false
                   /\ result_of (run true (witness_a ++ [Step 1; Step 1; Step 1; Step 1; Step 1; Step 1; Step 1])) 1 <> None.
Proof. vm_compute. split; [reflexivity|discriminate]. Qed.

(* ------------------------------------------------------------ invariant of the repaired protocol *)
Definition inode_ok (s : st) : Prop :=
  forall i n, inodes s i = Some n -> complete n = true -> stamp n <= payload n /\ payload n <= src s.
Definition inodes_bound (s : st) : Prop := forall i, next_inode s <= i -> inodes s i = None.

Definition running (p : proc) : bool := p_alive p && negb (is_done (p_pc p)).

Definition pc_ok (s : st) (p : proc) : Prop :=
  (running p = true -> In (src s) (p_seen p)) /\
  match p_pc p with
  | Start | Opened _ | Miss => True
  | Statted i sm => exists n, inodes s i = Some n /\ sm = stamp n
  | Valid i => exists n, inodes s i = Some n /\ (complete n = true -> In (payload n) (p_seen p))
  | PStat m0 => m0 <= src s
  | Parsed m0 v | SChk m0 v _ => m0 <= v /\ v <= src s /\ In v (p_seen p)
  | SHalf m0 v t | SFull m0 v t => m0 <= v /\ v <= src s /\ In v (p_seen p)
  | SStamped m0 v t => m0 <= v /\ v <= src s /\ In v (p_seen p) /\ payload t = v /\ stamp t = m0 /\ complete t = true
  | Done r => In r (p_seen p)
  end.

Definition Inv (s : st) : Prop :=
  src s < clock s /\ inodes_bound s /\ inode_ok s /\ forall pid p, procs s pid = Some p -> pc_ok s p.

Lemma inv_init : Inv init.
Proof.
  unfold Inv, init; simpl. split; [lia|]. split; [intros k _; reflexivity|].
  split; [intros k n H; discriminate|intros pid p H; discriminate].
Qed.

Ltac proj := unfold inodes_bound, inode_ok in *; cbn [clock src entry inodes next_inode procs next_pid p_pc p_seen p_alive payload stamp complete running is_done andb negb] in *.

Ltac fin :=
  repeat match goal with
         | H : _ /\ _ |- _ => destruct H
         | |- _ /\ _ => split
         end; try lia; try assumption; try (right; assumption); eauto.

Lemma upd_same {A} (f : nat -> option A) k v : upd f k v k = Some v.
Proof. unfold upd. rewrite Nat.eqb_refl. reflexivity. Qed.
Lemma upd_other {A} (f : nat -> option A) k v x : x <> k -> upd f k v x = f x.
Proof. unfold upd. intro H. destruct (Nat.eqb_spec x k); [contradiction|reflexivity]. Qed.

(* a process's facts survive any change that keeps the source version and only adds inodes *)
Lemma pc_ok_ext s s' p : src s' = src s -> (forall i n, inodes s i = Some n -> inodes s' i = Some n) ->
  pc_ok s p -> pc_ok s' p.
Proof.
  intros Hsrc Hino [H1 H2]. unfold pc_ok. rewrite Hsrc. split; [exact H1|].
  destruct (p_pc p); auto.
  - destruct H2 as (n & Hn & Hs). exists n. split; [apply Hino; exact Hn|exact Hs].
  - destruct H2 as (n & Hn & Hs). exists n. split; [apply Hino; exact Hn|exact Hs].
Qed.

(* set_pc: the stepping process gets a new pc, everything else is untouched *)
Lemma inv_set_pc s pid p c : Inv s -> procs s pid = Some p ->
  pc_ok s {| p_pc := c; p_seen := p_seen p; p_alive := p_alive p |} -> Inv (set_pc s pid p c).
Proof.
  intros (H0 & Hb & Hi & Hp) Hpid Hc. unfold Inv, set_pc; proj. split; [lia|]. split; [exact Hb|]. split; [exact Hi|].
  intros pid' p' Hp'. destruct (Nat.eq_dec pid' pid) as [->|Hne].
  - rewrite upd_same in Hp'. injection Hp' as <-.
    eapply pc_ok_ext; [| |exact Hc]; proj; auto.
  - rewrite upd_other in Hp' by exact Hne. eapply pc_ok_ext; [| |exact (Hp _ _ Hp')]; proj; auto.
Qed.

(* publishing a completely written, correctly stamped file as a fresh inode *)
Lemma inv_publish s pid p v t : Inv s -> procs s pid = Some p ->
  stamp t <= payload t -> payload t <= src s -> In v (p_seen p) ->
  Inv {| clock := S (clock s); src := src s; entry := Some (next_inode s);
         inodes := upd (inodes s) (next_inode s) t; next_inode := S (next_inode s);
         procs := upd (procs s) pid {| p_pc := Done v; p_seen := p_seen p; p_alive := p_alive p |};
         next_pid := next_pid s |}.
Proof.
  intros (H0 & Hb & Hi & Hp) Hpid Ht1 Ht2 Hv. unfold Inv; proj. split; [lia|]. split; [|split].
  - intros i Hle. rewrite upd_other by lia. apply Hb. lia.
  - intros i n Hn Hc. destruct (Nat.eq_dec i (next_inode s)) as [->|Hne].
    + rewrite upd_same in Hn. injection Hn as <-. auto.
    + rewrite upd_other in Hn by exact Hne. apply (Hi i n Hn Hc).
  - assert (Hext : forall i n, inodes s i = Some n -> upd (inodes s) (next_inode s) t i = Some n).
    { intros i n Hn. rewrite upd_other; [exact Hn|]. intro Heq. subst. rewrite (Hb (next_inode s)) in Hn by lia. discriminate. }
    intros pid' p' Hp'. destruct (Nat.eq_dec pid' pid) as [->|Hne].
    + rewrite upd_same in Hp'. injection Hp' as <-. unfold pc_ok; proj. split; [|exact Hv].
      unfold running; proj. rewrite andb_false_r. discriminate.
    + rewrite upd_other in Hp' by exact Hne.
      eapply (pc_ok_ext s); [| |exact (Hp _ _ Hp')]; proj; auto.
Qed.

Lemma inv_tick s : Inv s -> Inv (tick s).
Proof.
  intros (H0 & Hb & Hi & Hp). unfold Inv, tick; proj. split; [lia|]. split; [exact Hb|]. split; [exact Hi|].
  intros pid p Hpid. eapply (pc_ok_ext s); [| |exact (Hp _ _ Hpid)]; proj; auto.
Qed.

Lemma running_same_alive p c : is_done c = false -> running {| p_pc := c; p_seen := p_seen p; p_alive := p_alive p |} = p_alive p.
Proof. intro H. unfold running; proj. rewrite H. apply andb_true_r. Qed.

Lemma inv_proc_step s pid p : Inv s -> procs s pid = Some p -> p_alive p = true -> Inv (proc_step true s pid p).
Proof.
  intros HI Hpid Hal. pose proof HI as (H0 & Hb & Hi & Hp). pose proof (Hp _ _ Hpid) as [Hrun Hpc].
  unfold proc_step.
  assert (Hsrc : is_done (p_pc p) = false -> In (src s) (p_seen p)).
  { intro Hd. apply Hrun. unfold running. rewrite Hal, Hd. reflexivity. }
  destruct (p_pc p) as [|i|i sm|i| |m0|m0 v|m0 v sm|m0 v t|m0 v t|m0 v t|r] eqn:Epc.
  - (* Start *)
    specialize (Hsrc eq_refl).
    destruct (entry s) as [i|]; apply inv_set_pc; auto; unfold pc_ok; proj; (split; [intros _; exact Hsrc|exact I]).
  - (* Opened *)
    specialize (Hsrc eq_refl). unfold stamp_of.
    destruct (inodes s i) as [n|] eqn:En; apply inv_set_pc; auto; unfold pc_ok; proj; (split; [intros _; exact Hsrc|]); [|exact I].
    exists n. auto.
  - (* Statted *)
    specialize (Hsrc eq_refl). destruct Hpc as (n & Hn & ->).
    destruct (src s <=? stamp n) eqn:E; apply inv_set_pc; auto; unfold pc_ok; proj; (split; [intros _; exact Hsrc|]); [|exact I].
    exists n. split; [exact Hn|]. intro Hc. apply Nat.leb_le in E. destruct (Hi i n Hn Hc) as [Ha Hb2].
    assert (payload n = src s) by lia. rewrite H. exact Hsrc.
  - (* Valid *)
    specialize (Hsrc eq_refl). destruct Hpc as (n & Hn & Hseen). rewrite Hn.
    destruct (complete n) eqn:Ec.
    + apply inv_set_pc; auto. unfold pc_ok; proj. split; [unfold running; proj; rewrite andb_false_r; discriminate|auto].
    + (* unreadable: entry removed *)
      assert (HI' : Inv (set_pc s pid p Miss)).
      { apply inv_set_pc; auto. unfold pc_ok; proj. split; [intros _; exact Hsrc|exact I]. }
      destruct HI' as (A & B & C & D). unfold Inv, set_pc in *; proj.
      split; [exact A|]. split; [exact B|]. split; [exact C|exact D].
  - (* Miss *)
    specialize (Hsrc eq_refl). apply inv_set_pc; auto. unfold pc_ok; proj. split; [intros _; exact Hsrc|lia].
  - (* PStat *)
    specialize (Hsrc eq_refl). apply inv_set_pc; auto. unfold pc_ok; proj. split; [intros _; exact Hsrc|]. repeat split; auto.
  - (* Parsed *)
    specialize (Hsrc eq_refl). apply inv_set_pc; auto. unfold pc_ok; proj. split; [intros _; exact Hsrc|exact Hpc].
  - (* SChk *)
    specialize (Hsrc eq_refl). destruct Hpc as (A & B & C).
    destruct (match sm with Some m => src s <=? m | None => false end).
    + apply inv_set_pc; auto. unfold pc_ok; proj. split; [unfold running; proj; rewrite andb_false_r; discriminate|exact C].
    + apply inv_set_pc; auto. unfold pc_ok; proj. split; [intros _; exact Hsrc|auto].
  - (* SHalf *)
    specialize (Hsrc eq_refl). apply inv_set_pc; auto. unfold pc_ok; proj. split; [intros _; exact Hsrc|exact Hpc].
  - (* SFull: utime (tmp, m0) *)
    specialize (Hsrc eq_refl). destruct Hpc as (A & B & C).
    apply inv_set_pc; auto. unfold pc_ok; proj. split; [intros _; exact Hsrc|]. repeat split; auto.
  - (* SStamped: rename *)
    destruct Hpc as (A & B & C & D & E & F).
    apply (inv_publish s pid p v t HI Hpid); [rewrite D, E; exact A|rewrite D; exact B|exact C].
  - (* Done *)
    apply inv_tick. exact HI.
Qed.

Theorem inv_step s e : Inv s -> Inv (step true s e).
Proof.
  intro HI. pose proof HI as (H0 & Hb & Hi & Hp). destruct e as [|pid| |pid| |]; cbn [step].
  - (* Spawn *)
    unfold Inv; proj. split; [lia|]. split; [exact Hb|]. split; [exact Hi|].
    intros pid p Hpid. destruct (Nat.eq_dec pid (next_pid s)) as [->|Hne].
    + rewrite upd_same in Hpid. injection Hpid as <-. unfold pc_ok; proj. split; [intros _; left; reflexivity|exact I].
    + rewrite upd_other in Hpid by exact Hne. eapply (pc_ok_ext s); [| |exact (Hp _ _ Hpid)]; proj; auto.
  - (* Step *)
    destruct (procs s pid) as [p|] eqn:Ep; [|apply inv_tick; exact HI].
    destruct (p_alive p) eqn:Ea; [apply inv_proc_step; assumption|apply inv_tick; exact HI].
  - (* Modify *)
    unfold Inv; proj. split; [lia|]. split; [exact Hb|]. split.
    + intros i n Hn Hc. destruct (Hi i n Hn Hc). split; lia.
    + intros pid p Hpid. destruct (procs s pid) as [q|] eqn:Eq; [|discriminate]. injection Hpid as <-.
      destruct (Hp _ _ Eq) as [Hrun Hpc]. unfold pc_ok.
      destruct (p_alive q && negb (is_done (p_pc q))) eqn:Er; proj.
      * split; [intros _; left; reflexivity|].
        destruct (p_pc q); proj; try exact I; fin.
        destruct Hpc as (n & Hn & Hs). exists n. split; [exact Hn|]. intro Hc. right. auto.
      * split; [unfold running; rewrite Er; discriminate|].
        destruct (p_pc q); proj; try exact I; fin.
  - (* Kill *)
    destruct (procs s pid) as [p|] eqn:Ep; [|apply inv_tick; exact HI].
    unfold Inv; proj. split; [lia|]. split; [exact Hb|]. split; [exact Hi|].
    intros pid' p' Hp'. destruct (Nat.eq_dec pid' pid) as [->|Hne].
    + rewrite upd_same in Hp'. injection Hp' as <-. destruct (Hp _ _ Ep) as [Hrun Hpc]. unfold pc_ok; proj.
      split; [unfold running; proj; discriminate|].
      destruct (p_pc p); auto.
    + rewrite upd_other in Hp' by exact Hne. eapply (pc_ok_ext s); [| |exact (Hp _ _ Hp')]; proj; auto.
  - (* Unlink *)
    unfold Inv; proj. split; [lia|]. split; [exact Hb|]. split; [exact Hi|].
    intros pid p Hpid. eapply (pc_ok_ext s); [| |exact (Hp _ _ Hpid)]; proj; auto.
  - (* Garbage *)
    unfold Inv; proj. split; [lia|]. split; [|split].
    + intros i Hle. rewrite upd_other by lia. apply Hb. lia.
    + intros i n Hn Hc. destruct (Nat.eq_dec i (next_inode s)) as [->|Hne].
      * rewrite upd_same in Hn. injection Hn as <-. cbn in Hc. discriminate.
      * rewrite upd_other in Hn by exact Hne. apply (Hi i n Hn Hc).
    + intros pid p Hpid. eapply (pc_ok_ext s); [| |exact (Hp _ _ Hpid)]; proj; auto.
      intros i n Hn. rewrite upd_other; [exact Hn|]. intro Heq. subst. rewrite (Hb (next_inode s)) in Hn by lia. discriminate.
Qed.

Theorem inv_run evs : Inv (run true evs).
Proof.
  unfold run. assert (H : forall l s, Inv s -> Inv (fold_left (step true) l s)).
  { induction l as [|e t IH]; intros s Hs; proj; [exact Hs|]. apply IH. apply inv_step. exact Hs. }
  apply H. apply inv_init.
Qed.

(* For every schedule of any number of processes, with source modifications, kills, unlinks and
   unreadable entries anywhere: whatever a finished operation returns is the parse of a version
   that was current at some moment during that operation. *)
Theorem safe evs pid r : result_of (run true evs) pid = Some r -> In r (seen_of (run true evs) pid).
Proof.
  intro H. destruct (inv_run evs) as (_ & _ & _ & Hp). unfold result_of, seen_of in *.
  destruct (procs (run true evs) pid) as [p|] eqn:Ep; [|discriminate].
  destruct (Hp _ _ Ep) as [_ Hpc]. destruct (p_pc p); try discriminate. injection H as <-. exact Hpc.
Qed.

(* an entry older than the source is never used: a load that accepts an entry saw stamp >= mtime *)
Theorem never_older evs pid p i : procs (run true evs) pid = Some p -> p_pc p = Valid i ->
  exists n, inodes (run true evs) i = Some n /\ (complete n = true -> In (payload n) (p_seen p)).
Proof.
  intros Hp Hpc. destruct (inv_run evs) as (_ & _ & _ & H). destruct (H _ _ Hp) as [_ Hc]. rewrite Hpc in Hc. exact Hc.
Qed.

(* every file reachable under the entry name is either unreadable (and will be discarded) or a
   complete, correctly stamped parse: a partially written temporary is never visible *)
Theorem published_ok evs i n : inodes (run true evs) i = Some n -> complete n = true ->
  stamp n <= payload n /\ payload n <= src (run true evs).
Proof. intros Hn Hc. destruct (inv_run evs) as (_ & _ & Hi & _). apply (Hi i n Hn Hc). Qed.
