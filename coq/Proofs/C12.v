From Coq Require Import List Arith NArith Bool String Ascii Lia.
From GIV.Lib Require Import Regex Str.
From GIV.Model Require Import C02 C16 C12.
From GIV.Proofs Require C16.
Import ListNotations.
Local Open Scope N_scope.

Lemma map_fst_combine_eq {A B} (l : list A) : forall (l' : list B), List.length l = List.length l' -> map fst (combine l l') = l.
Proof. induction l as [|x t IH]; intros [|y u] H; cbn in *; try discriminate; [reflexivity|]. f_equal. apply IH. lia. Qed.
Lemma map_snd_combine_eq {A B} (l : list A) : forall (l' : list B), List.length l = List.length l' -> map snd (combine l l') = l'.
Proof. induction l as [|x t IH]; intros [|y u] H; cbn in *; try discriminate; [reflexivity|]. f_equal. apply IH. lia. Qed.

(* ---------------------------------------------------------------- property flags *)
Lemma testbit_low c k i : c < 16 -> i < 4 -> N.testbit (c + 16 * k) i = N.testbit c i.
Proof.
  intros Hc Hi. rewrite <- (N.mod_pow2_bits_low (c + 16 * k) 4 i) by exact Hi. change (2 ^ 4) with 16.
  rewrite (N.mul_comm 16 k), N.mod_add by lia. rewrite N.mod_small by exact Hc. reflexivity.
Qed.

Lemma flags_roundtrip p others : decode_flags (encode_flags p others) = p.
Proof.
  destruct p as [[] [] [] []]; unfold decode_flags, encode_flags; cbn [pf_readable pf_writable pf_construct pf_construct_only];
    rewrite !testbit_low by (vm_compute; reflexivity); reflexivity.
Qed.

Lemma flags_low_bits f : decode_flags f = decode_flags (f mod 16).
Proof.
  unfold decode_flags. change 16 with (2 ^ 4).
  f_equal; symmetry; apply N.mod_pow2_bits_low; lia.
Qed.

(* ---------------------------------------------------------------- nearest known parent *)
Lemma nearest_known_spec k chain n :
  nearest_known k chain = Some n ->
  exists pre g post, chain = pre ++ g :: post /\ kfind k g = Some n /\ Forall (fun x => kfind k x = None) pre.
Proof.
  induction chain as [|g t IH]; [discriminate|]. cbn.
  destruct (kfind k g) as [m|] eqn:E.
  - intros H. inversion H; subst. exists [], g, t. repeat split; [exact E | constructor].
  - intros H. destruct (IH H) as [pre [g' [post [Hc [Hk Hp]]]]].
    exists (g :: pre), g', post. subst. repeat split; [exact Hk | constructor; assumption].
Qed.

Lemma nearest_known_none k chain :
  nearest_known k chain = None <-> Forall (fun x => kfind k x = None) chain.
Proof.
  induction chain as [|g t IH]; cbn; [split; [constructor|reflexivity]|].
  destruct (kfind k g) eqn:E; split.
  - discriminate.
  - intros H. inversion H; subst. congruence.
  - intros H. constructor; [exact E | apply IH; exact H].
  - intros H. inversion H; subst. apply IH. assumption.
Qed.

(* ---------------------------------------------------------------- symbol prefix *)
Lemma endswith_app suf p : endswith suf (p ++ suf) = true.
Proof. unfold endswith. rewrite rev_app_distr. apply startswith_app. Qed.

Lemma firstn_app_exact {A} (p q : list A) : firstn (List.length (p ++ q) - List.length q) (p ++ q) = p.
Proof.
  rewrite app_length. replace (List.length p + List.length q - List.length q)%nat with (List.length p) by lia.
  rewrite firstn_app, PeanoNat.Nat.sub_diag, firstn_all. cbn. apply app_nil_r.
Qed.

Lemma strip_suffix_app suf p : strip_suffix suf (p ++ suf) = Some p.
Proof. unfold strip_suffix. rewrite endswith_app, firstn_app_exact. reflexivity. Qed.

Lemma skipn_app_exact {A} (p q : list A) : skipn (List.length p) (p ++ q) = q.
Proof. rewrite skipn_app, PeanoNat.Nat.sub_diag, skipn_all. reflexivity. Qed.

Lemma symbol_prefix_get_type ns p : symbol_prefix ns (ns ++ p ++ s "_get_type") = Some p.
Proof.
  unfold symbol_prefix. rewrite startswith_app, skipn_app_exact, strip_suffix_app. reflexivity.
Qed.

Lemma get_gtype_not_get_type p : endswith (s "_get_type") (p ++ s "_get_gtype") = false.
Proof. unfold endswith. rewrite rev_app_distr. reflexivity. Qed.

Lemma symbol_prefix_get_gtype ns p : symbol_prefix ns (ns ++ p ++ s "_get_gtype") = Some p.
Proof.
  unfold symbol_prefix. rewrite startswith_app, skipn_app_exact.
  unfold strip_suffix at 1. rewrite get_gtype_not_get_type. apply strip_suffix_app.
Qed.

(* ---------------------------------------------------------------- signal parameter names *)
Lemma signal_param_names_spec n :
  List.length (signal_param_names n) = n
  /\ (forall i, (i < n)%nat -> nth_error (signal_param_names n) i = Some (signal_param_name i))
  /\ signal_param_name 0 = s "object"
  /\ (forall j, signal_param_name (S j) = 112 :: dec (N.of_nat j)).
Proof.
  unfold signal_param_names. split; [rewrite map_length, seq_length; reflexivity|].
  split; [|split; [reflexivity | intros; reflexivity]].
  intros i Hi. rewrite nth_error_map. rewrite (nth_error_nth' _ 0%nat) by (rewrite seq_length; exact Hi).
  rewrite seq_nth by exact Hi. reflexivity.
Qed.

(* ---------------------------------------------------------------- type structures *)
Lemma type_struct_named recs is_class l t :
  type_struct recs is_class l = Some t ->
  existsb (fun r => str_eqb (wr_name r) t) recs = true
  /\ (if is_class then t = l ++ s "Class" else t = l ++ s "Iface" \/ t = l ++ s "Interface").
Proof.
  unfold type_struct. destruct is_class.
  - destruct (existsb _ recs) eqn:E; [|discriminate]. intros H. inversion H; subst. split; [exact E | reflexivity].
  - destruct (existsb (fun r => str_eqb (wr_name r) (l ++ s "Iface")) recs) eqn:E1.
    + intros H. inversion H; subst. split; [exact E1 | left; reflexivity].
    + destruct (existsb (fun r => str_eqb (wr_name r) (l ++ s "Interface")) recs) eqn:E2; [|discriminate].
      intros H. inversion H; subst. split; [exact E2 | right; reflexivity].
Qed.

Definition owns (recs : list wrecord) (d : dtype) (t : str) : bool :=
  match d with
  | DClass g _ _ _ _ _ _ _ => match type_struct recs true (local_of g) with Some x => str_eqb x t | None => false end
  | DInterface g _ _ _ _ => match type_struct recs false (local_of g) with Some x => str_eqb x t | None => false end
  | DBoxed _ _ => false
  end.

(* both directions of the link: a class/interface names its type structure, and that structure
   names a class/interface whose type structure it is *)
Lemma type_struct_back_link ns recs dump d r :
  In d dump -> owns recs d (wr_name r) = true ->
  exists d', In d' dump /\ owns recs d' (wr_name r) = true
             /\ or_struct_for (merge_record ns recs dump r) = Some (local_of (dname d')).
Proof.
  intros Hd Ho. unfold merge_record. cbn [or_struct_for].
  match goal with |- context [find ?f dump] => destruct (find f dump) as [d'|] eqn:F end.
  - apply find_some in F. destruct F as [Hin Hf]. exists d'. split; [exact Hin|]. split; [|reflexivity].
    destruct d'; exact Hf.
  - exfalso. eapply find_none in F; [|exact Hd]. destruct d; cbn in Ho, F; congruence.
Qed.

Lemma no_owner_no_link ns recs dump r :
  (forall d, In d dump -> owns recs d (wr_name r) = false) -> or_struct_for (merge_record ns recs dump r) = None.
Proof.
  intros H. unfold merge_record. cbn [or_struct_for].
  match goal with |- context [find ?f dump] => destruct (find f dump) as [d'|] eqn:F end; [|reflexivity].
  apply find_some in F. destruct F as [Hin Hf]. specialize (H d' Hin). destruct d'; cbn in H, Hf; congruence.
Qed.

(* ---------------------------------------------------------------- virtual methods *)
Lemma vfuncs_spec recs sn gi f r :
  find (fun r => str_eqb (wr_name r) sn) recs = Some r ->
  (In f (vfuncs recs (Some sn) gi) <-> exists first, In (f, Some first) (wr_cbs r) /\ str_eqb first gi = true).
Proof.
  intros Hr. unfold vfuncs. rewrite Hr. rewrite in_map_iff. split.
  - intros [[f' fp] [Hf Hin]]. cbn in Hf. subst f'. apply filter_In in Hin. destruct Hin as [Hin Hc]. cbn in Hc.
    destruct fp as [first|]; [|discriminate]. exists first. split; assumption.
  - intros [first [Hin Hc]]. exists (f, Some first). split; [reflexivity|]. apply filter_In. split; [exact Hin|exact Hc].
Qed.

(* ---------------------------------------------------------------- functions *)
Definition is_get_type (dump : list dtype) (f : str) : bool :=
  existsb (fun d => match d with DClass _ gt _ _ _ _ _ _ | DInterface _ gt _ _ _ | DBoxed _ gt => str_eqb gt f end) dump.

Lemma remaining_functions_spec funcs dump f :
  In f (remaining_functions funcs dump) <-> In f funcs /\ is_get_type dump f = false.
Proof.
  unfold remaining_functions, is_get_type. rewrite filter_In. split; intros [H1 H2]; split; try exact H1.
  - apply negb_true_iff in H2. exact H2.
  - rewrite H2. reflexivity.
Qed.

(* ---------------------------------------------------------------- classes *)
Lemma merge_class_facts ns k recs g gt parents ab fi ifaces props sigs c :
  merge_one ns k recs (DClass g gt parents ab fi ifaces props sigs) = Some c ->
  oc_parent c = nearest_known k parents /\ oc_gtype c = g /\ oc_get_type c = gt /\ oc_abstract c = ab /\ oc_final c = fi
  /\ oc_symbol_prefix c = symbol_prefix ns gt
  /\ List.length (oc_props c) = List.length props /\ List.length (oc_sigs c) = List.length sigs
  /\ List.length (oc_ifaces c) = List.length ifaces.
Proof.
  cbn. intros H. inversion H; subst; cbn. repeat split; try reflexivity.
  - unfold mk_props. rewrite (Permutation.Permutation_length (GIV.Proofs.C16.isort_perm _ _)), map_length. reflexivity.
  - unfold mk_sigs. rewrite (Permutation.Permutation_length (GIV.Proofs.C16.isort_perm _ _)), map_length. reflexivity.
  - rewrite map_length, (Permutation.Permutation_length (GIV.Proofs.C16.isort_perm _ _)). reflexivity.
Qed.

(* every reported property keeps its flag bits, type and default *)
Lemma mk_props_complete k ps p :
  In p ps ->
  In {| op_name := dp_name p; op_flags := decode_flags (dp_flags p); op_type := resolve_gtype k (dp_type p);
        op_default := match dp_default p with Some [] => None | x => x end |} (mk_props k ps).
Proof.
  intros H. unfold mk_props.
  eapply Permutation.Permutation_in; [apply Permutation.Permutation_sym, GIV.Proofs.C16.isort_perm|].
  apply (in_map (fun p => {| op_name := dp_name p; op_flags := decode_flags (dp_flags p); op_type := resolve_gtype k (dp_type p);
                             op_default := match dp_default p with Some [] => None | x => x end |})). exact H.
Qed.

Lemma mk_sigs_complete k ss x :
  In x ss ->
  exists o, In o (mk_sigs k ss) /\ os_name o = ds_name x
            /\ os_flags o = (ds_no_recurse x, ds_detailed x, ds_action x, ds_no_hooks x)
            /\ os_return o = resolve_gtype k (ds_return x)
            /\ map snd (os_params o) = map (resolve_gtype k) (ds_params x)
            /\ map fst (os_params o) = signal_param_names (List.length (ds_params x)).
Proof.
  intros H. eexists. split.
  - unfold mk_sigs. eapply Permutation.Permutation_in; [apply Permutation.Permutation_sym, GIV.Proofs.C16.isort_perm|].
    apply (in_map (fun x => {| os_name := ds_name x; os_when := match ds_when x with Some [] => None | w => w end;
                               os_flags := (ds_no_recurse x, ds_detailed x, ds_action x, ds_no_hooks x);
                               os_return := resolve_gtype k (ds_return x);
                               os_params := combine (signal_param_names (List.length (ds_params x))) (map (resolve_gtype k) (ds_params x)) |})).
    exact H.
  - cbn. repeat split; try reflexivity.
    + rewrite map_snd_combine_eq; [reflexivity|].
      rewrite map_length. apply (proj1 (signal_param_names_spec _)).
    + rewrite map_fst_combine_eq; [reflexivity|].
      rewrite map_length. apply (proj1 (signal_param_names_spec _)).
Qed.
