From Coq Require Import List NArith Bool Lia.
From GIV.Lib Require Import Regex Str.
From GIV.Model Require Import C07T C15T.
From GIV.Proofs Require Import C07T.
Import ListNotations.
Local Open Scope N_scope.

Lemma catoi_digits s : forall acc, forallb is_digit s = true -> catoi_from acc s = fold_left dstep s acc.
Proof.
  induction s as [|c r IH]; intros acc H; [reflexivity|].
  simpl in H. apply andb_true_iff in H as [Hc Hr]. cbn [catoi_from fold_left]. rewrite Hc. apply IH. exact Hr.
Qed.

Lemma catoi_dec n : catoi (dec n) = n.
Proof.
  destruct (dec_spec n) as (_ & Hd & Hv). unfold catoi. rewrite catoi_digits by exact Hd. exact Hv.
Qed.

Lemma catoi_opt (o : option N) : option_map catoi (option_map dec o) = o.
Proof. destruct o; [simpl; rewrite catoi_dec|]; reflexivity. Qed.

(* what the scanner's writer says about an array is what the compiler's reader takes: the kind; for C arrays the
   zero-termination, the length index and the fixed size, whatever they are; nothing of the three for GLib arrays *)
Theorem array_attributes_roundtrip ns k c z s l e : array_kind_ok k = true ->
  c_read_array (attrs_of (write_ty ns (AArray k c z s l e))) =
  match k with
  | None => {| ca_kind := 0; ca_zero := z; ca_len := l; ca_size := s |}
  | Some n => {| ca_kind := if str_eqb n s_garray then 1 else if str_eqb n s_gbytearray then 3 else 2;
                 ca_zero := false; ca_len := None; ca_size := None |}
  end.
Proof.
  intro Hk. cbn [write_ty attrs_of].
  destruct (attrs_array k c z s l) as (En & _ & Ef & El & _).
  assert (Ez : attr s_zero (opt_attr s_length (option_map dec l)
                 ++ (if negb z then [(s_zero, [48])] else match s, l with None, None => [] | _, _ => [(s_zero, [49])] end)
                 ++ opt_attr s_name k ++ opt_attr s_ctype c ++ opt_attr s_fixed (option_map dec s))
               = if negb z then Some [48] else match s, l with None, None => None | _, _ => Some [49] end)
    by (destruct k, c, z, s, l; reflexivity).
  unfold c_read_array. rewrite En, Ef, El, Ez, !catoi_opt.
  destruct k as [n|].
  - cbn [array_kind_ok] in Hk.
    destruct (str_eqb n s_garray) eqn:E1; [reflexivity|].
    destruct (str_eqb n s_gbytearray) eqn:E2; [reflexivity|].
    destruct (str_eqb n s_gptrarray) eqn:E3; [reflexivity|discriminate].
  - destruct z, s, l; reflexivity.
Qed.
