From Coq Require Import List NArith ZArith Bool Lia.
From GIV.Lib Require Import Regex Str.
From GIV.Model Require Import C20 C20Spec.
Import ListNotations.
Local Open Scope N_scope.

(* ------------------------------------------------------------ character-level view *)
Lemma replace_flat c r (f : N -> str) s :
  replace_char c r (flat_map f s) = flat_map (fun x => replace_char c r (f x)) s.
Proof.
  unfold replace_char. induction s as [|x t IH]; simpl; [reflexivity|].
  rewrite flat_map_app, IH. reflexivity.
Qed.
Lemma replace_as_flat c r s : replace_char c r s = flat_map (fun x => if N.eqb x c then r else [x]) s.
Proof. reflexivity. Qed.

Definition esc_char (c : N) : str :=
  if N.eqb c 38 then s_amp else if N.eqb c 62 then s_gt else if N.eqb c 60 then s_lt else [c].

Lemma escape_flat s : escape s = flat_map esc_char s.
Proof.
  unfold escape. rewrite (replace_as_flat 38). rewrite !replace_flat.
  apply flat_map_ext. intro c. unfold esc_char.
  destruct (N.eqb_spec c 38) as [->|H38]; [reflexivity|].
  destruct (N.eqb_spec c 62) as [->|H62]; [reflexivity|].
  destruct (N.eqb_spec c 60) as [->|H60]; [reflexivity|].
  unfold replace_char. simpl.
  destruct (N.eqb_spec c 62); [contradiction|]. simpl.
  destruct (N.eqb_spec c 60); [contradiction|]. simpl. reflexivity.
Qed.

Definition qa_char (c : N) : str :=
  if N.eqb c 38 then s_amp else if N.eqb c 62 then s_gt else if N.eqb c 60 then s_lt
  else if N.eqb c 10 then s_nl else if N.eqb c 13 then s_cr else if N.eqb c 9 then s_tab else [c].

Lemma qa_flat s :
  replace_char 9 s_tab (replace_char 13 s_cr (replace_char 10 s_nl (escape s))) = flat_map qa_char s.
Proof.
  rewrite escape_flat, !replace_flat. apply flat_map_ext. intro c. unfold esc_char, qa_char.
  destruct (N.eqb_spec c 38) as [->|H38]; [reflexivity|].
  destruct (N.eqb_spec c 62) as [->|H62]; [reflexivity|].
  destruct (N.eqb_spec c 60) as [->|H60]; [reflexivity|].
  unfold replace_char. simpl.
  destruct (N.eqb_spec c 10) as [->|H10]; [reflexivity|]. simpl.
  destruct (N.eqb_spec c 13) as [->|H13]; [reflexivity|]. simpl.
  destruct (N.eqb_spec c 9) as [->|H9]; [reflexivity|]. reflexivity.
Qed.

Definition qq_char (c : N) : str := if N.eqb c 34 then s_quot else qa_char c.
Lemma qq_flat s : replace_char 34 s_quot (flat_map qa_char s) = flat_map qq_char s.
Proof.
  rewrite replace_flat. apply flat_map_ext. intro c. unfold qq_char, qa_char.
  destruct (N.eqb_spec c 34) as [->|H34]; [reflexivity|].
  destruct (N.eqb_spec c 38) as [->|H38]; [reflexivity|].
  destruct (N.eqb_spec c 62) as [->|H62]; [reflexivity|].
  destruct (N.eqb_spec c 60) as [->|H60]; [reflexivity|].
  destruct (N.eqb_spec c 10) as [->|H10]; [reflexivity|].
  destruct (N.eqb_spec c 13) as [->|H13]; [reflexivity|].
  destruct (N.eqb_spec c 9) as [->|H9]; [reflexivity|].
  unfold replace_char. simpl. destruct (N.eqb_spec c 34); [contradiction|]. reflexivity.
Qed.

(* ------------------------------------------------------------ decoding *)
Lemma unesc_ref body : forall buf r, ~ In 59 body ->
  unesc (body ++ 59 :: r) (Some buf) =
  match decode_entity (rev buf ++ body) with
  | Some ch => match unesc r None with Some x => Some (ch :: x) | None => None end
  | None => None
  end.
Proof.
  induction body as [|c t IH]; intros buf r Hn; simpl.
  - rewrite app_nil_r. reflexivity.
  - destruct (N.eqb_spec c 59) as [->|Hc]; [exfalso; apply Hn; left; reflexivity|].
    rewrite IH by (intro H; apply Hn; right; exact H). simpl. rewrite <- app_assoc. reflexivity.
Qed.

(* an encoder is decodable when each character is either itself (and not '&') or a known reference *)
Definition decodable (enc : N -> str) : Prop :=
  forall c, (enc c = [c] /\ c <> 38) \/
            (exists body, enc c = 38 :: body ++ [59] /\ ~ In 59 body /\ decode_entity body = Some c).

Lemma unesc_enc enc : decodable enc -> forall s r,
  unesc (flat_map enc s ++ r) None =
  match unesc r None with Some x => Some (s ++ x) | None => None end.
Proof.
  intros Hd. induction s as [|c t IH]; intro r; simpl.
  - destruct (unesc r None); reflexivity.
  - rewrite <- app_assoc. destruct (Hd c) as [(He & Hc)|(body & He & Hb & Hdec)]; rewrite He.
    + simpl. destruct (N.eqb_spec c 38); [contradiction|]. rewrite IH.
      destruct (unesc r None); reflexivity.
    + simpl. rewrite <- app_assoc. simpl. rewrite unesc_ref by exact Hb. simpl. rewrite Hdec, IH.
      destruct (unesc r None); reflexivity.
Qed.

Ltac dec_case c n body :=
  destruct (N.eqb_spec c n) as [->|?];
  [right; exists body; split; [reflexivity|split; [simpl; intuition discriminate|reflexivity]]|].

Lemma esc_decodable : decodable esc_char.
Proof.
  intro c. unfold esc_char.
  dec_case c 38 [97;109;112]. dec_case c 62 [103;116]. dec_case c 60 [108;116].
  left. split; [reflexivity|assumption].
Qed.
Lemma qa_decodable : decodable qa_char.
Proof.
  intro c. unfold qa_char.
  dec_case c 38 [97;109;112]. dec_case c 62 [103;116]. dec_case c 60 [108;116].
  dec_case c 10 [35;49;48]. dec_case c 13 [35;49;51]. dec_case c 9 [35;57].
  left. split; [reflexivity|assumption].
Qed.
Lemma qq_decodable : decodable qq_char.
Proof.
  intro c. unfold qq_char. dec_case c 34 [113;117;111;116].
  destruct (qa_decodable c) as [H|H]; [left|right]; exact H.
Qed.

Theorem unescape_escape s : unescape (escape s) = Some s.
Proof.
  unfold unescape. rewrite escape_flat. rewrite <- (app_nil_r (flat_map esc_char s)).
  rewrite (unesc_enc _ esc_decodable). simpl. rewrite app_nil_r. reflexivity.
Qed.

Lemma flat_notin (enc : N -> str) x s : (forall c, ~ In x (enc c)) -> ~ In x (flat_map enc s).
Proof. intros H Hin. apply in_flat_map in Hin as (c & _ & Hc). exact (H c Hc). Qed.

Theorem escape_no_markup s : ~ In 60 (escape s) /\ ~ In 62 (escape s).
Proof.
  rewrite escape_flat. split; apply flat_notin; intro c; unfold esc_char;
    destruct (N.eqb_spec c 38); try (simpl; intuition discriminate);
    destruct (N.eqb_spec c 62); try (simpl; intuition discriminate);
    destruct (N.eqb_spec c 60); try (simpl; intuition discriminate);
    simpl; intros [H|[]]; congruence.
Qed.

(* ------------------------------------------------------------ quoteattr *)
Lemma mem_In c s : mem c s = true <-> In c s.
Proof.
  unfold mem. rewrite existsb_exists. split.
  - intros (x & Hx & He). apply N.eqb_eq in He. subst. exact Hx.
  - intro H. exists c. split; [exact H|apply N.eqb_refl].
Qed.
Lemma mem_false c s : mem c s = false -> ~ In c s.
Proof. intros H Hin. apply mem_In in Hin. congruence. Qed.

(* quoteattr v = q :: body ++ [q] with q a quote that does not occur in body, no '<' and no
   literal newline/tab/CR in body, and body decodes to v *)
Theorem quoteattr_shape v : exists q body,
  quoteattr v = q :: body ++ [q] /\ (q = 34 \/ q = 39) /\ ~ In q body /\ ~ In 60 body /\
  ~ In 10 body /\ ~ In 13 body /\ ~ In 9 body /\ unescape body = Some v.
Proof.
  unfold quoteattr. rewrite qa_flat.
  assert (Hdec : forall enc, decodable enc -> unescape (flat_map enc v) = Some v).
  { intros enc He. unfold unescape. rewrite <- (app_nil_r (flat_map enc v)).
    rewrite (unesc_enc _ He). simpl. rewrite app_nil_r. reflexivity. }
  assert (Hqa : forall x, In x [60;10;13;9] -> ~ In x (flat_map qa_char v)).
  { intros x Hx. apply flat_notin. intro c. unfold qa_char.
    repeat match goal with |- context [N.eqb c ?n] => destruct (N.eqb_spec c n) end;
      simpl in *; intuition (subst; try discriminate; try congruence). }
  assert (Hqq : forall x, In x [34;60;10;13;9] -> ~ In x (flat_map qq_char v)).
  { intros x Hx. apply flat_notin. intro c. unfold qq_char, qa_char.
    repeat match goal with |- context [N.eqb c ?n] => destruct (N.eqb_spec c n) end;
      simpl in *; intuition (subst; try discriminate; try congruence). }
  destruct (mem 34 (flat_map qa_char v)) eqn:E34.
  - destruct (mem 39 (flat_map qa_char v)) eqn:E39.
    + rewrite qq_flat. exists 34, (flat_map qq_char v). split; [reflexivity|].
      split; [left; reflexivity|].
      repeat split; try (apply Hqq; simpl; tauto). apply Hdec, qq_decodable.
    + exists 39, (flat_map qa_char v). split; [reflexivity|]. split; [right; reflexivity|].
      split; [apply mem_false; exact E39|].
      repeat split; try (apply Hqa; simpl; tauto). apply Hdec, qa_decodable.
  - exists 34, (flat_map qa_char v). split; [reflexivity|]. split; [left; reflexivity|].
    split; [apply mem_false; exact E34|].
    repeat split; try (apply Hqa; simpl; tauto). apply Hdec, qa_decodable.
Qed.

(* ------------------------------------------------------------ attribute lists *)
Lemma name_char_facts c : name_char c = true ->
  xml_ws c = false /\ N.eqb c 61 = false.
Proof.
  unfold name_char. intro H. apply negb_true_iff in H.
  do 6 (apply orb_false_iff in H as [H ?]). split; assumption.
Qed.

Lemma pa_ws ws : forall r acc, forallb xml_ws ws = true -> pa (ws ++ r) PWs acc = pa r PWs acc.
Proof.
  induction ws as [|c t IH]; intros r acc H; simpl; [reflexivity|].
  simpl in H. apply andb_true_iff in H as [Hc Ht]. rewrite Hc. apply IH. exact Ht.
Qed.

Lemma pa_name_tail t : forall buf r acc, forallb name_char t = true ->
  pa (t ++ 61 :: r) (PName buf) acc = pa r (PEq (rev buf ++ t)) acc.
Proof.
  induction t as [|c t IH]; intros buf r acc H; simpl.
  - rewrite app_nil_r. reflexivity.
  - simpl in H. apply andb_true_iff in H as [Hc Ht].
    destruct (name_char_facts c Hc) as [_ H61]. rewrite H61, Hc.
    rewrite IH by exact Ht. simpl. rewrite <- app_assoc. reflexivity.
Qed.

Definition valid_name (n : str) : Prop := n <> [] /\ forallb name_char n = true.

Lemma pa_name n r acc : valid_name n -> pa (n ++ 61 :: r) PWs acc = pa r (PEq n) acc.
Proof.
  intros [Hne Hall]. destruct n as [|c t]; [contradiction|]. simpl in *.
  apply andb_true_iff in Hall as [Hc Ht]. destruct (name_char_facts c Hc) as [Hws _].
  rewrite Hws, Hc. rewrite pa_name_tail by exact Ht. reflexivity.
Qed.

Lemma pa_val body : forall q buf n r acc, ~ In q body -> ~ In 60 body ->
  pa (body ++ q :: r) (PVal q buf n) acc =
  match unescape (rev buf ++ body) with
  | Some v => pa r PAfter ((n, v) :: acc)
  | None => None
  end.
Proof.
  induction body as [|c t IH]; intros q buf n r acc Hq Hlt; simpl.
  - rewrite N.eqb_refl, app_nil_r. reflexivity.
  - destruct (N.eqb_spec c q) as [->|Hc]; [exfalso; apply Hq; left; reflexivity|].
    destruct (N.eqb_spec c 60) as [->|Hc2]; [exfalso; apply Hlt; left; reflexivity|].
    rewrite IH; [|intro H; apply Hq; right; exact H|intro H; apply Hlt; right; exact H]. simpl.
    rewrite <- app_assoc. reflexivity.
Qed.

Lemma pa_quoteattr v n r acc : pa (quoteattr v ++ r) (PEq n) acc = pa r PAfter ((n, v) :: acc).
Proof.
  destruct (quoteattr_shape v) as (q & body & -> & Hq & Hnq & Hlt & _ & _ & _ & Hdec).
  simpl. assert (Hqq : (N.eqb q 34 || N.eqb q 39) = true) by (destruct Hq as [-> | ->]; reflexivity).
  rewrite Hqq. rewrite <- app_assoc. simpl. rewrite pa_val by assumption. simpl. rewrite Hdec. reflexivity.
Qed.

Lemma mul_str_ws ichar z : forallb xml_ws ichar = true -> forallb xml_ws (mul_str ichar z) = true.
Proof.
  intro H. unfold mul_str. induction (Z.to_nat z) as [|k IH]; simpl; [reflexivity|].
  rewrite forallb_app, H, IH. reflexivity.
Qed.

Definition names_ok (attrs : list attr) : Prop := Forall (fun a => valid_name (fst a)) attrs.

Lemma pa_name' n r acc : valid_name n -> pa (n ++ [61] ++ r) PWs acc = pa r (PEq n) acc.
Proof. apply pa_name. Qed.

Lemma pa_lead (il : Z) (ichar : str) (first : bool) rest acc : forallb xml_ws ichar = true ->
  pa ((if negb (Z.eqb il 0) && negb first then [10] ++ mul_str ichar il else []) ++ [32] ++ rest)
     (if first then PWs else PAfter) acc = pa rest PWs acc.
Proof.
  intro Hic. destruct first.
  - rewrite andb_false_r. reflexivity.
  - rewrite andb_true_r. destruct (negb (Z.eqb il 0)).
    + simpl. rewrite pa_ws by (apply mul_str_ws; exact Hic). reflexivity.
    + reflexivity.
Qed.

Lemma collect_loop_parse (il : Z) (ichar : str) : forallb xml_ws ichar = true ->
  forall attrs (first : bool) st acc, names_ok attrs -> st = (if first then PWs else PAfter) ->
  pa (collect_loop attrs il ichar first) st acc = Some (rev acc ++ present attrs).
Proof.
  intros Hic. induction attrs as [|[n [v|]] t IH]; intros first st acc Hn Hst.
  - simpl. rewrite app_nil_r. subst st. destruct first; reflexivity.
  - inversion Hn as [|? ? Hn1 Hnt]; subst. simpl in Hn1.
    cbn [collect_loop present flat_map snd fst].
    rewrite pa_lead by exact Hic. rewrite pa_name' by exact Hn1. rewrite pa_quoteattr.
    rewrite (IH false PAfter) by (try exact Hnt; reflexivity). simpl. rewrite <- app_assoc. reflexivity.
  - inversion Hn; subst. cbn [collect_loop present flat_map snd fst]. simpl app. apply IH; [assumption|reflexivity].
Qed.

(* Whatever the tag name, the indentation and the wrap decision, the attribute text parses
   back to exactly the attributes that have a value, with their exact values. *)
Theorem parse_collect tag attrs si ichar indent :
  names_ok attrs -> forallb xml_ws ichar = true ->
  parse_attrs (collect_attributes tag attrs si ichar indent) = Some (present attrs).
Proof.
  intros Hn Hic. unfold parse_attrs, collect_attributes. destruct attrs as [|a t]; [reflexivity|].
  rewrite (collect_loop_parse _ _ Hic _ true PWs []) by (try exact Hn; reflexivity). reflexivity.
Qed.

(* ------------------------------------------------------------ programs: output = rendering of a balanced event list *)
Section StmtInd.
  Variable P : stmt -> Prop.
  Variable Hleaf : forall t a d, P (SLeaf t a d).
  Variable Hcomment : forall x, P (SComment x).
  Variable Hctx : forall t a body, Forall P body -> P (SCtx t a body).
  Variable Hpush : forall t a, P (SPush t a).
  Variable Hpop : P SPop.
  Variable Hraise : P SRaise.
  Fixpoint stmt_ind_nested (p : stmt) : P p :=
    match p with
    | SLeaf t a d => Hleaf t a d
    | SComment x => Hcomment x
    | SCtx t a body =>
        Hctx t a body ((fix go (l : list stmt) : Forall P l :=
                         match l with
                         | [] => Forall_nil P
                         | x :: r => Forall_cons x (stmt_ind_nested x) (go r)
                         end) body)
    | SPush t a => Hpush t a
    | SPop => Hpop
    | SRaise => Hraise
    end.
End StmtInd.

Lemma exec_ctx_unfold t a body st :
  exec (SCtx t a body) st =
  let '(st2, r) := exec_list body (push_tag st t a) in
  let '(st3, r3) := pop_tag st2 in (st3, r || r3).
Proof.
  simpl.
  assert (H : forall l s, (fix run (l : list stmt) (s : wstate) : wstate * bool :=
                 match l with
                 | [] => (s, false)
                 | x :: rest => let '(s', r) := exec x s in if r then (s', true) else run rest s'
                 end) l s = exec_list l s).
  { induction l as [|x r IH]; intro s; simpl; [reflexivity|].
    destruct (exec x s) as [s' rr]. destruct rr; [reflexivity|apply IH]. }
  rewrite H. reflexivity.
Qed.

Lemma events_ctx_unfold t a body :
  events (SCtx t a body) = let '(evs, r) := events_list body in (EOpen t a :: evs ++ [EClose t], r).
Proof.
  simpl.
  assert (H : forall l, (fix run (l : list stmt) : list event * bool :=
                 match l with
                 | [] => ([], false)
                 | x :: rest => let '(e1, r1) := events x in
                                if r1 then (e1, true)
                                else let '(e2, r2) := run rest in (e1 ++ e2, r2)
                 end) l = events_list l).
  { induction l as [|x r IH]; simpl; [reflexivity|].
    destruct (events x) as [e1 r1]. destruct r1; [reflexivity|]. rewrite IH. reflexivity. }
  rewrite H. reflexivity.
Qed.

Lemma render_app ind e1 e2 :
  render ind (e1 ++ e2) =
  let '(s1, i1) := render ind e1 in let '(s2, i2) := render i1 e2 in (s1 ++ s2, i2).
Proof.
  revert ind. induction e1 as [|e t IH]; intro ind; simpl.
  - destruct (render ind e2). reflexivity.
  - destruct (render_event ind e) as [s0 i0]. rewrite IH.
    destruct (render i0 t) as [s1 i1]. destruct (render i1 e2) as [s2 i2].
    rewrite app_assoc. reflexivity.
Qed.

(* what one statement does to the writer, in terms of its events *)
Definition refines (p : stmt) : Prop :=
  forall st, let '(st', r) := exec p st in let '(evs, r') := events p in
    r = r' /\ w_stack st' = w_stack st /\ w_indent st' = w_indent st /\
    render (w_indent st) evs = (skipn (length (w_out st)) (w_out st'), w_indent st) /\
    firstn (length (w_out st)) (w_out st') = w_out st.

Definition refines_list (l : list stmt) : Prop :=
  forall st, let '(st', r) := exec_list l st in let '(evs, r') := events_list l in
    r = r' /\ w_stack st' = w_stack st /\ w_indent st' = w_indent st /\
    render (w_indent st) evs = (skipn (length (w_out st)) (w_out st'), w_indent st) /\
    firstn (length (w_out st)) (w_out st') = w_out st.

Lemma skipn_app_exact {A} (a b : list A) : skipn (length a) (a ++ b) = b.
Proof. induction a; simpl; auto. Qed.
Lemma firstn_app_exact {A} (a b : list A) : firstn (length a) (a ++ b) = a.
Proof. induction a; simpl; [reflexivity|]. f_equal. assumption. Qed.

(* an output that extends [o] : recover the extension *)
Lemma ext_eq (o o' : str) : firstn (length o) o' = o -> o' = o ++ skipn (length o) o'.
Proof. intro H. rewrite <- (firstn_skipn (length o) o') at 1. rewrite H. reflexivity. Qed.

Lemma refines_list_of l : Forall (fun p => ctx_only p = true -> refines p) l ->
  forallb ctx_only l = true -> refines_list l.
Proof.
  induction l as [|x r IH]; intros Hf Hc st; simpl.
  - repeat split; try reflexivity.
    + rewrite skipn_all. reflexivity.
    + apply firstn_all.
  - inversion Hf as [|? ? Hx Hr]; subst. simpl in Hc. apply andb_true_iff in Hc as [Hcx Hcr].
    specialize (Hx Hcx st). specialize (IH Hr Hcr).
    destruct (exec x st) as [s1 r1]. destruct (events x) as [e1 r1'].
    destruct Hx as (-> & Hs & Hi & Hrn & Hfn).
    destruct r1'.
    + repeat split; assumption.
    + specialize (IH s1). destruct (exec_list r s1) as [s2 r2]. destruct (events_list r) as [e2 r2'].
      destruct IH as (-> & Hs2 & Hi2 & Hrn2 & Hfn2).
      pose proof (ext_eq _ _ Hfn) as E1. pose proof (ext_eq _ _ Hfn2) as E2.
      split; [reflexivity|]. split; [congruence|]. split; [congruence|].
      rewrite render_app, Hrn. rewrite <- Hi, Hrn2.
      set (d1 := skipn (length (w_out st)) (w_out s1)) in *.
      set (d2 := skipn (length (w_out s1)) (w_out s2)) in *.
      rewrite E2, E1. rewrite <- app_assoc.
      rewrite skipn_app_exact, firstn_app_exact. split; reflexivity.
Qed.

Lemma zsub2 (z : Z) : (z + 2 - 2 = z)%Z. Proof. lia. Qed.

Theorem exec_refines : forall p, ctx_only p = true -> refines p.
Proof.
  apply (stmt_ind_nested (fun p => ctx_only p = true -> refines p)).
  - intros t a d _ st. simpl. repeat split.
    + rewrite skipn_app_exact, app_nil_r, <- !app_assoc. reflexivity.
    + apply firstn_app_exact.
  - intros x _ st. simpl. repeat split.
    + rewrite skipn_app_exact, app_nil_r, <- !app_assoc. reflexivity.
    + apply firstn_app_exact.
  - intros t a body Hbody Hc st. simpl in Hc.
    pose proof (refines_list_of body Hbody Hc (push_tag st t a)) as Hl.
    rewrite exec_ctx_unfold, events_ctx_unfold.
    destruct (exec_list body (push_tag st t a)) as [s2 r2]. destruct (events_list body) as [e2 r2'].
    destruct Hl as (-> & Hs & Hi & Hrn & Hfn).
    set (ol := fst (render_event (w_indent st) (EOpen t a))) in *.
    assert (Hpo : w_out (push_tag st t a) = w_out st ++ ol).
    { unfold ol, push_tag, write_line. simpl. rewrite <- !app_assoc. reflexivity. }
    assert (Hps : w_stack (push_tag st t a) = t :: w_stack st) by reflexivity.
    assert (Hpi : w_indent (push_tag st t a) = (w_indent st + 2)%Z) by reflexivity.
    rewrite Hpo in Hrn, Hfn. rewrite Hps in Hs. rewrite Hpi in Hi, Hrn.
    pose proof (ext_eq _ _ Hfn) as E2.
    set (d2 := skipn (length (w_out st ++ ol)) (w_out s2)) in *.
    unfold pop_tag. rewrite Hs. cbn [write_line w_out w_stack w_indent]. rewrite Hi, zsub2, orb_false_r.
    split; [reflexivity|]. split; [reflexivity|]. split; [reflexivity|].
    rewrite E2.
    assert (Hro : render (w_indent st) (EOpen t a :: e2 ++ [EClose t]) =
                  (ol ++ d2 ++ fst (render_event (w_indent st + 2) (EClose t)), w_indent st)).
    { cbn [render]. change (render_event (w_indent st) (EOpen t a)) with (ol, (w_indent st + 2)%Z).
      cbv iota beta. rewrite render_app, Hrn. cbn [render].
      change (render_event (w_indent st + 2) (EClose t))
        with (fst (render_event (w_indent st + 2) (EClose t)), (w_indent st + 2 - 2)%Z).
      cbv iota beta. rewrite zsub2, app_nil_r. reflexivity. }
    rewrite Hro. split.
    + f_equal. rewrite <- !app_assoc. rewrite skipn_app_exact. f_equal. f_equal.
      cbn [render_event fst]. rewrite zsub2. reflexivity.
    + rewrite <- !app_assoc. apply firstn_app_exact.
  - intros t a H. discriminate.
  - intro H. discriminate.
  - intros _ st. simpl. repeat split.
    + rewrite skipn_all. reflexivity.
    + apply firstn_all.
Qed.

(* the events of such a program are well bracketed, whether or not it aborts *)
Lemma check_app e1 : forall e2 s,
  check (e1 ++ e2) s = match check e1 s with Some s' => check e2 s' | None => None end.
Proof.
  induction e1 as [|e t IH]; intros e2 s; simpl; [reflexivity|].
  destruct e; try apply IH.
  destruct s as [|t' s']; [reflexivity|]. destruct (str_eqb tag t'); [apply IH|reflexivity].
Qed.

Lemma events_list_balanced l :
  Forall (fun p => ctx_only p = true -> forall stk, check (fst (events p)) stk = Some stk) l ->
  forallb ctx_only l = true -> forall stk, check (fst (events_list l)) stk = Some stk.
Proof.
  induction l as [|x r IH]; intros Hf Hc stk; simpl; [reflexivity|].
  inversion Hf as [|? ? Hx Hr]; subst. simpl in Hc. apply andb_true_iff in Hc as [Hcx Hcr].
  specialize (Hx Hcx stk). specialize (IH Hr Hcr stk).
  destruct (events x) as [e1 r1]. simpl in Hx. destruct r1; [exact Hx|].
  destruct (events_list r) as [e2 r2]. simpl in *. rewrite check_app, Hx. exact IH.
Qed.

Theorem events_balanced : forall p, ctx_only p = true ->
  forall stk, check (fst (events p)) stk = Some stk.
Proof.
  apply (stmt_ind_nested (fun p => ctx_only p = true -> forall stk, check (fst (events p)) stk = Some stk)).
  - intros; reflexivity.
  - intros; reflexivity.
  - intros t a body Hbody Hc stk. simpl in Hc. rewrite events_ctx_unfold.
    pose proof (events_list_balanced body Hbody Hc (t :: stk)) as Hl.
    destruct (events_list body) as [e2 r2]. simpl in *. rewrite check_app, Hl. simpl.
    rewrite str_eqb_refl. reflexivity.
  - discriminate.
  - discriminate.
  - intros; reflexivity.
Qed.

(* whole programs from a fresh writer *)
Theorem run_program_spec l : forallb ctx_only l = true ->
  let '(out, r) := run_program l in let '(evs, r') := events_list l in
  r = r' /\ out = xml_decl ++ fst (render 0 evs) /\ check evs [] = Some [].
Proof.
  intro Hc. unfold run_program.
  assert (Hf : Forall (fun p => ctx_only p = true -> refines p) l)
    by (apply Forall_forall; intros p _; apply exec_refines).
  pose proof (refines_list_of l Hf Hc w_init) as H.
  assert (Hb : forall stk, check (fst (events_list l)) stk = Some stk).
  { apply events_list_balanced; [|exact Hc]. apply Forall_forall. intros p _. apply events_balanced. }
  destruct (exec_list l w_init) as [s r]. destruct (events_list l) as [evs r'].
  destruct H as (-> & _ & _ & Hrn & Hfn). split; [reflexivity|]. split.
  - pose proof (ext_eq _ _ Hfn) as E. simpl in Hrn, E. rewrite E at 1. rewrite Hrn. reflexivity.
  - apply (Hb []).
Qed.
