From Coq Require Import List NArith Bool String Ascii Lia.
From GIV.Lib Require Import Regex Str.
From GIV.Model Require Import C02 C16 C03.
From GIV.Model Require C01.
From GIV.Proofs Require C16.
Import ListNotations.
Local Open Scope N_scope.

(* ---------------------------------------------------------------- keys *)
Lemma split_at_first (c : N) : forall x x' y y',
  ~ In c x -> ~ In c x' -> x ++ c :: y = x' ++ c :: y' -> x = x' /\ y = y'.
Proof.
  induction x as [|a t IH]; intros x' y y' H1 H2 E.
  - destruct x' as [|b u]; cbn in E.
    + inversion E. split; reflexivity.
    + inversion E; subst. exfalso. apply H2. left. reflexivity.
  - destruct x' as [|b u]; cbn in E.
    + inversion E; subst. exfalso. apply H1. left. reflexivity.
    + inversion E; subst. destruct (IH u y y') as [A B].
      * intros F. apply H1. right. exact F.
      * intros F. apply H2. right. exact F.
      * assumption.
      * subst. split; reflexivity.
Qed.

Definition member_kind (k : ekind) : bool := match k with EProperty | ESignal | EField | EVFunc => true | _ => false end.

(* Class:prop, Class::sig, Struct.field: the parts are recovered from the key when neither the
   owner's C name nor the member name contains the separator character *)
Lemma member_key_injective k owner name owner' name' :
  member_kind k = true ->
  (forall c, In c (sep k) -> ~ In c owner /\ ~ In c owner' /\ ~ In c name /\ ~ In c name') ->
  block_key k owner name = block_key k owner' name' -> owner = owner' /\ name = name'.
Proof.
  intros Hk Hs E. destruct k; try discriminate; cbn in E, Hs.
  - destruct (Hs 58 (or_introl eq_refl)) as [A [B _]]. apply (split_at_first 58); assumption.
  - destruct (Hs 58 (or_introl eq_refl)) as [A [B _]].
    destruct (split_at_first 58 owner owner' (58 :: name) (58 :: name') A B E) as [E1 E2]. split; [exact E1 | congruence].
  - destruct (Hs 46 (or_introl eq_refl)) as [A [B _]]. apply (split_at_first 46); assumption.
  - destruct (Hs 58 (or_introl eq_refl)) as [A [B _]].
    destruct (split_at_first 58 owner owner' (58 :: name) (58 :: name') A B E) as [E1 E2]. split; [exact E1 | congruence].
Qed.

(* a property block never documents a signal (or virtual function) and vice versa *)
Lemma property_signal_keys_differ owner name owner' name' :
  ~ In 58 owner -> ~ In 58 owner' -> ~ In 58 name ->
  block_key EProperty owner name <> block_key ESignal owner' name'.
Proof.
  intros A B C E. cbn in E.
  destruct (split_at_first 58 owner owner' name (58 :: name') A B E) as [_ E2]. apply C. rewrite E2. left. reflexivity.
Qed.

(* ---------------------------------------------------------------- frame *)
Lemma blocks_lookup_app {B} (l1 l2 : list (str * B)) name acc :
  blocks_lookup (l1 ++ l2) name acc = blocks_lookup l2 name (blocks_lookup l1 name acc).
Proof. revert acc. induction l1 as [|[n b] t IH]; intros acc; [reflexivity|]. cbn. apply IH. Qed.

(* a block documents only the element whose key it carries: inserting, removing or changing a
   block with another key anywhere in the list leaves the element's data untouched *)
Lemma other_block_is_inert blocks1 blocks2 key0 b0 k sk owner name :
  str_eqb key0 (block_key k owner name) = false ->
  element_meta (blocks1 ++ (key0, b0) :: blocks2) k sk owner name = element_meta (blocks1 ++ blocks2) k sk owner name.
Proof.
  intros H. unfold element_meta. rewrite !blocks_lookup_app. cbn. rewrite H. reflexivity.
Qed.

Lemma own_block_is_used blocks key b k sk owner name :
  NoDup (map fst blocks) -> In (key, b) blocks -> key = block_key k owner name ->
  element_meta blocks k sk owner name = meta_of sk (Some b).
Proof.
  intros N Hin ->. unfold element_meta. rewrite (GIV.Proofs.C16.blocks_lookup_unique blocks _ b None N Hin). reflexivity.
Qed.

Lemma no_block_no_data blocks k sk owner name :
  ~ In (block_key k owner name) (map fst blocks) -> element_meta blocks k sk owner name = no_meta.
Proof. intros H. unfold element_meta. rewrite GIV.Proofs.C16.blocks_lookup_absent by exact H. reflexivity. Qed.

(* ---------------------------------------------------------------- tags and annotations *)
Lemma meta_of_tags sk b :
  let m := meta_of sk (Some b) in
  m_version m = tag_value (b_since b) /\ m_version_doc m = tag_desc (b_since b)
  /\ m_deprecated m = tag_value (b_deprecated b) /\ m_deprecated_doc m = tag_desc (b_deprecated b)
  /\ m_stability m = tag_value (b_stability b) /\ m_stability_doc m = tag_desc (b_stability b)
  /\ m_skip m = b_skip b /\ m_doc m = nonempty (b_desc b).
Proof. cbn. repeat split; reflexivity. Qed.

Lemma extra_sound sk b a v :
  In (a, v) (m_extra (meta_of sk (Some b))) ->
  exists ann gir, In (ann, gir) (extra_map sk) /\ a = s gir /\ ann_first (b_anns b) ann = Some v /\ v <> [].
Proof.
  cbn. rewrite in_flat_map. intros [[ann gir] [Hin H]]. cbn in H.
  destruct (ann_first (b_anns b) ann) as [w|] eqn:E; [|destruct H].
  destruct w as [|c w']; [destruct H|]. destruct H as [H|[]]. inversion H; subst.
  exists ann, gir. repeat split; try assumption; discriminate.
Qed.

Lemma extra_complete sk b ann gir c v :
  In (ann, gir) (extra_map sk) -> ann_first (b_anns b) ann = Some (c :: v) ->
  In (s gir, c :: v) (m_extra (meta_of sk (Some b))).
Proof.
  intros Hin H. cbn. rewrite in_flat_map. exists (ann, gir). split; [exact Hin|]. cbn. rewrite H. left. reflexivity.
Qed.

(* ---------------------------------------------------------------- rename-to *)
Definition get (fs : list fn) (a : str) : option fn := find (fun f => str_eqb (f_name f) a) fs.

Lemma get_name fs a f : get fs a = Some f -> f_name f = a.
Proof. intros H. apply find_some in H. apply str_eqb_eq. apply H. Qed.

Lemma get_upd n g fs a :
  (forall f, f_name (g f) = f_name f) ->
  get (upd_fn n g fs) a = option_map (fun f => if str_eqb (f_name f) n then g f else f) (get fs a).
Proof.
  intros Hg. unfold get, upd_fn. induction fs as [|f t IH]; [reflexivity|]. cbn.
  destruct (str_eqb (f_name f) n) eqn:E.
  - rewrite Hg. destruct (str_eqb (f_name f) a); [cbn; rewrite E; reflexivity | exact IH].
  - destruct (str_eqb (f_name f) a); [cbn; rewrite E; reflexivity | exact IH].
Qed.

Definition paired (fs : list fn) : Prop :=
  forall a f, get fs a = Some f ->
    (forall g, f_shadows f = Some g -> exists p, get fs g = Some p /\ f_shadowed_by p = Some a)
    /\ (forall g, f_shadowed_by f = Some g -> exists p, get fs g = Some p /\ f_shadows p = Some a)
    /\ (f_shadows f = None \/ f_shadowed_by f = None).

Lemma find_symbol_in fs sym t : find_symbol fs sym = Some t -> In t fs.
Proof.
  induction fs as [|f r IH]; [discriminate|]. cbn. destruct (str_eqb (f_symbol f) sym).
  - intros H. inversion H; subst. left. reflexivity.
  - intros H. right. apply IH. exact H.
Qed.

Lemma get_of_in fs f : NoDup (map f_name fs) -> In f fs -> get fs (f_name f) = Some f.
Proof.
  unfold get. induction fs as [|x t IH]; intros N H; [destruct H|]. cbn.
  inversion N as [|? ? Nin Nt]; subst. destruct H as [->|H].
  - rewrite str_eqb_refl. reflexivity.
  - destruct (str_eqb (f_name x) (f_name f)) eqn:E.
    + apply str_eqb_eq in E. exfalso. apply Nin. rewrite E. apply in_map. exact H.
    + apply IH; assumption.
Qed.

Lemma upd_names n g fs : (forall f, f_name (g f) = f_name f) -> map f_name (upd_fn n g fs) = map f_name fs.
Proof.
  intros Hg. unfold upd_fn. rewrite map_map. apply map_ext. intros f. destruct (str_eqb (f_name f) n); [apply Hg|reflexivity].
Qed.

Lemma rename_step_paired fs req :
  NoDup (map f_name fs) -> paired fs ->
  NoDup (map f_name (rename_step true fs req)) /\ paired (rename_step true fs req).
Proof.
  intros N P. destruct req as [nn ts]. unfold rename_step.
  destruct (find_symbol fs ts) as [T|] eqn:ET; [|split; assumption].
  destruct (find (fun f => str_eqb (f_name f) nn) fs) as [Nd|] eqn:EN; [|split; assumption].
  destruct (f_shadowed_by T) eqn:T1; [split; assumption|].
  destruct (f_shadows T) eqn:T2; [split; assumption|].
  cbn [andb].
  destruct (f_shadowed_by Nd) eqn:N1; [split; assumption|].
  destruct (f_shadows Nd) eqn:N2; [split; assumption|]. cbn [orb].
  destruct (str_eqb (f_name Nd) (f_name T)) eqn:NT; [split; assumption|].
  assert (HgT : get fs (f_name T) = Some T) by (apply get_of_in; [exact N | eapply find_symbol_in; exact ET]).
  assert (HgN : get fs (f_name Nd) = Some Nd).
  { apply get_of_in; [exact N|]. apply find_some in EN. apply EN. }
  assert (TN : str_eqb (f_name T) (f_name Nd) = false).
  { destruct (str_eqb (f_name T) (f_name Nd)) eqn:E; [|reflexivity]. apply str_eqb_eq in E. rewrite E, str_eqb_refl in NT. discriminate. }
  split.
  - rewrite !upd_names by (intros; reflexivity). exact N.
  - intros a f Hf.
    rewrite get_upd in Hf by (intros; reflexivity). rewrite get_upd in Hf by (intros; reflexivity).
    destruct (get fs a) as [f0|] eqn:G0; [|discriminate]. cbn in Hf.
    pose proof (get_name _ _ _ G0) as Ha.
    assert (look : forall b, get (upd_fn (f_name Nd) (set_shadows (f_name T)) (upd_fn (f_name T) (set_shadowed_by (f_name Nd)) fs)) b
                           = option_map (fun x => if str_eqb (f_name (if str_eqb (f_name x) (f_name T) then set_shadowed_by (f_name Nd) x else x)) (f_name Nd)
                                                  then set_shadows (f_name T) (if str_eqb (f_name x) (f_name T) then set_shadowed_by (f_name Nd) x else x)
                                                  else (if str_eqb (f_name x) (f_name T) then set_shadowed_by (f_name Nd) x else x)) (get fs b)).
    { intros b. rewrite get_upd by (intros; reflexivity). rewrite get_upd by (intros; reflexivity).
      destruct (get fs b); reflexivity. }
    destruct (str_eqb (f_name f0) (f_name T)) eqn:E0.
    + (* f0 is the target *)
      apply str_eqb_eq in E0. assert (f0 = T) by (rewrite <- Ha, E0 in G0; congruence). subst f0.
      cbn in Hf. rewrite TN in Hf. inversion Hf; subst f. cbn.
      split; [intros g Hg; rewrite T2 in Hg; discriminate|]. split; [|left; exact T2].
      intros g Hg. inversion Hg; subst g. rewrite look, HgN. cbn. rewrite NT. cbn. rewrite str_eqb_refl.
      eexists. split; [reflexivity|]. cbn. rewrite Ha. reflexivity.
    + cbn in Hf. destruct (str_eqb (f_name f0) (f_name Nd)) eqn:E1.
      * (* f0 is the renaming function *)
        apply str_eqb_eq in E1. assert (f0 = Nd) by (rewrite <- Ha, E1 in G0; congruence). subst f0.
        inversion Hf; subst f. cbn.
        split; [|split; [intros g Hg; rewrite N1 in Hg; discriminate | right; exact N1]].
        intros g Hg. inversion Hg; subst g. rewrite look, HgT. cbn. rewrite str_eqb_refl. cbn. rewrite TN.
        eexists. split; [reflexivity|]. cbn. rewrite Ha. reflexivity.
      * (* an uninvolved function *)
        inversion Hf; subst f. destruct (P a f0 G0) as [PA [PB PC]].
        split; [|split; [|exact PC]].
        -- intros g Hg. destruct (PA g Hg) as [p [Gp Hp]].
           pose proof (get_name _ _ _ Gp) as Hpn.
           rewrite look, Gp. cbn.
           destruct (str_eqb (f_name p) (f_name T)) eqn:EpT.
           ++ apply str_eqb_eq in EpT. assert (p = T) by (rewrite <- Hpn, EpT in Gp; congruence). subst p. congruence.
           ++ destruct (str_eqb (f_name p) (f_name Nd)) eqn:EpN.
              ** apply str_eqb_eq in EpN. assert (p = Nd) by (rewrite <- Hpn, EpN in Gp; congruence). subst p. congruence.
              ** eexists. split; [reflexivity|exact Hp].
        -- intros g Hg. destruct (PB g Hg) as [p [Gp Hp]].
           pose proof (get_name _ _ _ Gp) as Hpn.
           rewrite look, Gp. cbn.
           destruct (str_eqb (f_name p) (f_name T)) eqn:EpT.
           ++ apply str_eqb_eq in EpT. assert (p = T) by (rewrite <- Hpn, EpT in Gp; congruence). subst p. congruence.
           ++ destruct (str_eqb (f_name p) (f_name Nd)) eqn:EpN.
              ** apply str_eqb_eq in EpN. assert (p = Nd) by (rewrite <- Hpn, EpN in Gp; congruence). subst p. congruence.
              ** eexists. split; [reflexivity|exact Hp].
Qed.

Theorem rename_all_paired reqs : forall fs,
  NoDup (map f_name fs) -> paired fs -> NoDup (map f_name (rename_all true fs reqs)) /\ paired (rename_all true fs reqs).
Proof.
  induction reqs as [|r t IH]; intros fs N P; [split; assumption|].
  cbn. destruct (rename_step_paired fs r N P) as [N' P']. apply IH; assumption.
Qed.

Lemma fresh_paired fs : Forall (fun f => f_shadows f = None /\ f_shadowed_by f = None) fs -> paired fs.
Proof.
  intros H a f G. apply find_some in G. destruct G as [Hin _]. rewrite Forall_forall in H. destruct (H f Hin) as [A B].
  split; [intros g Hg; congruence|]. split; [intros g Hg; congruence | left; exact A].
Qed.

(* what the GIR shows is then a mutual pair *)
Lemma shown_pairs fs a f :
  paired fs -> get fs a = Some f ->
  (forall g, fst (shown f) = Some g -> exists p, get fs g = Some p /\ snd (shown p) = Some a)
  /\ (forall g, snd (shown f) = Some g -> exists p, get fs g = Some p /\ fst (shown p) = Some a).
Proof.
  intros P G. destruct (P a f G) as [PA [PB PC]]. unfold shown. split.
  - intros g Hg. destruct (f_shadowed_by f) eqn:E; [discriminate|]. cbn in Hg.
    destruct (PA g Hg) as [p [Gp Hp]]. exists p. split; [exact Gp|]. rewrite Hp. reflexivity.
  - intros g Hg. destruct (f_shadowed_by f) eqn:E; [|discriminate]. cbn in Hg. inversion Hg; subst.
    destruct (PB g eq_refl) as [p [Gp Hp]]. exists p. split; [exact Gp|].
    destruct (P g p Gp) as [_ [_ PCp]]. destruct (f_shadowed_by p) eqn:Ep; [|cbn; exact Hp].
    destruct PCp as [X|X]; congruence.
Qed.

(* the check as found let a function be shadowed and shadowing at once: what the GIR shows is
   then not a mutual pair *)
Definition fresh (n : string) : fn := {| f_name := s n; f_symbol := s "foo_" ++ s n; f_shadows := None; f_shadowed_by := None |}.
Lemma rename_refuted_before_fix :
  let fs := rename_all false [fresh "a"; fresh "b"; fresh "c"] [(s "c", s "foo_a"); (s "a", s "foo_b")] in
  exists fb fa, get fs (s "b") = Some fb /\ get fs (s "a") = Some fa
                /\ snd (shown fb) = Some (s "a") /\ fst (shown fa) = None.
Proof. vm_compute. eexists. eexists. repeat split; reflexivity. Qed.

(* ---------------------------------------------------------------- virtual methods *)
Lemma vfunc_own_block blocks st v inv b :
  blocks_lookup blocks (block_key EVFunc st v) None = Some b -> vfunc_meta blocks st v inv = meta_of SFunction (Some b).
Proof. unfold vfunc_meta. intros H. rewrite H. reflexivity. Qed.

Lemma vfunc_inherits blocks st v sym :
  blocks_lookup blocks (block_key EVFunc st v) None = None ->
  vfunc_meta blocks st v (Some sym) = element_meta blocks EFunction SFunction [] sym.
Proof. unfold vfunc_meta, element_meta. intros H. rewrite H. reflexivity. Qed.

Lemma vfunc_bare blocks st v :
  blocks_lookup blocks (block_key EVFunc st v) None = None -> vfunc_meta blocks st v None = no_meta.
Proof. unfold vfunc_meta. intros H. rewrite H. reflexivity. Qed.
