From Coq Require Import List NArith ZArith Bool Lia ZifyBool.
From GIV.Lib Require Import Regex Str.
From GIV.Model Require Import C17.
Import ListNotations.
Local Open Scope Z_scope.

(* ------------------------------------------------------------ version order *)
Lemma compare_version_spec a1 a2 b1 b2 :
  (compare_version (a1, a2) (b1, b2) = 1 <-> (b1 < a1 \/ (a1 = b1 /\ b2 < a2))) /\
  (compare_version (a1, a2) (b1, b2) = -1 <-> (a1 < b1 \/ (a1 = b1 /\ a2 < b2))) /\
  (compare_version (a1, a2) (b1, b2) = 0 <-> (a1 = b1 /\ a2 = b2)).
Proof.
  unfold compare_version.
  destruct (b1 <? a1) eqn:E1; [repeat split; intros; try lia|].
  destruct (a1 <? b1) eqn:E2; [repeat split; intros; try lia|].
  destruct (b2 <? a2) eqn:E3; [repeat split; intros; try lia|].
  destruct (a2 <? b2) eqn:E4; repeat split; intros; try lia.
Qed.

Lemma compare_version_antisym a b : compare_version a b = - compare_version b a.
Proof.
  destruct a as [a1 a2], b as [b1 b2]. unfold compare_version.
  destruct (b1 <? a1) eqn:E1, (a1 <? b1) eqn:E2, (b2 <? a2) eqn:E3, (a2 <? b2) eqn:E4; lia.
Qed.

Lemma compare_version_range a b : compare_version a b = 1 \/ compare_version a b = -1 \/ compare_version a b = 0.
Proof.
  destruct a as [a1 a2], b as [b1 b2]. unfold compare_version.
  destruct (b1 <? a1), (a1 <? b1), (b2 <? a2), (a2 <? b2); auto.
Qed.

(* key of a candidate: numeric (major, minor) and the index of its directory *)
Definition ckey (c : candidate) : Z * Z * Z := (fst (pv c.(c_version)), snd (pv c.(c_version)), Z.of_nat c.(c_index)).
Definition better (k1 k2 : Z * Z * Z) : Prop :=
  let '(a1, a2, i1) := k1 in let '(b1, b2, i2) := k2 in
  b1 < a1 \/ (a1 = b1 /\ (b2 < a2 \/ (a2 = b2 /\ i1 < i2))).

Lemma cand_before_spec c1 c2 : cand_before c1 c2 = true <-> better (ckey c1) (ckey c2).
Proof.
  unfold cand_before, ckey, better. destruct (pv (c_version c1)) as [a1 a2], (pv (c_version c2)) as [b1 b2]. cbn [fst snd].
  pose proof (compare_version_spec a1 a2 b1 b2) as (H1 & H2 & H3).
  destruct (0 <? compare_version (a1, a2) (b1, b2)) eqn:E.
  - assert (H : compare_version (a1, a2) (b1, b2) = 1) by (pose proof (compare_version_range (a1, a2) (b1, b2)); lia).
    split; [intros _; apply H1 in H; lia|reflexivity].
  - destruct (compare_version (a1, a2) (b1, b2) <? 0) eqn:E'.
    + assert (H : compare_version (a1, a2) (b1, b2) = -1) by (pose proof (compare_version_range (a1, a2) (b1, b2)); lia).
      split; [discriminate|]. apply H2 in H. lia.
    + assert (H : compare_version (a1, a2) (b1, b2) = 0) by (pose proof (compare_version_range (a1, a2) (b1, b2)); lia).
      apply H3 in H. rewrite Nat.ltb_lt. lia.
Qed.

Lemma better_irrefl k : ~ better k k.
Proof. destruct k as [[a b] i]. unfold better. lia. Qed.
Lemma better_trans k1 k2 k3 : better k1 k2 -> better k2 k3 -> better k1 k3.
Proof. destruct k1 as [[a1 a2] i1], k2 as [[b1 b2] i2], k3 as [[c1 c2] i3]. unfold better. lia. Qed.
Lemma better_negtrans k1 k2 k3 : ~ better k1 k2 -> ~ better k2 k3 -> ~ better k1 k3.
Proof. destruct k1 as [[a1 a2] i1], k2 as [[b1 b2] i2], k3 as [[c1 c2] i3]. unfold better. lia. Qed.

(* the elected candidate: none of the candidates is better (higher version, or equal
   version from an earlier directory) *)
Lemma elect_from_spec l : forall best,
  In (elect_from best l) (best :: l) /\
  forall x, In x (best :: l) -> ~ better (ckey x) (ckey (elect_from best l)).
Proof.
  induction l as [|c t IH]; intro best; cbn [elect_from].
  - split; [left; reflexivity|]. intros x [<-|[]]. apply better_irrefl.
  - destruct (cand_before c best) eqn:E.
    + destruct (IH c) as [Hin Hmax]. split; [right; exact Hin|].
      intros x [<-|[<-|Hx]].
      * apply cand_before_spec in E. intro Hb.
        assert (Hc : ~ better (ckey c) (ckey (elect_from c t))) by (apply Hmax; left; reflexivity).
        apply Hc. eapply better_trans; [exact E|]. exact Hb.
      * apply Hmax. left; reflexivity.
      * apply Hmax. right; exact Hx.
    + destruct (IH best) as [Hin Hmax]. split; [destruct Hin as [Hin|Hin]; [left; exact Hin|right; right; exact Hin]|].
      intros x [<-|[<-|Hx]].
      * apply Hmax. left; reflexivity.
      * assert (Hnb : ~ better (ckey c) (ckey best)).
        { intro Hb. apply cand_before_spec in Hb. congruence. }
        eapply better_negtrans; [exact Hnb|]. apply Hmax. left; reflexivity.
      * apply Hmax. right; exact Hx.
Qed.

Theorem elect_spec l c : elect l = Some c ->
  In c l /\ forall x, In x l -> ~ better (ckey x) (ckey c).
Proof.
  destruct l as [|c0 t]; [discriminate|]. simpl. intro H. injection H as <-. apply elect_from_spec.
Qed.
Theorem elect_none l : elect l = None <-> l = [].
Proof. destruct l; simpl; split; congruence. Qed.

(* ------------------------------------------------------------ exact version: first directory that has the file *)
Definition has_file (fsys : fs) (d name : str) : Prop :=
  exists dd c, lookup_dir fsys d = Some dd /\ lookup_file dd name = Some c.

Theorem find_version_spec fsys name : forall path,
  match find_version fsys path name with
  | Some (d, c) => exists pre post dd, path = pre ++ d :: post /\ (forall x, In x pre -> ~ has_file fsys x name) /\
                                      lookup_dir fsys d = Some dd /\ lookup_file dd name = Some c
  | None => forall x, In x path -> ~ has_file fsys x name
  end.
Proof.
  induction path as [|d t IH]; simpl; [intros x []|].
  destruct (lookup_dir fsys d) as [dd|] eqn:Ed.
  - destruct (lookup_file dd name) as [c|] eqn:Ef.
    + exists [], t, dd. repeat split; auto; intros x [] .
    + destruct (find_version fsys t name) as [[d' c']|].
      * destruct IH as (pre & post & dd' & -> & Hpre & Hd & Hf). exists (d :: pre), post, dd'. repeat split; auto.
        intros x [<-|Hx]; [|apply Hpre; exact Hx]. intros (dd2 & c2 & H1 & H2). congruence.
      * intros x [<-|Hx]; [|apply IH; exact Hx]. intros (dd2 & c2 & H1 & H2). congruence.
  - destruct (find_version fsys t name) as [[d' c']|].
    + destruct IH as (pre & post & dd' & -> & Hpre & Hd & Hf). exists (d :: pre), post, dd'. repeat split; auto.
      intros x [<-|Hx]; [|apply Hpre; exact Hx]. intros (dd2 & c2 & H1 & H2). congruence.
    + intros x [<-|Hx]; [|apply IH; exact Hx]. intros (dd2 & c2 & H1 & H2). congruence.
Qed.

(* ------------------------------------------------------------ what a require with an explicit version does *)
Theorem require_exact_spec fsys gpath f st path ns v :
  get_registered st ns = None ->
  require fsys gpath (S f) st path ns (Some v) =
  match find_version fsys path (fname ns v) with
  | None => (st, RErr 0)
  | Some (_, None) => (st, RErr 0)
  | Some (d, Some tf) =>
      if negb (str_eqb tf.(f_ns) ns) then (st, RErr 1)
      else if negb (str_eqb tf.(f_version) v) then (st, RErr 1)
      else register fsys gpath f st tf (slash_join d (fname ns v))
  end.
Proof.
  intro H. simpl. rewrite H. destruct (find_version fsys path (fname ns v)) as [[d [tf|]]|]; reflexivity.
Qed.

Theorem require_loaded_spec fsys gpath f st path ns ver l :
  get_registered st ns = Some l ->
  require fsys gpath (S f) st path ns ver =
  match ver with
  | None => (st, ROk l.(l_file).(f_version))
  | Some v => if str_eqb v l.(l_file).(f_version) then (st, ROk v) else (st, RErr 2)
  end.
Proof. intro H. simpl. rewrite H. reflexivity. Qed.

(* search path: directories prepended later come first, then the environment's, then the default *)
Theorem prepend_precedence fsys base pre st d :
  fst (step fsys base (pre, st) (OPrepend d)) = (d :: pre, st).
Proof. reflexivity. Qed.

(* ------------------------------------------------------------ invariant over any history of requires *)
Definition deps_ok (st : state) (tf : tfile) : Prop :=
  forall dn dv, In (dn, dv) tf.(f_deps) ->
    exists l, get_registered st dn = Some l /\ l.(l_file).(f_version) = dv.
(* every loaded namespace was loaded from a file that names it, and each dependency recorded
   in that file is loaded at the recorded version *)
Definition Inv (st : state) : Prop :=
  forall l, In l st -> l.(l_ns) = l.(l_file).(f_ns) /\ deps_ok st l.(l_file).

Lemma get_registered_app st x ns :
  get_registered (st ++ x) ns =
  match get_registered st ns with Some l => Some l | None => get_registered x ns end.
Proof.
  induction st as [|l t IH]; simpl; [reflexivity|]. destruct (str_eqb (l_ns l) ns); [reflexivity|exact IH].
Qed.
Lemma get_registered_ns st ns l : get_registered st ns = Some l -> l.(l_ns) = ns /\ In l st.
Proof.
  induction st as [|x t IH]; simpl; [discriminate|]. destruct (str_eqb (l_ns x) ns) eqn:E.
  - intro H. injection H as <-. apply str_eqb_eq in E. auto.
  - intro H. destruct (IH H). auto.
Qed.
Lemma insert_new e st : get_registered st e.(l_ns) = None -> insert e st = st ++ [e].
Proof.
  induction st as [|x t IH]; simpl; [reflexivity|]. destruct (str_eqb (l_ns x) (l_ns e)); [discriminate|].
  intro H. rewrite IH by exact H. reflexivity.
Qed.
Lemma deps_ok_app st x tf : deps_ok st tf -> deps_ok (st ++ x) tf.
Proof.
  intros H dn dv Hin. destruct (H dn dv Hin) as (l & Hl & Hv). exists l. rewrite get_registered_app, Hl. auto.
Qed.

Ltac nil_post :=
  exists []; rewrite app_nil_r; split; [reflexivity|]; split; [constructor|]; split; [assumption|];
  let v := fresh in let Hd := fresh in intros v Hd; discriminate Hd.

Section Invariant.
  Variable fsys : fs.
  Variable gpath : list str.
  Variable rank : str -> nat.

  Definition ranked (tf : tfile) : Prop := forall dn dv, In (dn, dv) tf.(f_deps) -> (rank dn < rank tf.(f_ns))%nat.
  (* the dependency graph of the files on disk is acyclic: a rank decreases along dependencies *)
  Definition fs_ranked : Prop :=
    forall d dd name tf, lookup_dir fsys d = Some dd -> In (name, Some tf) dd -> ranked tf.

  Lemma lookup_file_in dd name c : lookup_file dd name = Some c -> In (name, c) dd.
  Proof.
    induction dd as [|[n x] t IH]; simpl; [discriminate|]. destruct (str_eqb n name) eqn:E.
    - intro H. injection H as <-. apply str_eqb_eq in E. subst. left; reflexivity.
    - intro H. right. exact (IH H).
  Qed.

  Lemma scan_dir_in nd idx dname : forall entries found acc found' acc',
    scan_dir nd idx dname entries found acc = (found', acc') ->
    forall c, In c acc' -> In c acc \/ (c.(c_dir) = dname /\ In (c.(c_entry), c.(c_content)) entries).
  Proof.
    induction entries as [|[entry ct] t IH]; intros found acc found' acc' H c Hc; simpl in H.
    - injection H as <- <-. left; exact Hc.
    - destruct (negb (endswith dot_typelib entry) || negb (startswith nd entry)).
      + destruct (IH _ _ _ _ H c Hc) as [Ha|[Hd Hi]]; [left; exact Ha|right; split; [exact Hd|right; exact Hi]].
      + destruct (parse_version (entry_version entry)).
        * destruct (existsb (str_eqb (entry_version entry)) found).
          -- destruct (IH _ _ _ _ H c Hc) as [Ha|[Hd Hi]]; [left; exact Ha|right; split; [exact Hd|right; exact Hi]].
          -- destruct (IH _ _ _ _ H c Hc) as [[<-|Ha]|[Hd Hi]].
             ++ right. simpl. split; [reflexivity|left; reflexivity].
             ++ left; exact Ha.
             ++ right; split; [exact Hd|right; exact Hi].
        * destruct (IH _ _ _ _ H c Hc) as [Ha|[Hd Hi]]; [left; exact Ha|right; split; [exact Hd|right; exact Hi]].
  Qed.

  Lemma enumerate_in nd : forall path idx found acc c,
    In c (enumerate fsys nd path idx found acc) ->
    In c acc \/ exists dd, lookup_dir fsys c.(c_dir) = Some dd /\ In (c.(c_entry), c.(c_content)) dd.
  Proof.
    induction path as [|d t IH]; intros idx found acc c Hc; simpl in Hc; [left; exact Hc|].
    destruct (lookup_dir fsys d) as [entries|] eqn:Ed; [|apply (IH _ _ _ _ Hc)].
    destruct (scan_dir nd idx d entries found acc) as [found' acc'] eqn:Es.
    destruct (IH _ _ _ _ Hc) as [Ha|Hr]; [|right; exact Hr].
    destruct (scan_dir_in _ _ _ _ _ _ _ _ Es c Ha) as [Ha'|[Hd Hi]]; [left; exact Ha'|].
    right. exists entries. rewrite Hd. auto.
  Qed.

  (* the dependency loop of register_internal as a standalone function *)
  Fixpoint deps_loop (f : nat) (l : list (str * str)) (st : state) : state * option Z :=
    match l with
    | [] => (st, None)
    | (dn, dv) :: t => match require fsys gpath f st gpath dn (Some dv) with
                       | (st', ROk _) => deps_loop f t st'
                       | (st', RErr e) => (st', Some e)
                       end
    end.
  Lemma register_unfold f st tf p :
    register fsys gpath (S f) st tf p =
    match deps_loop f tf.(f_deps) st with
    | (st', Some e) => (st', RErr e)
    | (st', None) => (insert {| l_ns := tf.(f_ns); l_file := tf; l_path := p |} st', ROk tf.(f_version))
    end.
  Proof.
    simpl.
    assert (H : forall l s, (fix deps (l : list (str * str)) (st : state) : state * option Z :=
                 match l with
                 | [] => (st, None)
                 | (dn, dv) :: t => match require fsys gpath f st gpath dn (Some dv) with
                                    | (st', ROk _) => deps t st'
                                    | (st', RErr e) => (st', Some e)
                                    end
                 end) l s = deps_loop f l s).
    { induction l as [|[dn dv] t IH]; intro s; simpl; [reflexivity|].
      destruct (require fsys gpath f s gpath dn (Some dv)) as [s' [v|e]]; [apply IH|reflexivity]. }
    rewrite H. reflexivity.
  Qed.

  Definition req_post (st : state) (ns : str) (ver : option str) (st' : state) (r : res) : Prop :=
    exists added, st' = st ++ added /\ Forall (fun l => (rank l.(l_ns) <= rank ns)%nat) added /\ Inv st' /\
      (forall v, r = ROk v -> exists l, get_registered st' ns = Some l /\ l.(l_file).(f_version) = v /\
                              (forall v0, ver = Some v0 -> v = v0)).
  Definition reg_post (st : state) (tf : tfile) (p : str) (st' : state) (r : res) : Prop :=
    exists added, st' = st ++ added /\ Forall (fun l => (rank l.(l_ns) <= rank tf.(f_ns))%nat) added /\ Inv st' /\
      (forall v, r = ROk v -> exists l, get_registered st' tf.(f_ns) = Some l /\ l.(l_file) = tf /\ l.(l_path) = p).

  Lemma inv_app_nil st : Inv st -> exists added : state, st = st ++ added /\ added = [].
  Proof. intros _. exists []. rewrite app_nil_r. auto. Qed.

  Lemma deps_loop_post f :
    (forall st path ns ver st' r, require fsys gpath f st path ns ver = (st', r) -> Inv st -> req_post st ns ver st' r) ->
    forall (bound : nat) l st st' e, deps_loop f l st = (st', e) -> Inv st ->
      (forall dn dv, In (dn, dv) l -> (rank dn < bound)%nat) ->
      exists added, st' = st ++ added /\ Forall (fun x => (rank x.(l_ns) < bound)%nat) added /\ Inv st' /\
        (e = None -> forall dn dv, In (dn, dv) l ->
                     exists x, get_registered st' dn = Some x /\ x.(l_file).(f_version) = dv).
  Proof.
    intros Hreq bound. induction l as [|[dn dv] t IH]; intros st st' e H Hinv Hr; simpl in H.
    - injection H as <- <-. exists []. rewrite app_nil_r. split; [reflexivity|]. split; [constructor|].
      split; [exact Hinv|]. intros _ dn dv [].
    - destruct (require fsys gpath f st gpath dn (Some dv)) as [s1 r1] eqn:E1.
      destruct (Hreq _ _ _ _ _ _ E1 Hinv) as (a1 & -> & Hf1 & Hinv1 & Hok1).
      assert (Hb : (rank dn < bound)%nat) by (apply (Hr dn dv); left; reflexivity).
      assert (Hf1' : Forall (fun x => (rank x.(l_ns) < bound)%nat) a1).
      { eapply Forall_impl; [|exact Hf1]. simpl. intros. lia. }
      destruct r1 as [v1|e1].
      + destruct (IH _ _ _ H Hinv1 (fun a b Hin => Hr a b (or_intror Hin))) as (a2 & -> & Hf2 & Hinv2 & Hok2).
        exists (a1 ++ a2). rewrite app_assoc. split; [reflexivity|]. split; [apply Forall_app; auto|].
        split; [exact Hinv2|]. intros He dn' dv' [Heq|Hin].
        * injection Heq as <- <-. destruct (Hok1 v1 eq_refl) as (x & Hx & Hv & Hv0).
          exists x. rewrite get_registered_app, Hx. split; [reflexivity|]. rewrite Hv. apply Hv0. reflexivity.
        * apply (Hok2 He dn' dv' Hin).
      + injection H as <- <-. exists a1. split; [reflexivity|]. split; [exact Hf1'|]. split; [exact Hinv1|]. discriminate.
  Qed.

  Theorem require_register_inv : fs_ranked -> forall f,
    (forall st path ns ver st' r, require fsys gpath f st path ns ver = (st', r) -> Inv st -> req_post st ns ver st' r) /\
    (forall st tf p st' r, register fsys gpath f st tf p = (st', r) -> Inv st -> ranked tf ->
       get_registered st tf.(f_ns) = None -> reg_post st tf p st' r).
  Proof.
    intro Hfs. induction f as [|f [IHreq IHreg]].
    - split.
      + intros st path ns ver st' r H Hinv. simpl in H. injection H as <- <-.
        nil_post.
      + intros st tf p st' r H Hinv _ _. simpl in H. injection H as <- <-.
        nil_post.
    - split.
      + (* require *)
        intros st path ns ver st' r H Hinv. cbn [require] in H.
        destruct (get_registered st ns) as [l|] eqn:Eg.
        * assert (Hsame : st' = st) by (destruct ver as [v|]; [destruct (str_eqb v _)|]; congruence).
          subst st'. exists []. rewrite app_nil_r. split; [reflexivity|]. split; [constructor|]. split; [exact Hinv|].
          intros v Hv. exists l. split; [exact Eg|].
          destruct ver as [v0|].
          -- destruct (str_eqb v0 (f_version (l_file l))) eqn:Ev; [|congruence].
             injection H as <-. injection Hv as <-. apply str_eqb_eq in Ev. split; [auto|]. intros v1 Hv1. congruence.
          -- injection H as <-. injection Hv as <-. split; [reflexivity|discriminate].
        * set (found := match ver with
                        | Some v => match find_version fsys path (fname ns v) with
                                    | Some (d, c) => Some (slash_join d (fname ns v), v, c)
                                    | None => None
                                    end
                        | None => match elect (enumerate fsys (ns ++ [45%N]) path 0 [] []) with
                                  | Some c => Some (slash_join (c_dir c) (c_entry c), c_version c, c_content c)
                                  | None => None
                                  end
                        end) in *.
          assert (Hfound : forall p nv tf, found = Some (p, nv, Some tf) ->
                    ranked tf /\ (forall v0, ver = Some v0 -> nv = v0)).
          { intros p nv tf Hf. unfold found in Hf. destruct ver as [v|].
            - pose proof (find_version_spec fsys (fname ns v) path) as Hs.
              destruct (find_version fsys path (fname ns v)) as [[d c]|]; [|discriminate].
              injection Hf as <- <- ->. destruct Hs as (pre & post & dd & _ & _ & Hd & Hfile).
              split; [eapply Hfs; [exact Hd|apply lookup_file_in; exact Hfile]|]. intros v0 Hv0. congruence.
            - destruct (elect (enumerate fsys (ns ++ [45%N]) path 0 [] [])) as [c|] eqn:Ee; [|discriminate].
              injection Hf as <- <- Hc. apply elect_spec in Ee as [Hin _].
              apply enumerate_in in Hin as [[]|(dd & Hd & Hi)].
              split; [eapply Hfs; [exact Hd|rewrite <- Hc; exact Hi]|]. discriminate. }
          destruct found as [[[p nv] [tf|]]|] eqn:Ef.
          -- destruct (negb (str_eqb (f_ns tf) ns)) eqn:En.
             { injection H as <- <-. nil_post. }
             destruct (negb (str_eqb (f_version tf) nv)) eqn:Evv.
             { injection H as <- <-. nil_post. }
             apply negb_false_iff in En. apply str_eqb_eq in En.
             apply negb_false_iff in Evv. apply str_eqb_eq in Evv.
             destruct (Hfound p nv tf eq_refl) as [Hrk Hver].
             assert (Hnone : get_registered st (f_ns tf) = None) by (rewrite En; exact Eg).
             destruct (IHreg _ _ _ _ _ H Hinv Hrk Hnone) as (added & -> & Hf & Hinv' & Hok).
             exists added. rewrite <- En. split; [reflexivity|]. split; [exact Hf|]. split; [exact Hinv'|].
             intros v Hv. destruct (Hok v Hv) as (l & Hl & Hfile & _). exists l. split; [exact Hl|].
             rewrite Hfile.
             assert (Hrv : v = f_version tf).
             { subst r. clear - H. destruct f as [|f']; simpl in H; [discriminate|].
               match type of H with (match ?X with _ => _ end) = _ => destruct X as [s2 [e|]] end;
                 [discriminate|]. injection H as _ H. congruence. }
             split; [congruence|]. intros v0 Hv0. rewrite Hrv, Evv. apply Hver. exact Hv0.
          -- injection H as <- <-. nil_post.
          -- injection H as <- <-. nil_post.
      + (* register *)
        intros st tf p st' r H Hinv Hrk Hnone. rewrite register_unfold in H.
        destruct (deps_loop f (f_deps tf) st) as [s1 e1] eqn:El.
        destruct (deps_loop_post f IHreq (rank (f_ns tf)) _ _ _ _ El Hinv Hrk) as (a1 & -> & Hf1 & Hinv1 & Hok1).
        destruct e1 as [e|].
        * injection H as <- <-. exists a1. split; [reflexivity|]. split.
          -- eapply Forall_impl; [|exact Hf1]. simpl. intros. lia.
          -- split; [exact Hinv1|]. discriminate.
        * set (entry := {| l_ns := f_ns tf; l_file := tf; l_path := p |}) in *.
          assert (Hnone1 : get_registered (st ++ a1) (l_ns entry) = None).
          { simpl. rewrite get_registered_app, Hnone.
            destruct (get_registered a1 (f_ns tf)) as [x|] eqn:Ex; [|reflexivity]. exfalso.
            apply get_registered_ns in Ex as [Hns Hin]. rewrite Forall_forall in Hf1.
            specialize (Hf1 x Hin). simpl in Hf1. rewrite Hns in Hf1. lia. }
          rewrite (insert_new entry _ Hnone1) in H. injection H as <- <-.
          exists (a1 ++ [entry]). rewrite app_assoc. split; [reflexivity|]. split.
          -- apply Forall_app. split; [eapply Forall_impl; [|exact Hf1]; simpl; intros; lia|].
             constructor; [simpl; lia|constructor].
          -- split.
             ++ intros l Hin. apply in_app_iff in Hin as [Hin|[<-|[]]].
                ** destruct (Hinv1 l Hin) as [Ha Hb]. split; [exact Ha|apply deps_ok_app; exact Hb].
                ** split; [reflexivity|]. simpl. apply deps_ok_app. intros dn dv Hd. apply (Hok1 eq_refl dn dv Hd).
             ++ intros v _. exists entry. split; [|split; reflexivity].
                rewrite get_registered_app. simpl in Hnone1. rewrite Hnone1. simpl. rewrite str_eqb_refl. reflexivity.
  Qed.
End Invariant.

(* ------------------------------------------------------------ histories *)
Definition op_plain (o : op) : Prop := match o with OLoad _ => False | _ => True end.

Theorem step_inv fsys base rank : fs_ranked fsys rank ->
  forall w o, Inv (snd w) -> op_plain o -> Inv (snd (fst (step fsys base w o))).
Proof.
  intros Hfs [pre st] o Hinv Hp. cbn [snd] in Hinv.
  destruct o as [d|ns v|d ns v|tf]; cbn [op_plain] in Hp; [| | |contradiction]; unfold step.
  - cbn [fst snd]. exact Hinv.
  - destruct (require fsys (pre ++ base) fuel0 st (pre ++ base) ns v) as [st' r] eqn:E. cbn [fst snd].
    destruct (proj1 (require_register_inv fsys (pre ++ base) rank Hfs fuel0) _ _ _ _ _ _ E Hinv) as (a & _ & _ & H & _).
    exact H.
  - destruct (require fsys (pre ++ base) fuel0 st [d] ns v) as [st' r] eqn:E. cbn [fst snd].
    destruct (proj1 (require_register_inv fsys (pre ++ base) rank Hfs fuel0) _ _ _ _ _ _ E Hinv) as (a & _ & _ & H & _).
    exact H.
Qed.

Theorem run_inv fsys base rank : fs_ranked fsys rank ->
  forall ops w, Inv (snd w) -> Forall op_plain ops -> Inv (snd (fst (run fsys base w ops))).
Proof.
  intros Hfs. induction ops as [|o t IH]; intros w Hinv Hp; cbn [run]; [exact Hinv|].
  inversion Hp as [|? ? Ho Ht]; subst.
  pose proof (step_inv fsys base rank Hfs w o Hinv Ho) as H1.
  destruct (step fsys base w o) as [w' r]. cbn [fst snd] in H1.
  specialize (IH w' H1 Ht). destruct (run fsys base w' t) as [w'' rs]. exact IH.
Qed.

(* a successful require leaves the namespace loaded at the version reported, which is the
   requested one when a version was given; everything loaded before stays loaded *)
Theorem require_result fsys gpath rank : fs_ranked fsys rank ->
  forall st path ns ver st' v, Inv st ->
    require fsys gpath fuel0 st path ns ver = (st', ROk v) ->
    (exists added, st' = st ++ added) /\
    (exists l, get_registered st' ns = Some l /\ l.(l_file).(f_version) = v) /\
    (forall v0, ver = Some v0 -> v = v0).
Proof.
  intros Hfs st path ns ver st' v Hinv H.
  destruct (proj1 (require_register_inv fsys gpath rank Hfs fuel0) _ _ _ _ _ _ H Hinv) as (a & -> & _ & _ & Hok).
  destruct (Hok v eq_refl) as (l & Hl & Hv & Hv0).
  split; [exists a; reflexivity|]. split; [exists l; auto|exact Hv0].
Qed.

(* a loaded namespace: same version is returned, another version is a conflict, nothing changes *)
Theorem require_again fsys gpath st path ns ver l :
  get_registered st ns = Some l ->
  require fsys gpath fuel0 st path ns ver =
  match ver with
  | None => (st, ROk l.(l_file).(f_version))
  | Some v => if str_eqb v l.(l_file).(f_version) then (st, ROk v) else (st, RErr 2)
  end.
Proof. apply require_loaded_spec. Qed.
