From Coq Require Import List Arith Bool Lia.
From GIV.Model Require Import C05.
Import ListNotations.

Fixpoint count (l : list bool) : nat := match l with [] => 0 | b :: t => (if b then 1 else 0) + count t end.

Lemma set_nth_false_count i : forall l,
  count (set_nth i false l) <= count l /\ (count (set_nth i false l) = count l -> set_nth i false l = l).
Proof.
  induction i as [|i IH]; intros [|b t]; cbn; try (split; [lia|reflexivity]).
  - destruct b; cbn; split; try lia; try reflexivity.
  - destruct (IH t) as [A B]. split; [lia|]. intros H. f_equal. apply B. lia.
Qed.

Lemma nth_set_nth_false i : forall l j, nth j (set_nth i false l) false = true -> nth j l false = true.
Proof.
  induction i as [|i IH]; intros [|b t] j H; cbn in *; try exact H.
  - destruct j; [discriminate|exact H].
  - destruct j; [exact H|]. apply IH. exact H.
Qed.

Section Walk.
  Context (w : world) (which : node -> bool).

  Lemma step_count fl i :
    count (step w which fl i) <= count fl /\ (count (step w which fl i) = count fl -> step w which fl i = fl).
  Proof.
    unfold step. destruct (check w which fl i); [split; [lia|reflexivity]|]. apply set_nth_false_count.
  Qed.

  Definition stable_at (fl : list bool) (i : nat) : Prop := check w which fl i = true \/ nth i fl false = false.

  Lemma step_same_stable fl i : step w which fl i = fl -> stable_at fl i.
  Proof.
    unfold step, stable_at. destruct (check w which fl i) eqn:C; [left; reflexivity|].
    intros H. right. destruct (nth i fl false) eqn:N; [|reflexivity]. exfalso.
    assert (G : nth i (set_nth i false fl) false = false).
    { clear. revert fl. induction i as [|i IH]; intros [|b t]; cbn; try reflexivity. apply IH. }
    rewrite H in G. congruence.
  Qed.

  Lemma fold_count idxs : forall fl,
    count (fold_left (step w which) idxs fl) <= count fl
    /\ (count (fold_left (step w which) idxs fl) = count fl ->
        fold_left (step w which) idxs fl = fl /\ forall i, In i idxs -> stable_at fl i).
  Proof.
    induction idxs as [|i t IH]; intros fl; cbn; [split; [lia|]; intros _; split; [reflexivity|intros i []]|].
    destruct (step_count fl i) as [A B]. destruct (IH (step w which fl i)) as [C D]. split; [lia|].
    intros H. assert (E1 : count (step w which fl i) = count fl) by lia.
    pose proof (B E1) as S. rewrite S in *. destruct (D H) as [F G]. split; [exact F|].
    intros j [<-|Hj]; [apply step_same_stable; exact S | apply G; exact Hj].
  Qed.

  Lemma walk_count fl :
    count (walk w which fl) <= count fl
    /\ (count (walk w which fl) = count fl ->
        walk w which fl = fl /\ forall i, (i < length (nodes w))%nat -> stable_at fl i).
  Proof.
    unfold walk. destruct (fold_count (seq 0 (length (nodes w))) fl) as [A B]. split; [exact A|].
    intros H. destruct (B H) as [C D]. split; [exact C|]. intros i Hi. apply D. apply in_seq. lia.
  Qed.
End Walk.

Lemma round_count w fl :
  count (round w fl) <= count fl
  /\ (count (round w fl) = count fl ->
      round w fl = fl
      /\ (forall i, (i < length (nodes w))%nat -> stable_at w is_alias fl i)
      /\ (forall i, (i < length (nodes w))%nat -> stable_at w is_callable fl i)).
Proof.
  unfold round. destruct (walk_count w is_alias fl) as [A B]. destruct (walk_count w is_callable (walk w is_alias fl)) as [C D].
  split; [lia|]. intros H. assert (E : count (walk w is_alias fl) = count fl) by lia.
  destruct (B E) as [F G]. rewrite F in *. destruct (D H) as [I J]. split; [exact I|]. split; assumption.
Qed.

Lemma iter_fix k w fl : round w fl = fl -> iter k w fl = fl.
Proof. induction k as [|k IH]; intros H; [reflexivity|]. cbn. rewrite H. apply IH. exact H. Qed.

Lemma iter_reaches_fixpoint k : forall w fl, count fl <= k -> round w (iter k w fl) = iter k w fl.
Proof.
  induction k as [|k IH]; intros w fl H; cbn.
  - destruct (round_count w fl) as [A B]. apply B. lia.
  - destruct (round_count w fl) as [A B].
    destruct (Nat.eq_dec (count (round w fl)) (count fl)) as [E|N].
    + destruct (B E) as [F _]. rewrite F. rewrite iter_fix by exact F. exact F.
    + apply IH. lia.
Qed.

Lemma count_le_length l : count l <= length l.
Proof. induction l as [|b t IH]; cbn; [lia|]. destruct b; lia. Qed.

Lemma apply_own_length w fl : length fl = length (nodes w) -> length (apply_own w fl) = length (nodes w).
Proof. intros H. unfold apply_own. rewrite map_length, combine_length, H. lia. Qed.

(* the repaired pass ends in a state no walk changes *)
Theorem pass_is_fixpoint w : round w (pass w) = pass w.
Proof.
  unfold pass. change (iter (S (length (nodes w))) w (apply_own w (all_true w)))
    with (iter (length (nodes w)) w (round w (apply_own w (all_true w)))).
  apply iter_reaches_fixpoint.
  destruct (round_count w (apply_own w (all_true w))) as [A _].
  etransitivity; [exact A|]. etransitivity; [apply count_le_length|].
  rewrite apply_own_length; [lia|]. unfold all_true. apply map_length.
Qed.

(* ... and such a state is closed: whatever is left introspectable refers only to introspectable things *)
Theorem fixpoint_closed w fl : round w fl = fl -> closed w fl.
Proof.
  intros H. destruct (round_count w fl) as [_ B]. rewrite H in B. destruct (B eq_refl) as [_ [SA SC]].
  intros i n Hn Hs Hk.
  assert (Hi : (i < length (nodes w))%nat) by (apply nth_error_Some; congruence).
  unfold shown_introspectable in Hs. apply andb_true_iff in Hs. destruct Hs as [Hf _].
  destruct Hk as [Hk|Hk].
  - destruct (SA i Hi) as [C|C]; [|congruence]. unfold check in C. rewrite Hn, Hk in C. exact C.
  - destruct (SC i Hi) as [C|C]; [|congruence]. unfold check in C. rewrite Hn, Hk in C. exact C.
Qed.

Theorem pass_closed w : closed w (pass w).
Proof. apply fixpoint_closed. apply pass_is_fixpoint. Qed.

(* flags only ever go from introspectable to not introspectable *)
Lemma step_decreasing w which fl i j : nth j (step w which fl i) false = true -> nth j fl false = true.
Proof. unfold step. destruct (check w which fl i); [auto|]. apply nth_set_nth_false. Qed.
Lemma walk_decreasing w which fl j : nth j (walk w which fl) false = true -> nth j fl false = true.
Proof.
  unfold walk. generalize (seq 0 (length (nodes w))). intros idxs. revert fl.
  induction idxs as [|i t IH]; intros fl H; [exact H|]. cbn in H. apply IH in H. eapply step_decreasing. exact H.
Qed.

(* the pass as found is not closed: an alias chain declared use-before-definition, and a chain of
   three callback types *)
Definition alias_chain : world :=
  {| nodes := [NAlias (TNode 1); NAlias TBad]; skipped := [false; false] |}.
Definition callback_chain : world :=
  {| nodes := [NCallable true [TNode 1]; NCallable true [TNode 2]; NCallable true [TBad]]; skipped := [false; false; false] |}.

Lemma found_not_closed_alias : ~ closed alias_chain (pass_found alias_chain).
Proof.
  intros C. specialize (C 0%nat (NAlias (TNode 1)) eq_refl). vm_compute in C.
  specialize (C eq_refl (or_introl eq_refl)). discriminate.
Qed.
Lemma found_not_closed_callbacks : ~ closed callback_chain (pass_found callback_chain).
Proof.
  intros C. specialize (C 0%nat (NCallable true [TNode 1]) eq_refl). vm_compute in C.
  specialize (C eq_refl (or_intror eq_refl)). discriminate.
Qed.
Example repaired_on_witnesses : pass alias_chain = [false; false] /\ pass callback_chain = [false; false; false].
Proof. vm_compute. split; reflexivity. Qed.
