From Coq Require Import List Arith Bool.
Import ListNotations.

(* giscanner/cachestore.py + Transformer._parse_include as a small-step system: any number of
   scanner processes working on ONE cache entry (the entry of one dependency GIR), an
   environment that modifies the source file, kills processes, unlinks the entry (purge /
   remove-on-error) or plants an unreadable entry.

   A version of the source file is identified with its modification time (mtimes of distinct
   modifications strictly increase: the logical clock ticks at every event).  The payload of
   a cache entry is the version it is the parse of. *)

Record inode := { payload : nat; stamp : nat; complete : bool }.

Inductive pc :=
| Start                                   (* load: about to open the entry *)
| Opened (i : nat)                        (* entry opened: handle on inode i *)
| Statted (i : nat) (sm : nat)            (* store mtime obtained *)
| Valid (i : nat)                         (* _cache_is_valid said yes: about to unpickle *)
| Miss                                    (* load returned None *)
| PStat (m0 : nat)                        (* (fixed protocol) source mtime observed before parsing *)
| Parsed (m0 v : nat)                     (* parsed version v *)
| SChk (m0 v : nat) (sm : option nat)     (* store: mtime of the current entry, if any *)
| SHalf (m0 v : nat) (t : inode)          (* private temp file t, first half written *)
| SFull (m0 v : nat) (t : inode)          (* completely written and closed *)
| SStamped (m0 v : nat) (t : inode)       (* (fixed protocol) utime (tmp, m0) done *)
| Done (r : nat).                         (* _parse_include returned the parse of version r *)

Record proc := { p_pc : pc; p_seen : list nat; p_alive : bool }.

Record st := { clock : nat; src : nat; entry : option nat;
               inodes : nat -> option inode; next_inode : nat;
               procs : nat -> option proc; next_pid : nat }.

Definition upd {A} (f : nat -> option A) (k : nat) (v : A) : nat -> option A :=
  fun x => if Nat.eqb x k then Some v else f x.

Definition init : st :=
  {| clock := 1; src := 0; entry := None; inodes := fun _ => None; next_inode := 0;
     procs := fun _ => None; next_pid := 0 |}.

Inductive event := Spawn | Step (pid : nat) | Modify | Kill (pid : nat) | Unlink | Garbage.

Definition set_pc (s : st) (pid : nat) (p : proc) (c : pc) : st :=
  {| clock := S s.(clock); src := s.(src); entry := s.(entry); inodes := s.(inodes);
     next_inode := s.(next_inode);
     procs := upd s.(procs) pid {| p_pc := c; p_seen := p.(p_seen); p_alive := p.(p_alive) |};
     next_pid := s.(next_pid) |}.

Definition stamp_of (s : st) (i : nat) : option nat :=
  match s.(inodes) i with Some n => Some n.(stamp) | None => None end.

Section Protocol.
  Variable fx : bool.      (* true: the repaired protocol; false: the code as found *)

  Definition tick (s : st) : st :=
    {| clock := S s.(clock); src := s.(src); entry := s.(entry); inodes := s.(inodes);
       next_inode := s.(next_inode); procs := s.(procs); next_pid := s.(next_pid) |}.

  (* one system call of process pid *)
  Definition proc_step (s : st) (pid : nat) (p : proc) : st :=
    match p.(p_pc) with
    | Start => match s.(entry) with
               | Some i => set_pc s pid p (Opened i)
               | None => set_pc s pid p Miss
               end
    | Opened i =>
        if fx then match stamp_of s i with                   (* os.fstat (fd) *)
                   | Some m => set_pc s pid p (Statted i m)
                   | None => set_pc s pid p Miss
                   end
        else match s.(entry) with                            (* os.stat (path) *)
             | Some j => match stamp_of s j with
                         | Some m => set_pc s pid p (Statted i m)
                         | None => set_pc s pid p Miss
                         end
             | None => set_pc s pid p Miss
             end
    | Statted i sm => if s.(src) <=? sm then set_pc s pid p (Valid i) else set_pc s pid p Miss
    | Valid i =>
        match s.(inodes) i with
        | Some n => if n.(complete) then set_pc s pid p (Done n.(payload))
                    else (* unpickling fails: remove the entry by path, return None *)
                      let s' := set_pc s pid p Miss in
                      {| clock := s'.(clock); src := s'.(src); entry := None; inodes := s'.(inodes);
                         next_inode := s'.(next_inode); procs := s'.(procs); next_pid := s'.(next_pid) |}
        | None => set_pc s pid p Miss
        end
    | Miss => if fx then set_pc s pid p (PStat s.(src)) else set_pc s pid p (Parsed 0 s.(src))
    | PStat m0 => set_pc s pid p (Parsed m0 s.(src))
    | Parsed m0 v => set_pc s pid p (SChk m0 v (match s.(entry) with Some j => stamp_of s j | None => None end))
    | SChk m0 v sm =>
        let valid := match sm with Some m => s.(src) <=? m | None => false end in
        if valid then set_pc s pid p (Done v)
        else set_pc s pid p (SHalf m0 v {| payload := v; stamp := s.(clock); complete := false |})
    | SHalf m0 v t => set_pc s pid p (SFull m0 v {| payload := v; stamp := s.(clock); complete := true |})
    | SFull m0 v t =>
        if fx then set_pc s pid p (SStamped m0 v {| payload := v; stamp := m0; complete := true |})
        else (* shutil.move: atomic rename onto the entry name *)
          let s' := set_pc s pid p (Done v) in
          {| clock := s'.(clock); src := s'.(src); entry := Some s.(next_inode);
             inodes := upd s'.(inodes) s.(next_inode) t; next_inode := S s.(next_inode);
             procs := s'.(procs); next_pid := s'.(next_pid) |}
    | SStamped m0 v t =>
        let s' := set_pc s pid p (Done v) in
        {| clock := s'.(clock); src := s'.(src); entry := Some s.(next_inode);
           inodes := upd s'.(inodes) s.(next_inode) t; next_inode := S s.(next_inode);
           procs := s'.(procs); next_pid := s'.(next_pid) |}
    | Done _ => tick s
    end.

  Definition is_done (c : pc) : bool := match c with Done _ => true | _ => false end.

  Definition step (s : st) (e : event) : st :=
    match e with
    | Spawn =>
        {| clock := S s.(clock); src := s.(src); entry := s.(entry); inodes := s.(inodes);
           next_inode := s.(next_inode);
           procs := upd s.(procs) s.(next_pid) {| p_pc := Start; p_seen := [s.(src)]; p_alive := true |};
           next_pid := S s.(next_pid) |}
    | Step pid => match s.(procs) pid with
                  | Some p => if p.(p_alive) then proc_step s pid p else tick s
                  | None => tick s
                  end
    | Modify =>
        (* new version, mtime = now; it becomes "current during" every running operation *)
        {| clock := S s.(clock); src := s.(clock); entry := s.(entry); inodes := s.(inodes);
           next_inode := s.(next_inode);
           procs := fun k => match s.(procs) k with
                             | Some p => Some (if p.(p_alive) && negb (is_done p.(p_pc))
                                               then {| p_pc := p.(p_pc); p_seen := s.(clock) :: p.(p_seen); p_alive := true |}
                                               else p)
                             | None => None
                             end;
           next_pid := s.(next_pid) |}
    | Kill pid => match s.(procs) pid with
                  | Some p => {| clock := S s.(clock); src := s.(src); entry := s.(entry); inodes := s.(inodes);
                                 next_inode := s.(next_inode);
                                 procs := upd s.(procs) pid {| p_pc := p.(p_pc); p_seen := p.(p_seen); p_alive := false |};
                                 next_pid := s.(next_pid) |}
                  | None => tick s
                  end
    | Unlink => {| clock := S s.(clock); src := s.(src); entry := None; inodes := s.(inodes);
                   next_inode := s.(next_inode); procs := s.(procs); next_pid := s.(next_pid) |}
    | Garbage => (* an unreadable / truncated file under the entry name, with any (here: fresh) mtime *)
        {| clock := S s.(clock); src := s.(src); entry := Some s.(next_inode);
           inodes := upd s.(inodes) s.(next_inode) {| payload := 0; stamp := s.(clock); complete := false |};
           next_inode := S s.(next_inode); procs := s.(procs); next_pid := s.(next_pid) |}
    end.

  Definition run (evs : list event) : st := fold_left step evs init.
End Protocol.

(* observable of a run: the result of each process, if it finished *)
Definition result_of (s : st) (pid : nat) : option nat :=
  match s.(procs) pid with
  | Some p => match p.(p_pc) with Done r => Some r | _ => None end
  | None => None
  end.
Definition seen_of (s : st) (pid : nat) : list nat :=
  match s.(procs) pid with Some p => p.(p_seen) | None => [] end.
