From Coq Require Import List NArith Bool String Ascii.
From GIV.Lib Require Import Regex Str.
From GIV.Model Require Import C02 C02Spec C16 C12.
Import ListNotations.
Local Open Scope N_scope.

Definition rtype_eqb (a b : rtype) : bool :=
  match a, b with
  | RFund x, RFund y | RNamed x, RNamed y | RArray x, RArray y => str_eqb x y
  | RStrv, RStrv | RHash, RHash | RByteArray, RByteArray | RUnknown, RUnknown => true
  | _, _ => false
  end.
Definition pflags_eqb (a b : pflags) : bool :=
  Bool.eqb (pf_readable a) (pf_readable b) && Bool.eqb (pf_writable a) (pf_writable b)
  && Bool.eqb (pf_construct a) (pf_construct b) && Bool.eqb (pf_construct_only a) (pf_construct_only b).
Definition oprop_eqb (a b : oprop) : bool :=
  str_eqb (op_name a) (op_name b) && pflags_eqb (op_flags a) (op_flags b) && rtype_eqb (op_type a) (op_type b)
  && ostr_eqb (op_default a) (op_default b).
Definition flags4_eqb (a b : bool * bool * bool * bool) : bool :=
  let '(a1, a2, a3, a4) := a in let '(b1, b2, b3, b4) := b in
  Bool.eqb a1 b1 && Bool.eqb a2 b2 && Bool.eqb a3 b3 && Bool.eqb a4 b4.
Definition osig_eqb (a b : osig) : bool :=
  str_eqb (os_name a) (os_name b) && ostr_eqb (os_when a) (os_when b) && flags4_eqb (os_flags a) (os_flags b)
  && rtype_eqb (os_return a) (os_return b)
  && all2 (fun x y => str_eqb (fst x) (fst y) && rtype_eqb (snd x) (snd y)) (os_params a) (os_params b).
Definition oclass_eqb (a b : oclass) : bool :=
  str_eqb (oc_local a) (oc_local b) && Bool.eqb (oc_is_class a) (oc_is_class b) && ostr_eqb (oc_parent a) (oc_parent b)
  && str_eqb (oc_gtype a) (oc_gtype b) && str_eqb (oc_get_type a) (oc_get_type b)
  && ostr_eqb (oc_symbol_prefix a) (oc_symbol_prefix b) && ostr_eqb (oc_type_struct a) (oc_type_struct b)
  && Bool.eqb (oc_abstract a) (oc_abstract b) && Bool.eqb (oc_final a) (oc_final b)
  && all2 rtype_eqb (oc_ifaces a) (oc_ifaces b) && all2 oprop_eqb (oc_props a) (oc_props b)
  && all2 osig_eqb (oc_sigs a) (oc_sigs b) && all2 str_eqb (oc_vfuncs a) (oc_vfuncs b).
Definition orec_eqb (a b : orec) : bool :=
  str_eqb (or_name a) (or_name b) && ostr_eqb (or_gtype a) (or_gtype b) && ostr_eqb (or_get_type a) (or_get_type b)
  && ostr_eqb (or_symbol_prefix a) (or_symbol_prefix b) && ostr_eqb (or_struct_for a) (or_struct_for b).

Record mcase := { m_id : N; m_includes : known; m_recs : list wrecord; m_dump : list dtype; m_funcs : list str;
                  m_obs_classes : list oclass;      (* in the order of the dump *)
                  m_obs_recs : list orec;           (* in the order of m_recs *)
                  m_obs_funcs : list str            (* sorted, as written *) }.

Definition ns_prefix0 : str := s "foo_".
Definition m_diff (c : mcase) : list N :=
  (if all2 oclass_eqb (merge ns_prefix0 (m_includes c) (m_recs c) (m_dump c)) (m_obs_classes c) then [] else [1])
  ++ (if all2 orec_eqb (map (merge_record ns_prefix0 (m_recs c) (m_dump c)) (m_recs c)) (m_obs_recs c) then [] else [2])
  ++ (if all2 str_eqb (sort_names (remaining_functions (m_funcs c) (m_dump c))) (m_obs_funcs c) then [] else [3]).
Definition m_bad (c : mcase) : bool := match m_diff c with [] => false | _ => true end.
