From Coq Require Import List Arith NArith Bool String.
From GIV.Lib Require Import Regex Str Backtrack.
From GIV.Gen Require Import AnnNames UnicodeRe BlockRegex.
From GIV.Model Require Import C02 C10.
Import ListNotations.
Local Open Scope N_scope.

(* The line-level state machine of giscanner/annotationparser.py:
   GtkDocCommentBlockParser.parse_comment_block with everything it calls (_parse_annotations, _parse_annotation,
   _parse_annotation_options_*, _parse_fields, _clean_description_field), diagnostics included.
   The fifteen regular expressions are Gen/BlockRegex.v (translated from the compiled pattern objects on every run) and are
   executed by Lib/Backtrack.bm with CPython's priorities; the character tables are Gen/UnicodeRe.v.
   validate() is Model/C10V.v. *)

(* ------------------------------------------------------------------ small string helpers *)
Definition gspan (id : nat) (cs : caps) : nat * nat := match Backtrack.lookup id cs with Some se => se | None => (0, 0)%nat end.
Definition gstart (id : nat) (cs : caps) : nat := fst (gspan id cs).
Definition gend (id : nat) (cs : caps) : nat := snd (gspan id cs).
Definition gtext (id : nat) (x : str) (cs : caps) : str := slice x (gstart id cs) (gend id cs).
Definition nonempty (x : str) : bool := match x with [] => false | _ => true end.
Definition rstrip (x : str) : str := rev (lstrip (rev x)).

Fixpoint assoc_n {A : Type} (c : N) (t : list (N * A)) : option A :=
  match t with
  | [] => None
  | (k, v) :: r => if N.eqb k c then Some v else assoc_n c r
  end.
(* str.lower(), code point by code point (table generated from the running interpreter; ASCII by arithmetic) *)
Definition py_lower_char (c : N) : str :=
  if N.ltb c 128 then [ascii_lower c] else match assoc_n c py_lower_table with Some l => l | None => [c] end.
Definition py_lower (x : str) : str := flat_map py_lower_char x.
(* str.capitalize() *)
Definition py_capitalize (x : str) : str :=
  match x with
  | [] => []
  | c :: t => (match assoc_n c py_title_table with Some l => l | None => [c] end) ++ py_lower t
  end.

(* re.sub(LINE_BREAK_RE, '\n', comment).split('\n')  with LINE_BREAK_RE = \r\n|\r|\n (checked by the translator) *)
Fixpoint split_breaks_aux (x cur : str) (after_cr : bool) : list str :=
  match x with
  | [] => [rev cur]
  | c :: t =>
      if N.eqb c 13 then rev cur :: split_breaks_aux t [] true
      else if N.eqb c 10 then (if after_cr then split_breaks_aux t cur false else rev cur :: split_breaks_aux t [] false)
      else split_breaks_aux t (c :: cur) false
  end.
Definition split_breaks (x : str) : list str := split_breaks_aux x [] false.

Fixpoint find_index (c : N) (x : str) (i : nat) : option nat :=
  match x with
  | [] => None
  | d :: t => if N.eqb d c then Some i else find_index c t (S i)
  end.
Definition replace_char (a b : N) (x : str) : str := map (fun c => if N.eqb c a then b else c) x.
Definition colon : N := 58.
Definition nl : N := 10.

(* ------------------------------------------------------------------ diagnostics *)
(* dg_code identifies the message (the harness maps the message text to the same numbers):
    1 skipping single-line block    2 start token preceded by code   3 start token followed by text
    4 end token followed by code    5 end token preceded by text     6 invalid comment text
    7 missing ":" (identifier)      8 identifier not found           9 parameter unexpected here
   10 multiple Returns (parameter) 11 @Varargs deprecated           12 multiple @parameters
   13 annotation tag deprecated    14 malformed Attributes: tag     15 duplicate Attributes:
   16 Description: deprecated      17 tag unexpected here           18 multiple return values (tag)
   19 multiple tags                20 annotations on a tag          21 list annotation got key=value
   22 in-out deprecated            23 (attribute) deprecated        24 malformed (attribute)
   25 unexpected parentheses       26 unbalanced parentheses        27 multiple annotations
   28 missing ":" (fields) *)
Record diag := { dg_err : bool; dg_code : nat; dg_line : nat; dg_col : option nat; dg_quoted : option str }.
Definition mkd (e : bool) (code ln : nat) (col : nat) (q : str) : diag :=
  {| dg_err := e; dg_code := code; dg_line := ln; dg_col := Some col; dg_quoted := Some q |}.
Definition mkd0 (e : bool) (code ln : nat) : diag :=
  {| dg_err := e; dg_code := code; dg_line := ln; dg_col := None; dg_quoted := None |}.

(* ------------------------------------------------------------------ annotations of one field *)
Definition anns := list (str * avalue).
Definition has_key (a : anns) (k : str) : bool := existsb (fun kv => str_eqb (fst kv) k) a.

(* _parse_annotation_options_list *)
Definition opts_list_d (ln : nat) (q : str) (column : nat) (o : option str) : list str * list diag :=
  match o with
  | None | Some [] => ([], [])
  | Some x => match find_index 61 x 0 with
              | Some r => ([strip x], [mkd false 21 ln (column + r) q])
              | None => (split_sp x [], [])
              end
  end.

(* _parse_annotation: None when the annotation is dropped (malformed deprecated (attribute)) *)
Definition finish_annotation (ln : nat) (q : str) (column : nat) (name : str) (rest : option str) (ds : list diag)
  : option (str * avalue) * list diag :=
  let column' := (column + List.length name + 2)%nat in
  if existsb (str_eqb name) list_annotations then
    let '(l, dl) := opts_list_d ln q column' rest in (Some (name, AList l), ds ++ dl)
  else if existsb (str_eqb name) dict_annotations then (Some (name, ADict (parse_options_dict rest)), ds)
  else (Some (name, match rest with None | Some [] => ANone | Some x => AList [strip x] end), ds).

Definition parse_annotation_d (ln : nat) (q : str) (column : nat) (annotation : str) : option (str * avalue) * list diag :=
  let text' := replace_char 62 rpar (replace_char 60 lpar annotation) in
  let '(n0, rest) := split1 sp text' [] in
  let name := py_lower n0 in
  if str_eqb name ann_inout_alt then finish_annotation ln q column ann_inout rest [mkd false 22 ln column q]
  else if str_eqb name ann_attribute then
    let '(l, dl) := opts_list_d ln q column rest in
    let ds := mkd false 23 ln column q :: dl in
    match l with
    | [a] => finish_annotation ln q column ann_attributes (Some a) ds
    | [a; b] => finish_annotation ln q column ann_attributes (Some (a ++ [61] ++ b)) ds
    | _ => (None, ds ++ [mkd true 24 ln column q])
    end
  else finish_annotation ln q column name rest [].

(* the character loop of _parse_annotations; popt = parse_options *)
Record pas := { pa_level : nat; pa_prev : option N; pa_buf : str (* reversed *); pa_start : nat; pa_end : nat;
                pa_anns : anns; pa_raws : list str; pa_changed : bool; pa_diags : list diag }.
Inductive pa_res := PAok (st : pas) | PAfail (ds : list diag).

Fixpoint pa_loop (popt : bool) (ln : nat) (q : str) (column : nat) (x : str) (i : nat) (st : pas) : pa_res :=
  match x with
  | [] => PAok st
  | c :: t =>
      let prev_lpar := match pa_prev st with Some p => N.eqb p lpar | None => false end in
      if N.eqb c lpar then
        let lvl := S (pa_level st) in
        if prev_lpar then PAfail (pa_diags st ++ [mkd true 25 ln (column + i) q])
        else pa_loop popt ln q column t (S i)
               {| pa_level := lvl; pa_prev := Some c; pa_buf := if Nat.ltb 1 lvl then c :: pa_buf st else pa_buf st;
                  pa_start := if Nat.eqb lvl 1 then i else pa_start st; pa_end := pa_end st; pa_anns := pa_anns st;
                  pa_raws := pa_raws st; pa_changed := pa_changed st; pa_diags := pa_diags st |}
      else if N.eqb c rpar then
        if prev_lpar then PAfail (pa_diags st ++ [mkd true 25 ln (column + i) q])
        else match pa_level st with
             | O => PAfail (pa_diags st ++ [mkd true 26 ln (column + i) q])
             | S O =>
                 let body := strip (rev (pa_buf st)) in
                 if popt then
                   let '(r, ds) := parse_annotation_d ln q (column + pa_start st) body in
                   match r with
                   | Some (name, v) =>
                       let dup := if has_key (pa_anns st) name then [mkd true 27 ln (column + i) q] else [] in
                       pa_loop popt ln q column t (S i)
                         {| pa_level := 0; pa_prev := Some c; pa_buf := []; pa_start := pa_start st; pa_end := S i;
                            pa_anns := ann_set (pa_anns st) name v; pa_raws := pa_raws st; pa_changed := true;
                            pa_diags := pa_diags st ++ ds ++ dup |}
                   | None =>
                       pa_loop popt ln q column t (S i)
                         {| pa_level := 0; pa_prev := Some c; pa_buf := []; pa_start := pa_start st; pa_end := S i;
                            pa_anns := pa_anns st; pa_raws := pa_raws st; pa_changed := pa_changed st;
                            pa_diags := pa_diags st ++ ds |}
                   end
                 else
                   pa_loop popt ln q column t (S i)
                     {| pa_level := 0; pa_prev := Some c; pa_buf := []; pa_start := pa_start st; pa_end := S i;
                        pa_anns := pa_anns st; pa_raws := pa_raws st ++ [body]; pa_changed := true; pa_diags := pa_diags st |}
             | S l =>
                 pa_loop popt ln q column t (S i)
                   {| pa_level := l; pa_prev := Some c; pa_buf := c :: pa_buf st; pa_start := pa_start st; pa_end := pa_end st;
                      pa_anns := pa_anns st; pa_raws := pa_raws st; pa_changed := pa_changed st; pa_diags := pa_diags st |}
             end
      else if is_space c then
        pa_loop popt ln q column t (S i)
          {| pa_level := pa_level st; pa_prev := Some c; pa_buf := if Nat.ltb 0 (pa_level st) then c :: pa_buf st else pa_buf st;
             pa_start := pa_start st; pa_end := pa_end st; pa_anns := pa_anns st; pa_raws := pa_raws st;
             pa_changed := pa_changed st; pa_diags := pa_diags st |}
      else match pa_level st with
           | O => PAok st                                 (* break: the description starts here *)
           | _ => pa_loop popt ln q column t (S i)
                    {| pa_level := pa_level st; pa_prev := Some c; pa_buf := c :: pa_buf st; pa_start := pa_start st;
                       pa_end := pa_end st; pa_anns := pa_anns st; pa_raws := pa_raws st; pa_changed := pa_changed st;
                       pa_diags := pa_diags st |}
           end
  end.

(* _ParseAnnotationsResult *)
Record pa_out := { po_success : bool; po_anns : anns; po_apos : option nat; po_raws : list str; po_changed : bool;
                   po_end : nat; po_diags : list diag }.
Definition pa_failed (ds : list diag) : pa_out :=
  {| po_success := false; po_anns := []; po_apos := None; po_raws := []; po_changed := false; po_end := 0; po_diags := ds |}.

(* existing = the annotations the part already has, with the line they are positioned at *)
Definition parse_annotations_d (popt : bool) (ln : nat) (q : str) (column : nat) (fields : str) (existing : option (anns * option nat)) : pa_out :=
  let a0 := match existing with Some (a, _) => a | None => [] end in
  let apos := match existing with Some (_, Some p) => Some p | _ => Some ln end in
  let st0 := {| pa_level := 0; pa_prev := None; pa_buf := []; pa_start := 0; pa_end := 0; pa_anns := a0; pa_raws := [];
                pa_changed := false; pa_diags := [] |} in
  match pa_loop popt ln q column fields 0 st0 with
  | PAfail ds => pa_failed ds
  | PAok st =>
      match pa_level st with
      | O => {| po_success := true; po_anns := pa_anns st; po_apos := apos; po_raws := pa_raws st; po_changed := pa_changed st;
                po_end := pa_end st; po_diags := pa_diags st |}
      | _ => pa_failed (pa_diags st ++ [mkd true 26 ln (column + (List.length fields - 1)) q])
      end
  end.

(* _parse_fields: (result of _parse_annotations, description field) *)
Definition parse_fields_d (popt validate_desc : bool) (ln : nat) (q : str) (column : nat) (fields : str) (existing : option (anns * option nat))
  : pa_out * str :=
  let r := parse_annotations_d popt ln q column fields existing in
  if po_success r then
    let d := strip (skipn (po_end r) fields) in
    match d with
    | [] => (r, [])
    | c :: t =>
        if validate_desc && Nat.ltb 0 (po_end r) then
          if N.eqb c colon then (r, t)
          else ({| po_success := true; po_anns := po_anns r; po_apos := po_apos r; po_raws := po_raws r; po_changed := po_changed r;
                   po_end := po_end r; po_diags := po_diags r ++ [mkd false 28 ln (column + po_end r) q] |}, d)
        else (r, d)
    end
  else (r, []).

(* ------------------------------------------------------------------ the block *)
Record part := { pt_name : str; pt_line : nat; pt_anns : anns; pt_apos : option nat; pt_desc : option str; pt_value : option str }.
Record blk := { bk_name : str; bk_line : nat; bk_anns : anns; bk_apos : option nat; bk_params : list part; bk_desc : option str;
                bk_tags : list part; bk_code_before : str; bk_code_after : str }.

Definition new_part (name : str) (ln : nat) : part :=
  {| pt_name := name; pt_line := ln; pt_anns := []; pt_apos := None; pt_desc := None; pt_value := None |}.
(* OrderedDict assignment: an existing key keeps its place *)
Fixpoint part_set (l : list part) (p : part) : list part :=
  match l with
  | [] => [p]
  | a :: t => if str_eqb (pt_name a) (pt_name p) then p :: t else a :: part_set t p
  end.
Fixpoint part_get (l : list part) (k : str) : option part :=
  match l with
  | [] => None
  | a :: t => if str_eqb (pt_name a) k then Some a else part_get t k
  end.
Definition part_has (l : list part) (k : str) : bool := match part_get l k with Some _ => true | None => false end.
Definition truthy (o : option str) : bool := match o with Some (_ :: _) => true | _ => false end.
Definition add_line (o : option str) (line : str) : option str :=
  match o with None => Some line | Some d => Some (d ++ nl :: line) end.

(* a part built from a fields string: `if fields: r = _parse_fields(...); if r.success: annotations, description = ...` *)
Definition part_with_fields (p : part) (ln : nat) (q : str) (column : nat) (fields : str) : part * list diag :=
  match fields with
  | [] => (p, [])
  | _ =>
      let '(r, d) := parse_fields_d true true ln q column fields None in
      if po_success r then
        ({| pt_name := pt_name p; pt_line := pt_line p; pt_anns := po_anns r; pt_apos := po_apos r; pt_desc := Some d; pt_value := pt_value p |},
         po_diags r)
      else (p, po_diags r)
  end.

Inductive pk := PIdent | PParams | PDesc | PTags.
Definition pk_eqb (a b : pk) : bool :=
  match a, b with PIdent, PIdent | PParams, PParams | PDesc, PDesc | PTags, PTags => true | _, _ => false end.
Inductive curpart := CurNone | CurParam (n : str) | CurTag (n : str).

Record lst := { l_blk : option blk; l_warned : bool; l_indent : list str (* reversed *); l_pindent : nat; l_part : option pk;
                l_cur : curpart; l_rseen : bool; l_diags : list diag; l_exc : bool (* CPython would raise here *) }.

(* the identifier line *)
Record ident := { id_name : str; id_delim : option str; id_fields : option str; id_fstart : nat; id_dstart : nat }.
Definition ident4 (line : str) (cs : caps) (sep : str) (g1 g2 gd gf : nat) : ident :=
  {| id_name := gtext g1 line cs ++ sep ++ gtext g2 line cs; id_delim := Some (gtext gd line cs);
     id_fields := Some (gtext gf line cs); id_fstart := gstart gf cs; id_dstart := gstart gd cs |}.
Definition match_ident (line : str) : option ident :=
  match bmatch re_section line with
  | Some cs => Some {| id_name := s "SECTION:"%string ++ gtext g_section_section_name line cs; id_delim := None; id_fields := None;
                       id_fstart := 0; id_dstart := 0 |}
  | None =>
  match bmatch re_property line with
  | Some cs => Some (ident4 line cs [colon] g_property_class_name g_property_property_name g_property_delimiter g_property_fields)
  | None =>
  match bmatch re_signal line with
  | Some cs => Some (ident4 line cs [colon; colon] g_signal_class_name g_signal_signal_name g_signal_delimiter g_signal_fields)
  | None =>
  match bmatch re_action line with
  | Some cs => Some {| id_name := s "ACTION:"%string ++ gtext g_action_class_name line cs ++ [colon] ++ gtext g_action_action_name line cs;
                       id_delim := None; id_fields := None; id_fstart := 0; id_dstart := 0 |}
  | None =>
  match bmatch re_field line with
  | Some cs => Some (ident4 line cs [46] g_field_class_name g_field_field_name g_field_delimiter g_field_fields)
  | None =>
  match bmatch re_symbol line with
  | Some cs => Some {| id_name := gtext g_symbol_symbol_name line cs; id_delim := Some (gtext g_symbol_delimiter line cs);
                       id_fields := Some (gtext g_symbol_fields line cs); id_fstart := gstart g_symbol_fields cs;
                       id_dstart := gstart g_symbol_delimiter cs |}
  | None => None
  end end end end end end.

Definition set_blk (st : lst) (b : blk) : lst :=
  {| l_blk := Some b; l_warned := l_warned st; l_indent := l_indent st; l_pindent := l_pindent st; l_part := l_part st; l_cur := l_cur st;
     l_rseen := l_rseen st; l_diags := l_diags st; l_exc := l_exc st |}.
Definition add_diags (st : lst) (ds : list diag) : lst :=
  {| l_blk := l_blk st; l_warned := l_warned st; l_indent := l_indent st; l_pindent := l_pindent st; l_part := l_part st; l_cur := l_cur st;
     l_rseen := l_rseen st; l_diags := l_diags st ++ ds; l_exc := l_exc st |}.
Definition blk_with (b : blk) (a : anns) (apos : option nat) (params : list part) (desc : option str) (tags : list part) : blk :=
  {| bk_name := bk_name b; bk_line := bk_line b; bk_anns := a; bk_apos := apos; bk_params := params; bk_desc := desc; bk_tags := tags;
     bk_code_before := bk_code_before b; bk_code_after := bk_code_after b |}.
Definition part_with (p : part) (a : anns) (apos : option nat) (desc : option str) (value : option str) : part :=
  {| pt_name := pt_name p; pt_line := pt_line p; pt_anns := a; pt_apos := apos; pt_desc := desc; pt_value := value |}.

(* tabs count as two columns *)
Definition indent_width (x : str) : nat := fold_left (fun n c => if N.eqb c 9 then (n + 2)%nat else S n) x 0%nat.
Definition ends_dots (x : str) : bool := endswith [46; 46; 46] x.
Definition is_empty_line (x : str) : bool := match bmatch re_empty x with Some _ => true | None => false end.
Definition ann_truthy (v : avalue) : bool := match v with AList (_ :: _) | ADict (_ :: _) => true | _ => false end.
Fixpoint ann_get (a : anns) (k : str) : option avalue :=
  match a with [] => None | (n, v) :: t => if str_eqb n k then Some v else ann_get t k end.

(* the deprecated "Attributes: (a b) (c d)" tag: the text handed to _parse_annotation, or None when malformed *)
Fixpoint attributes_transform (ln : nat) (qline : str) (marker : nat) (raws : list str) (acc : str) : option str * list diag :=
  match raws with
  | [] => (Some acc, [])
  | a :: t =>
      let '(opts, dl) := opts_list_d ln qline marker (Some a) in
      match opts with
      | [o] => let '(r, ds) := attributes_transform ln qline marker t (acc ++ sp :: o) in (r, dl ++ ds)
      | [o1; o2] => let '(r, ds) := attributes_transform ln qline marker t (acc ++ sp :: o1 ++ [61] ++ o2) in (r, dl ++ ds)
      | _ => (None, dl)
      end
  end.

(* what the prelude of one loop iteration computes: the source line, the text behind the asterisk, the column at which
   that text starts, the indentation behind the asterisk *)
Record lctx := { cx_ln : nat; cx_orig : str; cx_line : str; cx_co : nat; cx_indent : nat }.

(* ---- the identifier *)
Definition step_ident (cx : lctx) (code_before code_after : str) (block_line : nat) (st : lst) : lst :=
  let ln := cx_ln cx in let original := cx_orig cx in let line := cx_line cx in let column_offset := cx_co cx in
  let not_found (ds : list diag) : lst :=
    {| l_blk := None; l_warned := true; l_indent := l_indent st; l_pindent := l_pindent st; l_part := None; l_cur := l_cur st;
       l_rseen := l_rseen st;
       l_diags := l_diags st ++ ds ++ (if l_warned st then [] else [mkd true 8 ln column_offset original]); l_exc := l_exc st |} in
  match match_ident line with
  | None => not_found []
  | Some idn =>
      let b0 := {| bk_name := id_name idn; bk_line := block_line; bk_anns := []; bk_apos := None; bk_params := []; bk_desc := None;
                   bk_tags := []; bk_code_before := code_before; bk_code_after := code_after |} in
      let found (b : blk) (ds : list diag) : lst :=
        {| l_blk := Some b; l_warned := l_warned st; l_indent := l_indent st; l_pindent := cx_indent cx; l_part := Some PIdent;
           l_cur := l_cur st; l_rseen := l_rseen st; l_diags := l_diags st ++ ds; l_exc := l_exc st |} in
      match id_fields idn with
      | Some (fc :: ft) =>
          let f := fc :: ft in
          let r := parse_annotations_d true ln original (column_offset + id_fstart idn) f None in
          if po_success r then
            if nonempty (strip (skipn (po_end r) f)) then not_found (po_diags r)
            else
              let w := match id_delim idn, po_anns r with
                       | (None | Some []), _ :: _ => [mkd false 7 ln (column_offset + id_dstart idn) original]
                       | _, _ => []
                       end in
              found (blk_with b0 (po_anns r) (po_apos r) [] None []) (po_diags r ++ w)
          else found b0 (po_diags r)
      | _ => found b0 []
      end
  end.

(* ---- a parameter *)
Definition step_param (cx : lctx) (cs : caps) (b : blk) (st : lst) : lst :=
  let ln := cx_ln cx in let original := cx_orig cx in let line := cx_line cx in let column_offset := cx_co cx in
  let pname := gtext g_parameter_parameter_name line cs in
  let pfields := gtext g_parameter_fields line cs in
  let fcol := (column_offset + gstart g_parameter_fields cs)%nat in
  let marker := (gstart g_parameter_parameter_name cs + column_offset)%nat in
  let d9 := match l_part st with
            | Some PIdent | Some PParams => []
            | _ => [mkd false 9 ln marker original]
            end in
  if str_eqb (py_lower pname) tag_returns then
    let d10 := if l_rseen st then [mkd0 true 10 ln] else [] in
    let '(tag, ds) := part_with_fields (new_part tag_returns ln) ln original fcol pfields in
    {| l_blk := Some (blk_with b (bk_anns b) (bk_apos b) (bk_params b) (bk_desc b) (part_set (bk_tags b) tag));
       l_warned := l_warned st; l_indent := l_indent st; l_pindent := cx_indent cx; l_part := Some PParams; l_cur := CurTag tag_returns;
       l_rseen := true; l_diags := l_diags st ++ d9 ++ d10 ++ ds; l_exc := l_exc st |}
  else
    let varargs := str_eqb pname (s "Varargs"%string) || (ends_dots pname && negb (str_eqb pname [46; 46; 46])) in
    let d11 := if varargs then [mkd false 11 ln marker original] else [] in
    let pname' := if varargs then [46; 46; 46] else pname in
    let d12 := if part_has (bk_params b) pname' then [mkd true 12 ln marker original] else [] in
    let '(p, ds) := part_with_fields (new_part pname' ln) ln original fcol pfields in
    {| l_blk := Some (blk_with b (bk_anns b) (bk_apos b) (part_set (bk_params b) p) (bk_desc b) (bk_tags b));
       l_warned := l_warned st; l_indent := l_indent st; l_pindent := cx_indent cx; l_part := Some PParams; l_cur := CurParam pname';
       l_rseen := l_rseen st; l_diags := l_diags st ++ d9 ++ d11 ++ d12 ++ ds; l_exc := l_exc st |}.

(* ---- a deprecated tag that stands for an annotation ("Transfer: full", "Attributes: (a b)") *)
Definition step_deprecated_tag (cx : lctx) (cs : caps) (b : blk) (st : lst) : lst :=
  let ln := cx_ln cx in let original := cx_orig cx in let line := cx_line cx in let column_offset := cx_co cx in
  let tlow := py_lower (gtext g_tag_tag_name line cs) in
  let tfields := gtext g_tag_fields line cs in
  let fcol := (column_offset + gstart g_tag_fields cs)%nat in
  let marker := (gstart g_tag_tag_name cs + column_offset)%nat in
  let d13 := mkd false 13 ln marker original in
  let ann_name := replace_char sp 45 tlow in
  if str_eqb tlow tag_attributes then
    let '(r, _) := parse_fields_d false false ln line marker (strip tfields) None in
    if po_success r then
      let '(tr, dt) := attributes_transform ln line marker (po_raws r) [] in
      match tr with
      | None => add_diags st (d13 :: po_diags r ++ dt ++ [mkd true 14 ln marker original])
      | Some [] => add_diags st (d13 :: po_diags r ++ dt)
      | Some t =>
          let '(pa, da) := parse_annotation_d ln original fcol (ann_name ++ sp :: strip t) in
          match pa with
          | Some (nm, v) =>
              if match ann_get (bk_anns b) ann_attributes with Some v0 => ann_truthy v0 | None => false end then
                add_diags st (d13 :: po_diags r ++ dt ++ da ++ [mkd true 15 ln marker original])
              else
                add_diags (set_blk st (blk_with b (ann_set (bk_anns b) nm v)
                                                  (match bk_apos b with None => Some ln | x => x end)
                                                  (bk_params b) (bk_desc b) (bk_tags b)))
                          (d13 :: po_diags r ++ dt ++ da)
          | None => add_diags st (d13 :: po_diags r ++ dt ++ da)
          end
      end
    else add_diags st (d13 :: po_diags r)
  else
    let '(pa, da) := parse_annotation_d ln line fcol (ann_name ++ sp :: tfields) in
    match pa with
    | Some (nm, v) =>
        add_diags (set_blk st (blk_with b (ann_set (bk_anns b) nm v) (match bk_apos b with None => Some ln | x => x end)
                                          (bk_params b) (bk_desc b) (bk_tags b))) (d13 :: da)
    | None => add_diags st (d13 :: da)
    end.

(* ---- a tag that is not a return value: Since, Deprecated, Stability (value and description), anything else (name only) *)
Definition plain_tag_part (ln : nat) (original : str) (fcol : nat) (tlow tfields : str) : part * list diag * bool :=
  let tag0 := new_part tlow ln in
        match tfields with
        | [] => (tag0, [], false)
        | _ =>
            let '(r, d) := parse_fields_d true true ln original fcol tfields None in
            if po_success r then
              let d20 := match po_anns r with [] => [] | _ => [mkd0 true 20 ln] end in
              if str_eqb tlow tag_deprecated || str_eqb tlow tag_since then
                match bmatch re_tagver d with
                | Some c2 => (part_with tag0 [] None (Some (gtext g_tagver_description d c2)) (Some (gtext g_tagver_value d c2)),
                              po_diags r ++ d20, false)
                | None => (tag0, po_diags r ++ d20, true)
                end
              else if str_eqb tlow tag_stability then
                match bmatch re_tagstab d with
                | Some c2 => (part_with tag0 [] None (Some (gtext g_tagstab_description d c2))
                                        (Some (py_capitalize (gtext g_tagstab_value d c2))),
                              po_diags r ++ d20, false)
                | None => (tag0, po_diags r ++ d20, true)
                end
              else (tag0, po_diags r ++ d20, false)
            else (tag0, po_diags r, false)
        end.

(* ---- a tag *)
Definition step_tag (cx : lctx) (cs : caps) (b : blk) (st0 : lst) : lst :=
  let ln := cx_ln cx in let original := cx_orig cx in let line := cx_line cx in let column_offset := cx_co cx in
  let tname := gtext g_tag_tag_name line cs in
  let tlow := py_lower tname in
  let tfields := gtext g_tag_fields line cs in
  let fcol := (column_offset + gstart g_tag_fields cs)%nat in
  let marker := (gstart g_tag_tag_name cs + column_offset)%nat in
  let st := {| l_blk := l_blk st0; l_warned := l_warned st0; l_indent := l_indent st0; l_pindent := cx_indent cx; l_part := l_part st0;
               l_cur := l_cur st0; l_rseen := l_rseen st0; l_diags := l_diags st0; l_exc := l_exc st0 |} in
  if existsb (str_eqb tlow) deprecated_ann_tags then step_deprecated_tag cx cs b st
  else if str_eqb tlow tag_description then
    {| l_blk := Some (blk_with b (bk_anns b) (bk_apos b) (bk_params b) (add_line (bk_desc b) tfields) (bk_tags b));
       l_warned := l_warned st; l_indent := l_indent st; l_pindent := l_pindent st; l_part := Some PDesc; l_cur := l_cur st;
       l_rseen := l_rseen st; l_diags := l_diags st ++ [mkd false 16 ln marker original]; l_exc := l_exc st |}
  else
    let expected := match l_part st with
                    | Some PDesc => true
                    | Some PParams => negb (truthy (bk_desc b))
                    | Some PIdent => match bk_params b with [] => negb (truthy (bk_desc b)) | _ => false end
                    | Some PTags => true
                    | None => false
                    end in
    let d17 := if expected then [] else [mkd false 17 ln marker original] in
    if existsb (str_eqb tlow) return_tag_names then
      let d18 := if l_rseen st then [mkd0 true 18 ln] else [] in
      let '(tag, ds) := part_with_fields (new_part tag_returns ln) ln original fcol tfields in
      {| l_blk := Some (blk_with b (bk_anns b) (bk_apos b) (bk_params b) (bk_desc b) (part_set (bk_tags b) tag));
         l_warned := l_warned st; l_indent := l_indent st; l_pindent := l_pindent st; l_part := Some PTags; l_cur := CurTag tag_returns;
         l_rseen := true; l_diags := l_diags st ++ d17 ++ d18 ++ ds; l_exc := l_exc st |}
    else
      let d19 := if part_has (bk_tags b) tlow then [mkd true 19 ln marker original] else [] in
      let '(tag, ds, exc) := plain_tag_part ln original fcol tlow tfields in
      {| l_blk := Some (blk_with b (bk_anns b) (bk_apos b) (bk_params b) (bk_desc b) (part_set (bk_tags b) tag));
         l_warned := l_warned st; l_indent := l_indent st; l_pindent := l_pindent st; l_part := Some PTags; l_cur := CurTag tlow;
         l_rseen := l_rseen st; l_diags := l_diags st ++ d17 ++ d19 ++ ds; l_exc := l_exc st || exc |}.

(* ---- a continuation line of the identifier, the description, a parameter or a tag *)
Definition step_cont (cx : lctx) (b : blk) (st : lst) : lst :=
  let ln := cx_ln cx in let original := cx_orig cx in let column_offset := cx_co cx in
  let line := if is_empty_line (cx_line cx) then cx_line cx else rstrip (cx_line cx) in
  match l_part st with
  | Some PIdent | Some PDesc | None =>
      let try_anns := negb (truthy (bk_desc b)) && match l_part st with Some PIdent => true | _ => false end in
      let r := parse_annotations_d true ln original column_offset line (Some (bk_anns b, bk_apos b)) in
      if try_anns && po_success r && po_changed r then
        add_diags (set_blk st (blk_with b (po_anns r) (po_apos r) (bk_params b) (bk_desc b) (bk_tags b))) (po_diags r)
      else
        add_diags (set_blk st (blk_with b (bk_anns b) (bk_apos b) (bk_params b) (add_line (bk_desc b) line) (bk_tags b)))
                  (if try_anns then po_diags r else [])
  | Some PParams | Some PTags =>
      let upd (l : list part) (k : str) : list part * list diag :=
        match part_get l k with
        | None => (l, [])
        | Some p =>
            if truthy (pt_desc p) then (part_set l (part_with p (pt_anns p) (pt_apos p) (add_line (pt_desc p) line) (pt_value p)), [])
            else
              let '(r, d) := parse_fields_d true true ln original column_offset line (Some (pt_anns p, pt_apos p)) in
              if po_success r && po_changed r then (part_set l (part_with p (po_anns r) (po_apos r) (Some d) (pt_value p)), po_diags r)
              else (part_set l (part_with p (pt_anns p) (pt_apos p) (add_line (pt_desc p) line) (pt_value p)), po_diags r)
        end in
      match l_cur st with
      | CurParam k => let '(ps, ds) := upd (bk_params b) k in
                      add_diags (set_blk st (blk_with b (bk_anns b) (bk_apos b) ps (bk_desc b) (bk_tags b))) ds
      | CurTag k => let '(ts, ds) := upd (bk_tags b) k in
                    add_diags (set_blk st (blk_with b (bk_anns b) (bk_apos b) (bk_params b) (bk_desc b) ts)) ds
      | CurNone => st
      end
  end.

(* one iteration of the line loop *)
Definition step (code_before code_after : str) (block_line : nat) (ln : nat) (line0 : str) (st : lst) : lst :=
  let bi := match bmatch re_indent line0 with Some cs => gtext g_indent_indentation line0 cs | None => [] end in
  let exc0 := match bmatch re_indent line0 with Some _ => false | None => true end in
  let '(column_offset, d6) :=
    match bmatch re_asterisk line0 with
    | Some cs => (gend 0 cs, if nonempty (gtext g_asterisk_comment line0 cs) then [mkd true 6 ln (gstart g_asterisk_comment cs) line0] else [])
    | None => (0%nat, [])
    end in
  let line := skipn column_offset line0 in
  let line_indent := indent_width (match bmatch re_indent line with Some cs => gtext g_indent_indentation line cs | None => [] end) in
  let cx := {| cx_ln := ln; cx_orig := line0; cx_line := line; cx_co := column_offset; cx_indent := line_indent |} in
  let st := {| l_blk := l_blk st; l_warned := l_warned st; l_indent := bi :: l_indent st; l_pindent := l_pindent st; l_part := l_part st;
               l_cur := l_cur st; l_rseen := l_rseen st; l_diags := l_diags st ++ d6; l_exc := l_exc st || exc0 |} in
  match l_blk st with
  | None => step_ident cx code_before code_after block_line st
  | Some b =>
      match bmatch re_parameter line with
      | Some cs => step_param cx cs b st
      | None =>
          if is_empty_line line && match l_part st with Some PIdent | Some PParams => true | _ => false end then
            (* the empty line that opens the description *)
            {| l_blk := l_blk st; l_warned := l_warned st; l_indent := l_indent st; l_pindent := line_indent; l_part := Some PDesc;
               l_cur := l_cur st; l_rseen := l_rseen st; l_diags := l_diags st; l_exc := l_exc st |}
          else
            match bmatch re_tag line with
            | Some cs => if Nat.leb line_indent (l_pindent st) then step_tag cx cs b st else step_cont cx b st
            | None => step_cont cx b st
            end
      end
  end.

Fixpoint run_lines (code_before code_after : str) (block_line : nat) (ln : nat) (lines : list str) (st : lst) : lst :=
  match lines with
  | [] => st
  | l :: t => run_lines code_before code_after block_line (S ln) t (step code_before code_after block_line (S ln) l st)
  end.

(* _clean_description_field *)
Definition first_line (x : str) : str := fst (split1 nl x []).
Definition clean_description (p : part) : part :=
  match pt_desc p with
  | Some (c :: t) =>
      let d := c :: t in
      if nonempty (strip d) then
        part_with p (pt_anns p) (pt_apos p) (Some (if is_empty_line (first_line d) then rstrip d else strip d)) (pt_value p)
      else part_with p (pt_anns p) (pt_apos p) None (pt_value p)
  | _ => p
  end.

Record outcome := { o_blk : option blk; o_indent : list str; o_diags : list diag; o_exc : bool }.

Definition parse_block (comment : str) (lineno : nat) : outcome :=
  let lines := split_breaks comment in
  let n := List.length lines in
  let first := hd [] lines in
  match bmatch re_start first with
  | None => {| o_blk := None; o_indent := []; o_diags := []; o_exc := false |}
  | Some cs =>
      if Nat.eqb n 1 then
        {| o_blk := None; o_indent := []; o_diags := [mkd true 1 lineno (gend g_start_code cs) first]; o_exc := false |}
      else
        let code_before := gtext g_start_code first cs in
        let cmt := gtext g_start_comment first cs in
        let d2 := if nonempty code_before then [mkd false 2 lineno (gend g_start_code cs) first] else [] in
        let d3 := if nonempty cmt then [mkd false 3 lineno (gstart g_start_comment cs) first] else [] in
        let lines1 := if nonempty cmt then cmt :: tl lines else tl lines in
        let lastl := last lines1 [] in
        match bmatch re_end lastl with
        | None => {| o_blk := None; o_indent := []; o_diags := d2 ++ d3; o_exc := false |}
        | Some ce =>
            let code_after := gtext g_end_code lastl ce in
            let cmt2 := gtext g_end_comment lastl ce in
            let lastno := (lineno + n - 1)%nat in
            let d4 := if nonempty code_after then [mkd false 4 lastno (gend g_end_code ce) lastl] else [] in
            let d5 := if nonempty cmt2 then [mkd false 5 lastno (gend g_end_comment ce) lastl] else [] in
            let lines2 := if nonempty cmt2 then removelast lines1 ++ [cmt2] else removelast lines1 in
            let st0 := {| l_blk := None; l_warned := false; l_indent := []; l_pindent := 0; l_part := None; l_cur := CurNone;
                          l_rseen := false; l_diags := d2 ++ d3 ++ d4 ++ d5; l_exc := false |} in
            let st := run_lines code_before code_after lineno lineno lines2 st0 in
            match l_blk st with
            | None => {| o_blk := None; o_indent := rev (l_indent st); o_diags := l_diags st; o_exc := l_exc st |}
            | Some b =>
                let desc := match bk_desc b with Some (c :: t) => Some (strip (c :: t)) | x => x end in
                {| o_blk := Some (blk_with b (bk_anns b) (bk_apos b) (map clean_description (bk_params b)) desc
                                           (map clean_description (bk_tags b)));
                   o_indent := rev (l_indent st); o_diags := l_diags st; o_exc := l_exc st |}
            end
        end
  end.
