From Coq Require Import List NArith ZArith Bool.
From GIV.Lib Require Import Regex Str.
From GIV.Model Require Import C14.
Import ListNotations.
Local Open Scope N_scope.

Definition mk (name : str) (gt : option str) (dom : option str) : dentry :=
  {| d_name := name; d_registered := match gt with Some _ => true | None => false end; d_gtype_name := gt;
     d_is_enum := match dom with Some _ => true | None => false end; d_error_domain := dom |}.

Definition name_of (o : option (nat * dentry)) : option str := option_map (fun p => d_name (snd p)) o.
Definition oeq (a b : option str) : bool :=
  match a, b with Some x, Some y => str_eqb x y | None, None => true | _, _ => false end.

(* probes: kind 0 = by name, 1 = by GType name, 2 = by error domain; observed result name *)
Record pcase := { p_kind : N; p_arg : str; p_obs_index : option str; p_obs_linear : option str }.
Record tcase := { t_id : N; t_dirs : directory; t_probes : list pcase }.

Definition expected (dir : directory) (p : pcase) : option str :=
  match p.(p_kind) with
  | 0 => name_of (lookup_linear dir p.(p_arg) 1)
  | 1 => option_map d_name (lookup_gtype dir p.(p_arg))
  | _ => option_map d_name (lookup_domain dir p.(p_arg))
  end.
(* model under the perfect-hash hypothesis (checked separately on every key set): both paths
   behave as the linear scan *)
Definition t_bad (c : tcase) : bool :=
  existsb (fun p => negb (oeq (expected c.(t_dirs) p) p.(p_obs_index) && oeq (expected c.(t_dirs) p) p.(p_obs_linear)))
          c.(t_probes).

(* gthash level: (n, cmph packed size, dirmap offset, packed size) and the table indices *)
Definition size_bad (c : Z * Z * Z * Z) : bool :=
  let '(n, cp, dm, ps) := c in negb (Z.eqb (dirmap_offset cp) dm && Z.eqb (packed_size cp n) ps).
