From Coq Require Import List NArith ZArith Bool String Ascii DecimalString.
From GIV.Gen Require Import BlobLayout.
Import ListNotations.
Local Open Scope N_scope.

(* An independent decoder of the typelib binary format, written from the published layout
   (gitypelib-internal.h; member positions regenerated into Gen/BlobLayout.v).  It produces the
   same canonical line-based description as cshim/api_dump.c prints through the repository
   API and harness/girgen.py derives from the GIR, so that the three can be compared. *)

Definition str := list N.
Definition s (x : string) : str := map N_of_ascii (list_ascii_of_string x).

(* ------------------------------------------------------------ memory *)
Definition mem := list (list N).        (* the file in chunks of 256 bytes *)

Fixpoint take_chunk (n : nat) (l : list N) : list N * list N :=
  match n, l with
  | O, _ => ([], l)
  | _, [] => ([], [])
  | S k, x :: t => let '(a, b) := take_chunk k t in (x :: a, b)
  end.
Fixpoint chunks (fuel : nat) (l : list N) : mem :=
  match fuel, l with
  | O, _ => []
  | _, [] => []
  | S f, _ => let '(a, b) := take_chunk 256 l in a :: chunks f b
  end.
Definition mk_mem (bytes : list N) : mem := chunks (S (List.length bytes / 256)) bytes.

Definition byte (m : mem) (off : N) : N :=
  nth (N.to_nat (off mod 256)) (nth (N.to_nat (off / 256)) m []) 0.
Fixpoint le (m : mem) (off : N) (n : nat) : N :=
  match n with O => 0 | S k => byte m off + 256 * le m (off + 1) k end.
Definition u16 m off := le m off 2.
Definition u32 m off := le m off 4.
(* a bit-field member (absolute bit offset, width) of the struct at [base] *)
Definition getf (m : mem) (base : N) (f : N * N) : N :=
  let '(bo, w) := f in
  N.land (N.shiftr (le m (base + bo / 8) 8) (bo mod 8)) (N.ones w).
Definition at_ (base : N) (f : N * N) : N := base + fst f.

Fixpoint cstr_at (fuel : nat) (m : mem) (off : N) : str :=
  match fuel with
  | O => []
  | S f => let b := byte m off in if b =? 0 then [] else b :: cstr_at f m (off + 1)
  end.
Definition cstring (m : mem) (off : N) : str := cstr_at (64 * 128) m off.
Definition opt_string (m : mem) (off : N) : str := if off =? 0 then s "-" else cstring m off.

(* ------------------------------------------------------------ printing *)
Definition dec (n : N) : str := s (NilZero.string_of_uint (N.to_uint n)).
Definition decz (z : Z) : str := match z with Zneg p => s "-" ++ dec (Npos p) | _ => dec (Z.to_N z) end.
Definition signed (bits : N) (v : N) : Z :=
  if 2 ^ (bits - 1) <=? v then (Z.of_N v - Z.of_N (2 ^ bits))%Z else Z.of_N v.
Definition hexdigit (d : N) : N := if d <? 10 then 48 + d else 87 + d.
Fixpoint hexfix (digits : nat) (v : N) : str :=
  match digits with O => [] | S k => hexfix k (v / 16) ++ [hexdigit (v mod 16)] end.
Fixpoint spaces (n : nat) : str := match n with O => [] | S k => 32 :: 32 :: spaces k end.
Definition kv (k : string) (v : str) : str := s " " ++ s k ++ s "=" ++ v.
Definition kn (k : string) (v : N) : str := kv k (dec v).

Definition tag_names : list string :=
  ["void"; "gboolean"; "gint8"; "guint8"; "gint16"; "guint16"; "gint32"; "guint32"; "gint64"; "guint64";
   "gfloat"; "gdouble"; "GType"; "utf8"; "filename"; "array"; "interface"; "glist"; "gslist"; "ghash";
   "error"; "gunichar"]%string.
Definition tag_name (t : N) : str := s (nth (N.to_nat t) tag_names "unknown"%string).

Definition info_type_names : list string :=
  ["invalid"; "function"; "callback"; "struct"; "boxed"; "enum"; "flags"; "object"; "interface"; "constant";
   "invalid_0"; "union"]%string.

(* ------------------------------------------------------------ header, directory *)
Definition hdr (m : mem) (f : N * N) : N := getf m 0 f.
Definition dir_entry (m : mem) (index : N) : N :=      (* 1-based *)
  hdr m Header__directory + (index - 1) * hdr m Header__entry_blob_size.

(* "Namespace.Name" of a directory entry: local entries belong to this namespace; for the
   others the offset member points at the namespace string *)
Definition entry_ref (m : mem) (index : N) : str :=
  let e := dir_entry m index in
  let name := cstring m (getf m e DirEntry__name) in
  (if getf m e DirEntry__local =? 1 then cstring m (hdr m Header__namespace)
   else cstring m (getf m e DirEntry__offset)) ++ s "." ++ name.
Definition entry_name (m : mem) (index : N) : str := cstring m (getf m (dir_entry m index) DirEntry__name).

(* ------------------------------------------------------------ types *)
Fixpoint type_str (fuel : nat) (m : mem) (pos : N) : str :=
  match fuel with
  | O => s "?"
  | S f =>
    let w := u32 m pos in
    if N.land w 16777215 =? 0 then
      tag_name (getf m pos SimpleTypeBlobFlags__tag) ++ (if getf m pos SimpleTypeBlobFlags__pointer =? 1 then s "*" else [])
    else
      let ptr := getf m w InterfaceTypeBlob__pointer in
      let tag := getf m w InterfaceTypeBlob__tag in
      if tag =? 15 then
        let has_len := getf m w ArrayTypeBlob__has_length in
        let has_size := getf m w ArrayTypeBlob__has_size in
        let dim := u16 m (at_ w ArrayTypeBlob__dimensions_at) in
        s "array[" ++ dec (getf m w ArrayTypeBlob__array_type) ++ s ",zero=" ++ dec (getf m w ArrayTypeBlob__zero_terminated)
          ++ s ",len=" ++ (if has_len =? 1 then dec dim else s "-1")
          ++ s ",fixed=" ++ (if has_size =? 1 then dec dim else s "-1")
          ++ s ",ptr=" ++ dec ptr ++ s "](" ++ type_str f m (at_ w ArrayTypeBlob__type_at) ++ s ")"
      else if tag =? 16 then
        s "iface(" ++ entry_ref m (getf m w InterfaceTypeBlob__interface) ++ s ",ptr=" ++ dec ptr ++ s ")"
      else if (tag =? 17) || (tag =? 18) then
        tag_name tag ++ s "(" ++ type_str f m (at_ w ParamTypeBlob__type_at) ++ s ")"
      else if tag =? 19 then
        s "ghash(" ++ type_str f m (at_ w ParamTypeBlob__type_at) ++ s "," ++ type_str f m (at_ w ParamTypeBlob__type_at + 4) ++ s ")"
      else tag_name tag ++ (if ptr =? 1 then s "*" else [])
  end.
Definition ty (m : mem) (pos : N) : str := type_str 12 m pos.

(* ------------------------------------------------------------ attributes *)
Fixpoint attrs_of (fuel : nat) (m : mem) (i n : N) (node : N) (d : nat) : list str :=
  match fuel with
  | O => []
  | S f =>
    if n <=? i then []
    else
      let a := hdr m Header__attributes + i * hdr m Header__attribute_blob_size in
      let rest := attrs_of f m (i + 1) n node d in
      if getf m a AttributeBlob__offset =? node then
        let v := cstring m (getf m a AttributeBlob__value) in
        (spaces d ++ s "T " ++ cstring m (getf m a AttributeBlob__name) ++ s "=" ++ v ++ s " byname=" ++ v) :: rest
      else rest
  end.
Definition attrs (m : mem) (node : N) (d : nat) : list str :=
  let n := hdr m Header__n_attributes in attrs_of (S (N.to_nat n)) m 0 n node d.

(* ------------------------------------------------------------ callables *)
Definition transfer (full container : N) : N := if full =? 1 then 2 else if container =? 1 then 1 else 0.

Fixpoint args_lines (fuel : nat) (m : mem) (pos : N) (n : N) (d : nat) : list str :=
  match fuel with
  | O => []
  | S f =>
    if n =? 0 then []
    else
      let dir := if (getf m pos ArgBlob__in =? 1) && (getf m pos ArgBlob__out =? 1) then 2
                 else if getf m pos ArgBlob__out =? 1 then 1 else 0 in
      (spaces d ++ s "A " ++ cstring m (getf m pos ArgBlob__name)
         ++ kn "dir" dir
         ++ kn "transfer" (transfer (getf m pos ArgBlob__transfer_ownership) (getf m pos ArgBlob__transfer_container_ownership))
         ++ kn "null" (getf m pos ArgBlob__nullable) ++ kn "opt" (getf m pos ArgBlob__optional)
         ++ kn "calleralloc" (getf m pos ArgBlob__caller_allocates) ++ kn "skip" (getf m pos ArgBlob__skip)
         ++ kn "ret" (getf m pos ArgBlob__return_value) ++ kn "scope" (getf m pos ArgBlob__scope)
         ++ kv "closure" (decz (signed 8 (getf m pos ArgBlob__closure)))
         ++ kv "destroy" (decz (signed 8 (getf m pos ArgBlob__destroy)))
         ++ kv "type" (ty m (at_ pos ArgBlob__arg_type_at)))
      :: attrs m pos (S d)
      ++ args_lines f m (pos + hdr m Header__arg_blob_size) (n - 1) d
  end.

(* throws_blob: the legacy flag in the FunctionBlob/VFuncBlob; is_method as the API defines it *)
Definition callable_lines (m : mem) (sig : N) (throws_blob is_method : N) (d : nat) : list str :=
  let n := getf m sig SignatureBlob__n_arguments in
  (spaces d ++ s "R"
     ++ kn "transfer" (transfer (getf m sig SignatureBlob__caller_owns_return_value)
                                (getf m sig SignatureBlob__caller_owns_return_container))
     ++ kn "null" (getf m sig SignatureBlob__may_return_null) ++ kn "skip" (getf m sig SignatureBlob__skip_return)
     ++ kn "throws" (if (getf m sig SignatureBlob__throws =? 1) || (throws_blob =? 1) then 1 else 0)
     ++ kn "method" is_method ++ kv "type" (ty m (at_ sig SignatureBlob__return_type_at)))
  :: attrs m sig (S d)       (* attributes of the return value are keyed by the signature blob *)
  ++ args_lines (S (N.to_nat n)) m (at_ sig SignatureBlob__arguments_at) n d.

Definition head (d : nat) (kind : string) (name : str) (dep : N) : str :=
  spaces d ++ s "E " ++ s kind ++ s " " ++ name ++ kn "dep" dep.

Definition nth_name (l : list str) (i : N) : str := nth (N.to_nat i) l (s "-").

(* a function blob; props / vfuncs: names of the container's properties and vfuncs *)
Definition function_lines (m : mem) (b : N) (props vfuncs : list str) (d : nat) : list str :=
  let ctor := getf m b FunctionBlob__constructor in
  let static := getf m b FunctionBlob__is_static in
  let is_method := if (ctor =? 0) && (static =? 0) then 1 else 0 in
  let getter := getf m b FunctionBlob__getter in
  let setter := getf m b FunctionBlob__setter in
  let wraps := getf m b FunctionBlob__wraps_vfunc in
  let throws := getf m b FunctionBlob__throws in
  let flags := is_method + 2 * ctor + 4 * getter + 8 * setter + 16 * wraps + 32 * throws in
  let idx := getf m b FunctionBlob__index in
  (head d "function" (cstring m (getf m b FunctionBlob__name)) (getf m b FunctionBlob__deprecated)
     ++ kv "sym" (cstring m (getf m b FunctionBlob__symbol)) ++ kn "flags" flags
     ++ kv "prop" (if (getter =? 1) || (setter =? 1) then nth_name props idx else s "-")
     ++ kv "vfunc" (if wraps =? 1 then nth_name vfuncs idx else s "-"))
  :: callable_lines m (getf m b FunctionBlob__signature) throws is_method (S d)
  ++ attrs m b (S d).

Definition callback_lines (m : mem) (b : N) (d : nat) : list str :=
  head d "callback" (cstring m (getf m b CallbackBlob__name)) (getf m b CallbackBlob__deprecated)
  :: callable_lines m (getf m b CallbackBlob__signature) 0 0 (S d)
  ++ attrs m b (S d).

Fixpoint functions_lines (fuel : nat) (m : mem) (pos n : N) (props vfuncs : list str) (d : nat) : list str :=
  match fuel with
  | O => []
  | S f => if n =? 0 then []
           else function_lines m pos props vfuncs d
                ++ functions_lines f m (pos + hdr m Header__function_blob_size) (n - 1) props vfuncs d
  end.

(* ------------------------------------------------------------ fields *)
(* returns the lines and the position after the last field *)
Fixpoint fields_lines (fuel : nat) (m : mem) (pos n : N) (d : nat) : list str * N :=
  match fuel with
  | O => ([], pos)
  | S f =>
    if n =? 0 then ([], pos)
    else
      let emb := getf m pos FieldBlob__has_embedded_type in
      let cb := pos + hdr m Header__field_blob_size in
      let flags := getf m pos FieldBlob__readable + 2 * getf m pos FieldBlob__writable in
      let tstr := if emb =? 1 then s "iface(" ++ cstring m (hdr m Header__namespace) ++ s "."
                                    ++ cstring m (getf m cb CallbackBlob__name) ++ s ",ptr=" ++ dec (N.land (byte m cb) 1) ++ s ")"
                  else ty m (at_ pos FieldBlob__type_at) in
      let line := spaces d ++ s "F " ++ cstring m (getf m pos FieldBlob__name) ++ kn "flags" flags
                    ++ kn "offset" (getf m pos FieldBlob__struct_offset) ++ kn "size" (getf m pos FieldBlob__bits)
                    ++ kv "type" tstr in
      let next := if emb =? 1 then cb + hdr m Header__callback_blob_size else cb in
      let '(rest, fin) := fields_lines f m next (n - 1) d in
      (line :: (if emb =? 1 then callback_lines m cb (S d) else []) ++ attrs m pos (S d) ++ rest, fin)
  end.

Definition registered (m : mem) (b : N) : str :=
  kv "gtype" (opt_string m (getf m b RegisteredTypeBlob__gtype_name))
  ++ kv "init" (opt_string m (getf m b RegisteredTypeBlob__gtype_init)).

Fixpoint names_at (fuel : nat) (m : mem) (pos n stride : N) (namef : N * N) : list str :=
  match fuel with
  | O => []
  | S f => if n =? 0 then [] else cstring m (getf m pos namef) :: names_at f m (pos + stride) (n - 1) stride namef
  end.

Fixpoint refs_lines (fuel : nat) (m : mem) (pos n : N) (d : nat) : list str :=
  match fuel with
  | O => []
  | S f => if n =? 0 then [] else (spaces d ++ s "I " ++ entry_ref m (u16 m pos)) :: refs_lines f m (pos + 2) (n - 1) d
  end.

Definition align4 (x : N) : N := ((x + 3) / 4) * 4.

(* ------------------------------------------------------------ members of objects and interfaces *)
Fixpoint props_lines (fuel : nat) (m : mem) (pos n : N) (methods : list str) (d : nat) : list str :=
  match fuel with
  | O => []
  | S f =>
    if n =? 0 then []
    else
      let r := getf m pos PropertyBlob__readable in
      let w := getf m pos PropertyBlob__writable in
      let co := getf m pos PropertyBlob__construct_only in
      let flags := r + 2 * w + 4 * getf m pos PropertyBlob__construct + 8 * co in
      let st := getf m pos PropertyBlob__setter in
      let gt := getf m pos PropertyBlob__getter in
      (head d "property" (cstring m (getf m pos PropertyBlob__name)) (getf m pos PropertyBlob__deprecated)
         ++ kn "flags" flags
         ++ kn "transfer" (transfer (getf m pos PropertyBlob__transfer_ownership) (getf m pos PropertyBlob__transfer_container_ownership))
         ++ kv "setter" (if (w =? 1) && (co =? 0) && negb (st =? 1023) then nth_name methods st else s "-")
         ++ kv "getter" (if (r =? 1) && negb (gt =? 1023) then nth_name methods gt else s "-")
         ++ kv "type" (ty m (at_ pos PropertyBlob__type_at)))
      :: attrs m pos (S d)
      ++ props_lines f m (pos + hdr m Header__property_blob_size) (n - 1) methods d
  end.

Fixpoint signals_lines (fuel : nat) (m : mem) (pos n : N) (vfuncs : list str) (d : nat) : list str :=
  match fuel with
  | O => []
  | S f =>
    if n =? 0 then []
    else
      let flags := getf m pos SignalBlob__run_first + 2 * getf m pos SignalBlob__run_last
                   + 4 * getf m pos SignalBlob__run_cleanup + 8 * getf m pos SignalBlob__no_recurse
                   + 16 * getf m pos SignalBlob__detailed + 32 * getf m pos SignalBlob__action
                   + 64 * getf m pos SignalBlob__no_hooks in
      (head d "signal" (cstring m (getf m pos SignalBlob__name)) (getf m pos SignalBlob__deprecated)
         ++ kn "flags" flags ++ kn "stops" (getf m pos SignalBlob__true_stops_emit)
         ++ kv "clos" (if getf m pos SignalBlob__has_class_closure =? 1
                       then nth_name vfuncs (getf m pos SignalBlob__class_closure) else s "-"))
      :: callable_lines m (getf m pos SignalBlob__signature) 0 1 (S d)
      ++ attrs m pos (S d)
      ++ signals_lines f m (pos + hdr m Header__signal_blob_size) (n - 1) vfuncs d
  end.

Fixpoint vfuncs_lines (fuel : nat) (m : mem) (pos n : N) (methods signals : list str) (d : nat) : list str :=
  match fuel with
  | O => []
  | S f =>
    if n =? 0 then []
    else
      let throws := getf m pos VFuncBlob__throws in
      let flags := getf m pos VFuncBlob__must_chain_up + 2 * getf m pos VFuncBlob__must_be_implemented
                   + 4 * getf m pos VFuncBlob__must_not_be_implemented + 8 * throws in
      let inv := getf m pos VFuncBlob__invoker in
      (head d "vfunc" (cstring m (getf m pos VFuncBlob__name)) 0
         ++ kn "flags" flags ++ kn "offset" (getf m pos VFuncBlob__struct_offset)
         ++ kv "invoker" (if inv =? 1023 then s "-" else nth_name methods inv)
         ++ kv "signal" (if getf m pos VFuncBlob__class_closure =? 1 then nth_name signals (getf m pos VFuncBlob__signal) else s "-"))
      :: callable_lines m (getf m pos VFuncBlob__signature) throws 1 (S d)
      ++ attrs m pos (S d)
      ++ vfuncs_lines f m (pos + hdr m Header__vfunc_blob_size) (n - 1) methods signals d
  end.

(* ------------------------------------------------------------ constants *)
Definition constant_lines (m : mem) (b : N) (d : nat) : list str :=
  let tpos := at_ b ConstantBlob__type_at in
  let basic := N.land (u32 m tpos) 16777215 =? 0 in
  let tag := getf m tpos SimpleTypeBlobFlags__tag in
  let off := getf m b ConstantBlob__offset in
  let value :=
    if negb basic then s "?"
    else if (tag =? 12) || (tag =? 21) || (tag =? 0) then s "?unsupported"
    else if tag =? 1 then dec (if u32 m off =? 0 then 0 else 1)
    else if tag =? 2 then decz (signed 8 (le m off 1))
    else if tag =? 3 then dec (le m off 1)
    else if tag =? 4 then decz (signed 16 (le m off 2))
    else if tag =? 5 then dec (le m off 2)
    else if tag =? 6 then decz (signed 32 (le m off 4))
    else if tag =? 7 then dec (le m off 4)
    else if tag =? 8 then decz (signed 64 (le m off 8))
    else if tag =? 9 then dec (le m off 8)
    else if tag =? 10 then s "f" ++ hexfix 8 (le m off 4)
    else if tag =? 11 then s "d" ++ hexfix 16 (le m off 8)
    else if (tag =? 13) || (tag =? 14) then s "<" ++ cstring m off ++ s ">"
    else s "?" in
  (head d "constant" (cstring m (getf m b ConstantBlob__name)) (getf m b ConstantBlob__deprecated)
     ++ kv "type" (ty m tpos) ++ kv "value" value)
  :: attrs m b (S d).

Fixpoint constants_lines (fuel : nat) (m : mem) (pos n : N) (d : nat) : list str :=
  match fuel with
  | O => []
  | S f => if n =? 0 then [] else constant_lines m pos d ++ constants_lines f m (pos + hdr m Header__constant_blob_size) (n - 1) d
  end.

Fixpoint values_lines (fuel : nat) (m : mem) (pos n : N) (d : nat) : list str :=
  match fuel with
  | O => []
  | S f =>
    if n =? 0 then []
    else
      let v := getf m pos ValueBlob__value in
      (spaces d ++ s "V " ++ cstring m (getf m pos ValueBlob__name) ++ s " "
         ++ (if getf m pos ValueBlob__unsigned_value =? 1 then dec v else decz (signed 32 v))
         ++ kn "dep" (getf m pos ValueBlob__deprecated))
      :: attrs m pos (S d)
      ++ values_lines f m (pos + hdr m Header__value_blob_size) (n - 1) d
  end.

(* ------------------------------------------------------------ top-level entries *)
Definition fu (n : N) : nat := S (N.to_nat n).

Definition entry_lines (m : mem) (btype b : N) : list str :=
  if btype =? 1 then function_lines m b [] [] 0
  else if btype =? 2 then callback_lines m b 0
  else if (btype =? 3) || (btype =? 4) then
    let nf := getf m b StructBlob__n_fields in
    let nm := getf m b StructBlob__n_methods in
    let '(fl, fin) := fields_lines (fu nf) m (b + hdr m Header__struct_blob_size) nf 1 in
    (head 0 (if btype =? 3 then "struct" else "boxed") (cstring m (getf m b StructBlob__name)) (getf m b StructBlob__deprecated)
       ++ registered m b ++ kn "isgts" (getf m b StructBlob__is_gtype_struct) ++ kn "foreign" (getf m b StructBlob__foreign)
       ++ kn "size" (getf m b StructBlob__size) ++ kn "align" (getf m b StructBlob__alignment)
       ++ kv "copy" (opt_string m (getf m b StructBlob__copy_func)) ++ kv "free" (opt_string m (getf m b StructBlob__free_func)))
    :: fl ++ functions_lines (fu nm) m fin nm [] [] 1 ++ attrs m b 1
  else if btype =? 11 then
    let nf := getf m b UnionBlob__n_fields in
    let nm := getf m b UnionBlob__n_functions in
    let '(fl, fin) := fields_lines (fu nf) m (b + hdr m Header__union_blob_size) nf 1 in
    (head 0 "union" (cstring m (getf m b UnionBlob__name)) (getf m b UnionBlob__deprecated)
       ++ registered m b ++ kn "size" (getf m b UnionBlob__size) ++ kn "align" (getf m b UnionBlob__alignment)
       ++ kv "copy" (opt_string m (getf m b UnionBlob__copy_func)) ++ kv "free" (opt_string m (getf m b UnionBlob__free_func)))
    :: fl ++ functions_lines (fu nm) m fin nm [] [] 1 ++ attrs m b 1
  else if (btype =? 5) || (btype =? 6) then
    let nv := getf m b EnumBlob__n_values in
    let nm := getf m b EnumBlob__n_methods in
    let vpos := b + hdr m Header__enum_blob_size in
    (head 0 (if btype =? 5 then "enum" else "flags") (cstring m (getf m b EnumBlob__name)) (getf m b EnumBlob__deprecated)
       ++ registered m b ++ kv "storage" (tag_name (getf m b EnumBlob__storage_type))
       ++ kv "domain" (opt_string m (getf m b EnumBlob__error_domain)))
    :: values_lines (fu nv) m vpos nv 1
    ++ functions_lines (fu nm) m (vpos + nv * hdr m Header__value_blob_size) nm [] [] 1 ++ attrs m b 1
  else if btype =? 7 then
    let ni := getf m b ObjectBlob__n_interfaces in
    let nf := getf m b ObjectBlob__n_fields in
    let np := getf m b ObjectBlob__n_properties in
    let nm := getf m b ObjectBlob__n_methods in
    let ns := getf m b ObjectBlob__n_signals in
    let nv := getf m b ObjectBlob__n_vfuncs in
    let nc := getf m b ObjectBlob__n_constants in
    let ipos := b + hdr m Header__object_blob_size in
    let '(fl, ppos) := fields_lines (fu nf) m (align4 (ipos + 2 * ni)) nf 1 in
    let mpos := ppos + np * hdr m Header__property_blob_size in
    let spos := mpos + nm * hdr m Header__function_blob_size in
    let vpos := spos + ns * hdr m Header__signal_blob_size in
    let cpos := vpos + nv * hdr m Header__vfunc_blob_size in
    let props := names_at (fu np) m ppos np (hdr m Header__property_blob_size) PropertyBlob__name in
    let methods := names_at (fu nm) m mpos nm (hdr m Header__function_blob_size) FunctionBlob__name in
    let signals := names_at (fu ns) m spos ns (hdr m Header__signal_blob_size) SignalBlob__name in
    let vfuncs := names_at (fu nv) m vpos nv (hdr m Header__vfunc_blob_size) VFuncBlob__name in
    let parent := getf m b ObjectBlob__parent in
    let gs := getf m b ObjectBlob__gtype_struct in
    (head 0 "object" (cstring m (getf m b ObjectBlob__name)) (getf m b ObjectBlob__deprecated)
       ++ registered m b ++ kv "parent" (if parent =? 0 then s "-.-" else entry_ref m parent)
       ++ kn "abstract" (getf m b ObjectBlob__abstract) ++ kn "fundamental" (getf m b ObjectBlob__fundamental)
       ++ kn "final" (getf m b ObjectBlob__final_) ++ kv "cls" (if gs =? 0 then s "-" else entry_name m gs)
       ++ kv "ref" (opt_string m (getf m b ObjectBlob__ref_func)) ++ kv "unref" (opt_string m (getf m b ObjectBlob__unref_func))
       ++ kv "setv" (opt_string m (getf m b ObjectBlob__set_value_func)) ++ kv "getv" (opt_string m (getf m b ObjectBlob__get_value_func)))
    :: refs_lines (fu ni) m ipos ni 1 ++ fl
    ++ props_lines (fu np) m ppos np methods 1
    ++ functions_lines (fu nm) m mpos nm props vfuncs 1
    ++ signals_lines (fu ns) m spos ns vfuncs 1
    ++ vfuncs_lines (fu nv) m vpos nv methods signals 1
    ++ constants_lines (fu nc) m cpos nc 1
    ++ attrs m b 1
  else if btype =? 8 then
    let ni := getf m b InterfaceBlob__n_prerequisites in
    let np := getf m b InterfaceBlob__n_properties in
    let nm := getf m b InterfaceBlob__n_methods in
    let ns := getf m b InterfaceBlob__n_signals in
    let nv := getf m b InterfaceBlob__n_vfuncs in
    let nc := getf m b InterfaceBlob__n_constants in
    let ipos := b + hdr m Header__interface_blob_size in
    let ppos := align4 (ipos + 2 * ni) in
    let mpos := ppos + np * hdr m Header__property_blob_size in
    let spos := mpos + nm * hdr m Header__function_blob_size in
    let vpos := spos + ns * hdr m Header__signal_blob_size in
    let cpos := vpos + nv * hdr m Header__vfunc_blob_size in
    let props := names_at (fu np) m ppos np (hdr m Header__property_blob_size) PropertyBlob__name in
    let methods := names_at (fu nm) m mpos nm (hdr m Header__function_blob_size) FunctionBlob__name in
    let signals := names_at (fu ns) m spos ns (hdr m Header__signal_blob_size) SignalBlob__name in
    let vfuncs := names_at (fu nv) m vpos nv (hdr m Header__vfunc_blob_size) VFuncBlob__name in
    let gs := getf m b InterfaceBlob__gtype_struct in
    (head 0 "interface" (cstring m (getf m b InterfaceBlob__name)) (getf m b InterfaceBlob__deprecated)
       ++ registered m b ++ kv "cls" (if gs =? 0 then s "-" else entry_name m gs))
    :: refs_lines (fu ni) m ipos ni 1
    ++ props_lines (fu np) m ppos np methods 1
    ++ functions_lines (fu nm) m mpos nm props vfuncs 1
    ++ signals_lines (fu ns) m spos ns vfuncs 1
    ++ vfuncs_lines (fu nv) m vpos nv methods signals 1
    ++ constants_lines (fu nc) m cpos nc 1
    ++ attrs m b 1
  else if btype =? 9 then constant_lines m b 0
  else [s "E unknown"].

Fixpoint all_entries (fuel : nat) (m : mem) (i n : N) : list str :=
  match fuel with
  | O => []
  | S f =>
    if n <? i then []
    else let e := dir_entry m i in
         entry_lines m (getf m e DirEntry__blob_type) (getf m e DirEntry__offset) ++ all_entries f m (i + 1) n
  end.

Definition decode (bytes : list N) : list str :=
  let m := mk_mem bytes in
  let n := hdr m Header__n_local_entries in
  (s "NS " ++ cstring m (hdr m Header__namespace) ++ kv "version" (cstring m (hdr m Header__nsversion))
     ++ kv "shlib" (opt_string m (hdr m Header__shared_library)) ++ kv "cprefix" (opt_string m (hdr m Header__c_prefix)))
  :: all_entries (fu n) m 1 n.

(* ------------------------------------------------------------ structural checks of a file *)
(* header sizes equal the format's struct sizes; every directory entry and the attribute table
   lie inside the file and are 4-aligned *)
Definition header_sizes_ok (m : mem) : bool :=
  (hdr m Header__entry_blob_size =? DirEntry_size) && (hdr m Header__function_blob_size =? FunctionBlob_size)
  && (hdr m Header__callback_blob_size =? CallbackBlob_size) && (hdr m Header__signal_blob_size =? SignalBlob_size)
  && (hdr m Header__vfunc_blob_size =? VFuncBlob_size) && (hdr m Header__arg_blob_size =? ArgBlob_size)
  && (hdr m Header__property_blob_size =? PropertyBlob_size) && (hdr m Header__field_blob_size =? FieldBlob_size)
  && (hdr m Header__value_blob_size =? ValueBlob_size) && (hdr m Header__attribute_blob_size =? AttributeBlob_size)
  && (hdr m Header__constant_blob_size =? ConstantBlob_size) && (hdr m Header__signature_blob_size =? SignatureBlob_size)
  && (hdr m Header__enum_blob_size =? EnumBlob_size) && (hdr m Header__struct_blob_size =? StructBlob_size)
  && (hdr m Header__object_blob_size =? ObjectBlob_size) && (hdr m Header__interface_blob_size =? InterfaceBlob_size)
  && (hdr m Header__union_blob_size =? UnionBlob_size).

Fixpoint entries_ok (fuel : nat) (m : mem) (i n size : N) : bool :=
  match fuel with
  | O => true
  | S f =>
    if n <? i then true
    else let e := dir_entry m i in
         let off := getf m e DirEntry__offset in
         ((getf m e DirEntry__local =? 0) || ((off mod 4 =? 0) && (off <? size)))
         && (e mod 4 =? 0) && (e + DirEntry_size <=? size) && entries_ok f m (i + 1) n size
  end.

Definition structure_ok (bytes : list N) : bool :=
  let m := mk_mem bytes in
  let size := N.of_nat (List.length bytes) in
  (hdr m Header__size =? size) && header_sizes_ok m
  && (hdr m Header__directory mod 4 =? 0) && (hdr m Header__attributes mod 4 =? 0)
  && (hdr m Header__attributes + hdr m Header__n_attributes * AttributeBlob_size <=? size)
  && entries_ok (fu (hdr m Header__n_entries)) m 1 (hdr m Header__n_entries) size.
