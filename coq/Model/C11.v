From Coq Require Import List Arith NArith Bool.
From GIV.Lib Require Import Regex Str.
Import ListNotations.

(* Diagnostics bookkeeping: giscanner/message.py MessageLogger.log (every call is counted before
   the display is possibly suppressed) and the line numbering of
   giscanner/annotationparser.py parse_comment_block (a block whose opening token stands alone on
   line L has its k-th following line on line L + k). *)

Inductive kind := KWarning | KError | KFatal.
Record logger := { l_enabled : bool; l_count : nat; l_out : list (kind * nat (* line *) * str) }.
Definition logger0 (enabled : bool) : logger := {| l_enabled := enabled; l_count := 0; l_out := [] |}.

Definition log (l : logger) (m : kind * nat * str) : logger :=
  {| l_enabled := l_enabled l; l_count := S (l_count l);
     l_out := match fst (fst m) with
              | KFatal => l_out l ++ [m]
              | _ => if l_enabled l then l_out l ++ [m] else l_out l
              end |}.
Definition log_all (enabled : bool) (ms : list (kind * nat * str)) : logger := fold_left log ms (logger0 enabled).

(* warnings-as-errors: the run fails when anything was counted *)
Definition run_fails (l : logger) : bool := Nat.ltb 0 (l_count l).

(* line of the k-th line after the opening token (k = 1 is the identifier line) *)
Fixpoint number_lines (first : nat) (lines : list str) : list (nat * str) :=
  match lines with [] => [] | x :: t => (first, x) :: number_lines (S first) t end.
Definition block_lines (opening_line : nat) (lines_after_opening : list str) : list (nat * str) :=
  number_lines (S opening_line) lines_after_opening.
