From Coq Require Import List NArith Bool.
From GIV.Lib Require Import Regex Str.
From GIV.Model Require Import C14.
Import ListNotations.
Local Open Scope N_scope.

(* girepository/girepository.c: the repository keeps what g_irepository_find_by_gtype found
   (info_by_gtype) and what it did not find (unknown_gtypes); register_internal empties the
   second table whenever a typelib is registered, eagerly or lazily, because "these types might
   be resolved now".  Typelibs are never unloaded. *)
Record rstate := { r_eager : list tlib; r_lazy : list tlib; r_found : list (str * dentry); r_unknown : list str }.
Definition r_empty : rstate := {| r_eager := []; r_lazy := []; r_found := []; r_unknown := [] |}.
Definition r_libs (st : rstate) : list tlib := r_eager st ++ r_lazy st.

Inductive rop :=
| RLoad (lazy : bool) (l : tlib)      (* g_irepository_load_typelib / require, with or without G_IREPOSITORY_LOAD_FLAG_LAZY *)
| RFind (g : str).                     (* g_irepository_find_by_gtype *)

Fixpoint assoc (g : str) (t : list (str * dentry)) : option dentry :=
  match t with
  | [] => None
  | (k, e) :: r => if str_eqb k g then Some e else assoc g r
  end.
Definition smem (g : str) (l : list str) : bool := existsb (fun x => str_eqb x g) l.

(* clear_unknown says whether a registration of that kind empties unknown_gtypes *)
Definition rstep_gen (clear_on_lazy : bool) (st : rstate) (o : rop) : rstate * option (option dentry) :=
  match o with
  | RLoad lazy l =>
      ({| r_eager := if lazy then r_eager st else r_eager st ++ [l];
          r_lazy := if lazy then r_lazy st ++ [l] else r_lazy st;
          r_found := r_found st;
          r_unknown := if lazy && negb clear_on_lazy then r_unknown st else [] |}, None)
  | RFind g =>
      match assoc g (r_found st) with
      | Some e => (st, Some (Some e))
      | None =>
          if smem g (r_unknown st) then (st, Some None)
          else match find_by_gtype (r_libs st) g with
               | Some e => ({| r_eager := r_eager st; r_lazy := r_lazy st; r_found := (g, e) :: r_found st; r_unknown := r_unknown st |},
                            Some (Some e))
               | None => ({| r_eager := r_eager st; r_lazy := r_lazy st; r_found := r_found st; r_unknown := g :: r_unknown st |},
                          Some None)
               end
      end
  end.
Definition rstep := rstep_gen true.

Fixpoint rrun_gen (c : bool) (st : rstate) (ops : list rop) : rstate * list (option (option dentry)) :=
  match ops with
  | [] => (st, [])
  | o :: t => let '(st', a) := rstep_gen c st o in let '(st'', r) := rrun_gen c st' t in (st'', a :: r)
  end.
Definition rrun := rrun_gen true.
