From Coq Require Import List Arith NArith Bool.
From GIV.Lib Require Import Regex Str Backtrack.
From GIV.Model Require Import C02 C10 C10B.
Import ListNotations.

(* C11, specification side: what it means for a diagnostic to point at the source. *)
(* a diagnostic is well placed with respect to the source line it names: it quotes that line with the caret inside it, or the
   line carries a deprecated tag-style annotation (diagnostic 13 on the same line), for which only the line number is claimed *)
Definition quoted_ok (d : diag) (src : str) : Prop :=
  (dg_quoted d = None /\ dg_col d = None) \/ (dg_quoted d = Some src /\ exists c, dg_col d = Some c /\ c <= length src).
Definition placed (base : nat) (lines : list str) (all : list diag) (d : diag) : Prop :=
  exists k, k < length lines /\ dg_line d = base + k /\
    (quoted_ok d (nth k lines []) \/ exists d', In d' all /\ dg_code d' = 13 /\ dg_line d' = dg_line d).

