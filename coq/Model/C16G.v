From Coq Require Import List ZArith Bool Lia Permutation.
From GIV.Lib Require Import Regex Str.
Import ListNotations.
Local Open Scope Z_scope.

(* giscanner/maintransformer.py _pair_property_accessors: which method becomes the getter of a
   property.  The candidates are a table name -> priority ("how tasteful was the heuristic");
   the methods of the class are visited in declaration order; a candidate replaces the current
   getter when its priority is not below the current one's. *)

Fixpoint lookup (k : str) (t : list (str * Z)) : option Z :=
  match t with
  | [] => None
  | (n, p) :: r => if str_eqb n k then Some p else lookup k r
  end.

(* getter_candidates as the code builds it; name is the property name with '-' replaced by '_' *)
Definition s_get_ : str := [103;101;116;95]%N.
Definition s_is_ : str := [105;115;95]%N.
Definition getter_candidates (annotated : option str) (readable writable is_bool : bool) (name : str) : list (str * Z) :=
  match annotated with
  | Some g => [(g, 99)]
  | None =>
      if readable then
        [(s_get_ ++ name, 50)]
        ++ (if is_bool && negb (startswith s_is_ name) then [(s_is_ ++ name, 25)] else [])
        ++ (if negb writable && is_bool then [(name, 10)] else [])
      else []
  end.

Definition priority_of (cands : list (str * Z)) (g : option str) : Z :=
  match g with
  | None => -1
  | Some c => match lookup c cands with Some q => q | None => -1 end
  end.

Definition gstep (cands : list (str * Z)) (setter : option str) (g : option str) (m : str) : option str :=
  if match setter with Some s => str_eqb m s | None => false end then g
  else match lookup m cands with
       | None => g
       | Some p => if priority_of cands g <=? p then Some m else g
       end.

Definition elect (cands : list (str * Z)) (setter : option str) (methods : list str) (g0 : option str) : option str :=
  fold_left (gstep cands setter) methods g0.

(* the variant in which the current priority is read once, before the loop: the last candidate wins *)
Definition gstep_once (cands : list (str * Z)) (setter : option str) (cur : Z) (g : option str) (m : str) : option str :=
  if match setter with Some s => str_eqb m s | None => false end then g
  else match lookup m cands with
       | None => g
       | Some p => if cur <=? p then Some m else g
       end.
Definition elect_once cands setter methods g0 := fold_left (gstep_once cands setter (priority_of cands g0)) methods g0.
