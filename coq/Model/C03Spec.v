From Coq Require Import List NArith Bool String Ascii.
From GIV.Lib Require Import Regex Str.
From GIV.Model Require Import C02 C02Spec C16 C03.
Import ListNotations.
Local Open Scope N_scope.

Definition pairs_eqb (a b : list (str * str)) : bool := all2 (fun x y => str_eqb (fst x) (fst y) && str_eqb (snd x) (snd y)) a b.
(* kind-specific attributes are compared as sets (the writer's order is its own) *)
Definition pairs_subset (a b : list (str * str)) : bool :=
  forallb (fun x => existsb (fun y => str_eqb (fst x) (fst y) && str_eqb (snd x) (snd y)) b) a.
Definition meta_eqb (a b : meta) : bool :=
  ostr_eqb (m_doc a) (m_doc b) && ostr_eqb (m_version a) (m_version b) && ostr_eqb (m_version_doc a) (m_version_doc b)
  && ostr_eqb (m_deprecated a) (m_deprecated b) && ostr_eqb (m_deprecated_doc a) (m_deprecated_doc b)
  && ostr_eqb (m_stability a) (m_stability b) && ostr_eqb (m_stability_doc a) (m_stability_doc b)
  && Bool.eqb (m_skip a) (m_skip b) && pairs_eqb (m_attrs a) (m_attrs b)
  && pairs_subset (m_extra a) (m_extra b) && pairs_subset (m_extra b) (m_extra a).

(* one element of a generated world with what the GIR says about it *)
Record ecase := { e_kind : ekind; e_sub : subkind; e_owner : str; e_name : str; e_obs : meta }.
Record wcase := { w_id : N; w_blocks : list (str * block); w_elems : list ecase;
                  w_fns : list fn; w_renames : list (str * str);
                  w_obs_shown : list (str * (option str * option str)) (* per function name: shadows, shadowed-by *) }.

Definition elem_bad (blocks : list (str * block)) (e : ecase) : bool :=
  negb (meta_eqb (element_meta blocks (e_kind e) (e_sub e) (e_owner e) (e_name e)) (e_obs e)).
Definition shown_eqb (a b : option str * option str) : bool := ostr_eqb (fst a) (fst b) && ostr_eqb (snd a) (snd b).
Definition w_diff (fx : bool) (w : wcase) : list N :=
  map (fun ie => N.of_nat (fst ie)) (filter (fun ie => elem_bad (w_blocks w) (snd ie)) (combine (seq 0 (List.length (w_elems w))) (w_elems w)))
  ++ (if forallb (fun p => match find (fun f => str_eqb (f_name f) (fst p)) (rename_all fx (w_fns w) (w_renames w)) with
                           | Some f => shown_eqb (shown f) (snd p)
                           | None => false
                           end) (w_obs_shown w) then [] else [999]).
Definition w_bad (fx : bool) (w : wcase) : bool := match w_diff fx w with [] => false | _ => true end.
