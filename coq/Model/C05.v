From Coq Require Import List Arith Bool.
Import ListNotations.

(* The introspectable pass as a computation over the reference graph of a namespace:
   giscanner/introspectablepass.py validate(): _introspectable_alias_analysis,
   _analyze_node (per-callable findings that depend on nothing else), and
   _introspectable_callable_analysis, which look at the CURRENT introspectable flag of the
   definitions a node refers to (_type_is_introspectable: target.introspectable and not target.skip). *)

Inductive tref := TOk | TBad | TNode (i : nat).      (* fundamental/foreign/included; unresolved or banned; a definition of this namespace *)
Inductive node :=
| NAlias (target : tref)
| NCallable (own_ok : bool) (uses : list tref)       (* function, callback type, ...: own_ok = nothing wrong with its own parameters *)
| NOther.                                            (* structure, enumeration, class, ... *)

Record world := { nodes : list node; skipped : list bool (* (skip) annotation per node *) }.

Definition uses_of (n : node) : list tref :=
  match n with NAlias t => [t] | NCallable _ u => u | NOther => [] end.

Definition type_ok (w : world) (fl : list bool) (t : tref) : bool :=
  match t with
  | TOk => true
  | TBad => false
  | TNode j => nth j fl false && negb (nth j (skipped w) false)
  end.

Fixpoint set_nth (i : nat) (v : bool) (l : list bool) : list bool :=
  match l, i with
  | [], _ => []
  | _ :: t, O => v :: t
  | h :: t, S j => h :: set_nth j v t
  end.

(* one node of a walk: [which] selects the kind of node the walk looks at *)
Definition check (w : world) (which : node -> bool) (fl : list bool) (i : nat) : bool :=
  match nth_error (nodes w) i with
  | Some n => if which n then forallb (type_ok w fl) (uses_of n) else true
  | None => true
  end.
Definition step (w : world) (which : node -> bool) (fl : list bool) (i : nat) : list bool :=
  if check w which fl i then fl else set_nth i false fl.
Definition walk (w : world) (which : node -> bool) (fl : list bool) : list bool :=
  fold_left (step w which) (seq 0 (length (nodes w))) fl.

Definition is_alias (n : node) : bool := match n with NAlias _ => true | _ => false end.
Definition is_callable (n : node) : bool := match n with NCallable _ _ => true | _ => false end.

Definition all_true (w : world) : list bool := map (fun _ => true) (nodes w).
Definition apply_own (w : world) (fl : list bool) : list bool :=
  map (fun nf => match fst nf with NCallable false _ => false | _ => snd nf end) (combine (nodes w) fl).

(* as found: one alias walk, the per-node findings, two callable walks *)
Definition pass_found (w : world) : list bool :=
  walk w is_callable (walk w is_callable (apply_own w (walk w is_alias (all_true w)))).

(* repaired: the alias and callable walks are repeated until nothing changes *)
Definition round (w : world) (fl : list bool) : list bool := walk w is_callable (walk w is_alias fl).
Fixpoint iter (k : nat) (w : world) (fl : list bool) : list bool :=
  match k with O => fl | S k' => iter k' w (round w fl) end.
Definition pass (w : world) : list bool := iter (S (length (nodes w))) w (apply_own w (all_true w)).

(* what the GIR shows *)
Definition shown_introspectable (w : world) (fl : list bool) (i : nat) : bool :=
  nth i fl false && negb (nth i (skipped w) false).
Definition closed (w : world) (fl : list bool) : Prop :=
  forall i n, nth_error (nodes w) i = Some n -> shown_introspectable w fl i = true ->
    (is_alias n = true \/ is_callable n = true) -> forallb (type_ok w fl) (uses_of n) = true.
