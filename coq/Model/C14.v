From Coq Require Import List NArith ZArith Bool.
From GIV.Lib Require Import Regex Str.
From GIV.Gen Require Import HashSizes.
Import ListNotations.
Local Open Scope N_scope.

(* girepository/gitypelib.c lookups, gthash.c search and builder, girmodule.c section size *)

Record dentry := { d_name : str; d_registered : bool; d_gtype_name : option str;
                   d_is_enum : bool; d_error_domain : option str }.
Definition directory := list dentry.       (* the local entries; index i (1-based) = nth (i-1) *)

(* g_typelib_get_dir_entry_by_name without a directory index: linear scan, strcmp *)
Fixpoint lookup_linear (dir : directory) (name : str) (i : nat) : option (nat * dentry) :=
  match dir with
  | [] => None
  | e :: t => if str_eqb name e.(d_name) then Some (i, e) else lookup_linear t name (S i)
  end.

(* _gi_typelib_hash_search + the caller's final strcmp; h is the packed perfect hash *)
Definition hash_index (h : str -> N) (table : list N) (n_entries : N) (name : str) : N :=
  let off := h name in
  let off := if n_entries <=? off then 0 else off in
  nth (N.to_nat off) table 0.
Definition lookup_hashed (h : str -> N) (table : list N) (dir : directory) (name : str) : option (nat * dentry) :=
  let idx := N.to_nat (hash_index h table (N.of_nat (length dir)) name) in      (* entry index + 1, 1-based *)
  match nth_error dir idx with
  | Some e => if str_eqb name e.(d_name) then Some (S idx, e) else None
  | None => None
  end.

(* _gi_typelib_hash_builder_pack: memset 0, then table[h (name_i)] = i *)
Fixpoint set_nth (l : list N) (i : nat) (v : N) : list N :=
  match l, i with
  | [], _ => []
  | _ :: t, O => v :: t
  | x :: t, S k => x :: set_nth t k v
  end.
Fixpoint fill (h : str -> N) (names : list str) (i : N) (table : list N) : list N :=
  match names with
  | [] => table
  | s :: t => fill h t (i + 1) (set_nth table (N.to_nat (h s)) i)
  end.
Definition build_table (h : str -> N) (names : list str) : list N :=
  fill h names 0 (repeat 0 (length names)).

(* g_typelib_get_dir_entry_by_gtype_name / _by_error_domain *)
Definition opt_is (o : option str) (s : str) : bool := match o with Some x => str_eqb x s | None => false end.
Fixpoint lookup_gtype (dir : directory) (g : str) : option dentry :=
  match dir with
  | [] => None
  | e :: t => if e.(d_registered) && opt_is e.(d_gtype_name) g then Some e else lookup_gtype t g
  end.
Fixpoint lookup_domain (dir : directory) (d : str) : option dentry :=
  match dir with
  | [] => None
  | e :: t => if e.(d_is_enum) && opt_is e.(d_error_domain) d then Some e else lookup_domain t d
  end.

(* g_typelib_matches_gtype_name_prefix, given the prefixes as delivered by the split iterator *)
Definition is_upper (c : N) : bool := (65 <=? c) && (c <=? 90).
Definition matches_prefix (prefixes : list str) (g : str) : bool :=
  existsb (fun p => startswith p g && match nth_error g (length p) with Some c => is_upper c | None => false end) prefixes.

(* g_irepository_find_by_gtype over the loaded typelibs (in hash-table iteration order):
   first those whose prefix matches, then all *)
Record tlib := { t_prefixes : list str; t_dir : directory }.
Fixpoint find_pass (check_prefix : bool) (libs : list tlib) (g : str) : option dentry :=
  match libs with
  | [] => None
  | l :: t => if check_prefix && negb (matches_prefix l.(t_prefixes) g) then find_pass check_prefix t g
              else match lookup_gtype l.(t_dir) g with
                   | Some e => Some e
                   | None => find_pass check_prefix t g
                   end
  end.
Definition find_by_gtype (libs : list tlib) (g : str) : option dentry :=
  match find_pass true libs g with Some e => Some e | None => find_pass false libs g end.

(* gthash.c / girmodule.c size arithmetic; ALIGN_VALUE and the width of required_size are
   regenerated from the sources (Gen/HashSizes.v) *)
Definition dirmap_offset (cmph_packed : Z) : Z := align_value (4 + cmph_packed) 4.
Definition packed_size (cmph_packed n : Z) : Z := (dirmap_offset cmph_packed + n * 2)%Z.
(* add_directory_index_section: the size reserved for the section, as held in required_size *)
Definition required_size (cmph_packed n : Z) : Z :=
  ((align_value (packed_size cmph_packed n mod 2 ^ required_size_bits) 4) mod 2 ^ required_size_bits)%Z.
