From Coq Require Import List NArith Bool String Ascii.
From GIV.Lib Require Import Regex Str.
From GIV.Gen Require Import TypeNames.
Import ListNotations.
Local Open Scope N_scope.

(* Defaults of un-annotated declarations: giscanner/transformer.py (_create_source_type,
   _create_complete_source_type, _canonicalize_ctype, create_type_from_ctype_string,
   _create_bare_container_type) and giscanner/maintransformer.py (_get_transfer_default*,
   _pass3_callable_callbacks, _pass3_callable_throws), with girwriter.py's emission. *)

Definition s (x : string) : str := map N_of_ascii (list_ascii_of_string x).
Definition star : N := 42.

(* ---- C declarator trees as the lexer delivers them *)
Inductive ctree :=
| CVoid
| CBasic (name : str) (const : bool)          (* int, unsigned long, char ... *)
| CTypedef (name : str) (const : bool)        (* gint, FooBar, GList ... *)
| CPointer (t : ctree) (const : bool)         (* const = the pointer itself is const *)
| CArray (t : ctree)
| CTag (name : str) (const : bool).           (* struct/union/enum tags: `struct _Foo` *)

Fixpoint source_type (t : ctree) (is_param : bool) : str :=
  match t with
  | CVoid => s "void"
  | CBasic n _ | CTypedef n _ => n
  | CPointer b _ => source_type b false ++ [star]
  | CArray b => if is_param then source_type b false ++ [star] else source_type b false
  | CTag _ _ => s "gpointer"
  end.

Definition with_const (c : bool) (v : str) : str := if c then s "const " ++ v else v.
Fixpoint complete_type (t : ctree) (is_param : bool) : str :=
  match t with
  | CVoid => s "void"
  | CBasic n c | CTypedef n c => with_const c n
  | CPointer b c => complete_type b false ++ [star] ++ (if c then s " const" else [])
  | CArray b => if is_param then complete_type b false ++ [star] else complete_type b false
  | CTag n c => with_const c n
  end.
Definition base_is_const (t : ctree) : bool :=
  match t with
  | CPointer (CBasic _ c) _ | CPointer (CTypedef _ c) _ | CPointer (CTag _ c) _ => c
  | CPointer (CPointer _ c) _ => c
  | _ => false
  end.

(* ---- _canonicalize_ctype *)
Fixpoint lookup (k : str) (tbl : list (str * str)) : option str :=
  match tbl with [] => None | (a, b) :: t => if str_eqb a k then Some b else lookup k t end.

Definition strip_last (x : str) : str := removelast x.
Definition ends_star (x : str) : bool := match rev x with c :: _ => N.eqb c star | [] => false end.

Fixpoint canon (fuel : nat) (ctype : str) : str :=
  match fuel with
  | O => ctype
  | S f => match lookup ctype type_names with
           | Some fund => fund
           | None => if ends_star ctype then canon f (strip_last ctype) ++ [star] else ctype
           end
  end.
Definition canonicalize (ctype : str) : str := canon (S (List.length ctype)) ctype.
Definition no_stars (x : str) : str := filter (fun c => negb (N.eqb c star)) x.

(* ---- the resulting GIR type *)
Inductive gtype :=
| GFund (name : str)                 (* a fundamental, c:type kept *)
| GUtf8Array                         (* returned char** and GStrv: array of utf8 *)
| GList (name : str)                 (* GLib.List / GLib.SList of gpointer *)
| GArrayK (name : str) (elem : str)  (* GLib.Array / PtrArray / ByteArray *)
| GMap
| GNamed (ident : str).              (* to be resolved against the declared types *)

Definition type_of_ctype (ctype : str) (is_return : bool) : gtype :=
  let canonical0 := canonicalize ctype in
  let isbool := str_eqb canonical0 (s "_Bool") || str_eqb canonical0 (s "bool") in
  let canonical := if isbool then s "gboolean" else canonical0 in
  let base := if isbool then canonical else no_stars canonical in
  if (is_return && str_eqb canonical (s "utf8*")) || str_eqb base (s "GStrv") then GUtf8Array
  else match lookup base type_names with
       | Some fund => GFund fund
       | None =>
           if str_eqb base (s "GList") then GList (s "GLib.List")
           else if str_eqb base (s "GSList") then GList (s "GLib.SList")
           else if str_eqb base (s "GByteArray") then GArrayK (s "GLib.ByteArray") (s "guint8")
           else if str_eqb base (s "GArray") then GArrayK (s "GLib.Array") (s "gpointer")
           else if str_eqb base (s "GPtrArray") then GArrayK (s "GLib.PtrArray") (s "gpointer")
           else if str_eqb base (s "GHashTable") then GMap
           else GNamed base
       end.

(* ---- what is known about declared identifiers (given by the world) *)
Inductive tclass :=
| KCallback | KDestroyNotify | KAsyncReady
| KRecordPlain | KRecordBoxed | KEnum | KClass | KInterface
| KAliasBasic | KAliasOther.
Definition env := list (str * (str * tclass)).          (* C identifier -> (giname, class) *)
Fixpoint env_find (e : env) (k : str) : option (str * tclass) :=
  match e with [] => None | (a, b) :: t => if str_eqb a k then Some b else env_find t k end.

Inductive transfer := TNone | TFull | TContainer.

Definition is_in (x : str) (l : list str) : bool := existsb (str_eqb x) l.

(* _get_transfer_default_returntype_basic *)
Definition return_basic (g : gtype) (is_const : bool) : option transfer :=
  match g with
  | GFund n =>
      if is_in n basic_gir_types || is_const || str_eqb n (s "gpointer") || str_eqb n (s "none") then Some TNone
      else if str_eqb n (s "utf8") then Some TFull
      else None
  | _ => if is_const then Some TNone else None
  end.

(* _get_transfer_default for a return value of a plain function *)
Definition return_transfer (e : env) (g : gtype) (is_const : bool) : option transfer :=
  match g with
  | GFund n => if str_eqb n (s "none") then Some TNone else return_basic g is_const
  | GNamed id =>
      match return_basic g is_const with
      | Some t => Some t
      | None => match env_find e id with
                | Some (_, KRecordBoxed) => Some TFull
                | Some (_, KEnum) => Some TNone
                | Some (_, KAliasBasic) => Some TNone
                | _ => None
                end
      end
  | _ => return_basic g is_const
  end.

Inductive direction := DIn | DOut | DInout.
Definition param_transfer (d : direction) (caller_allocates : bool) : transfer :=
  match d with
  | DIn => TNone
  | _ => if caller_allocates then TNone else TFull
  end.

(* ---- parameters after the callable passes *)
Record param := { p_name : str; p_type : gtype; p_ctype : str; p_raw_ctype : str; p_class : option tclass;
                  p_transfer : option transfer; p_nullable : bool;
                  p_scope : option str; p_closure : option str; p_destroy : option str }.

Definition mk_param (e : env) (name : str) (t : ctree) : param :=
  let ct := source_type t true in
  let g := type_of_ctype ct false in
  let cls := match g with GNamed id => option_map snd (env_find e id) | _ => None end in
  {| p_name := name; p_type := g; p_ctype := complete_type t true; p_raw_ctype := ct; p_class := cls;
     p_transfer := Some (param_transfer DIn false);
     (* untyped pointers are nullable; so are GAsyncReadyCallback and GCancellable parameters *)
     p_nullable := match g with
                   | GFund n => str_eqb n (s "gpointer")
                   | GNamed id => match env_find e id with
                                  | Some (gi, _) => str_eqb gi (s "Gio.AsyncReadyCallback") || str_eqb gi (s "Gio.Cancellable")
                                  | None => false
                                  end
                   | _ => false
                   end;
     p_scope := None; p_closure := None; p_destroy := None |}.

Definition is_cb (p : param) : bool :=
  match p.(p_class) with Some KCallback | Some KAsyncReady | Some KDestroyNotify => true | _ => false end.

(* first loop of _pass3_callable_callbacks: well-known callback types *)
Definition wellknown (p : param) : param :=
  match p.(p_class) with
  | Some KAsyncReady | Some KDestroyNotify =>
      {| p_name := p.(p_name); p_type := p.(p_type); p_ctype := p.(p_ctype); p_raw_ctype := p.(p_raw_ctype);
         p_class := p.(p_class); p_transfer := Some TNone; p_nullable := p.(p_nullable);
         p_scope := Some (s "async"); p_closure := p.(p_closure); p_destroy := p.(p_destroy) |}
  | _ => p
  end.

Definition ends_with_data (n : str) : bool := endswith (s "data") n.
Definition is_any (p : param) : bool := match p.(p_type) with GFund n => str_eqb n (s "gpointer") | _ => false end.

(* second loop: [cur] = index of the current callback parameter; updates are collected as
   (index, closure name) / (index, destroy name) and applied afterwards *)
Inductive upd := UClosure (i : nat) (n : str) | UDestroy (i : nat) (n : str).
Fixpoint pair_loop (ps : list param) (i : nat) (cur : option nat) : list upd :=
  match ps with
  | [] => []
  | p :: t =>
      match p.(p_class) with
      | Some KDestroyNotify =>
          match cur with
          | Some c => UDestroy c p.(p_name) :: pair_loop t (S i) cur
          | None => pair_loop t (S i) cur
          end
      | Some KCallback | Some KAsyncReady => pair_loop t (S i) (Some i)
      | _ =>
          match cur with
          | Some c => if is_any p && ends_with_data p.(p_name)
                      then UClosure c p.(p_name) :: pair_loop t (S i) cur else pair_loop t (S i) cur
          | None => pair_loop t (S i) cur
          end
      end
  end.

Definition apply_upd (ps : list param) (u : upd) : list param :=
  match u with
  | UClosure i n => map (fun ip => if Nat.eqb (fst ip) i then
        let p := snd ip in {| p_name := p.(p_name); p_type := p.(p_type); p_ctype := p.(p_ctype); p_raw_ctype := p.(p_raw_ctype);
                              p_class := p.(p_class); p_transfer := p.(p_transfer); p_nullable := p.(p_nullable);
                              p_scope := p.(p_scope); p_closure := Some n; p_destroy := p.(p_destroy) |} else snd ip)
                        (combine (seq 0 (List.length ps)) ps)
  | UDestroy i n => map (fun ip => if Nat.eqb (fst ip) i then
        let p := snd ip in {| p_name := p.(p_name); p_type := p.(p_type); p_ctype := p.(p_ctype); p_raw_ctype := p.(p_raw_ctype);
                              p_class := p.(p_class); p_transfer := Some TNone; p_nullable := p.(p_nullable);
                              p_scope := Some (s "notified"); p_closure := p.(p_closure); p_destroy := Some n |} else snd ip)
                        (combine (seq 0 (List.length ps)) ps)
  end.

(* third loop: closure targets become nullable *)
Definition closure_targets (ps : list param) : list str :=
  flat_map (fun p => match p.(p_closure) with Some n => [n] | None => [] end) ps.
Definition mark_nullable (targets : list str) (p : param) : param :=
  if is_in p.(p_name) targets then
    {| p_name := p.(p_name); p_type := p.(p_type); p_ctype := p.(p_ctype); p_raw_ctype := p.(p_raw_ctype);
       p_class := p.(p_class); p_transfer := p.(p_transfer); p_nullable := true;
       p_scope := p.(p_scope); p_closure := p.(p_closure); p_destroy := p.(p_destroy) |}
  else p.

Definition pass3_callbacks (ps : list param) : list param :=
  let ps1 := map wellknown ps in
  let ps2 := fold_left apply_upd (pair_loop ps1 0 None) ps1 in
  map (mark_nullable (closure_targets ps2)) ps2.

(* _pass3_callable_throws: a trailing GError** parameter is removed *)
Definition pass3_throws (ps : list param) : list param * bool :=
  match rev ps with
  | last :: before => if str_eqb last.(p_raw_ctype) (s "GError**") then (rev before, true) else (ps, false)
  | [] => (ps, false)
  end.

Definition callable (e : env) (params : list (str * ctree)) : list param * bool :=
  pass3_throws (pass3_callbacks (map (fun nt => mk_param e (fst nt) (snd nt)) params)).

Definition index_of (ps : list param) (n : str) : option nat :=
  (fix go (l : list param) (i : nat) := match l with [] => None | p :: t => if str_eqb p.(p_name) n then Some i else go t (S i) end) ps O.
