From Coq Require Import List NArith Bool.
From GIV.Lib Require Import Regex Str.
From GIV.Model Require Import C07T.
Import ListNotations.
Local Open Scope N_scope.

(* girepository/girnode.c:serialize_type, the branch for C arrays: the key under which the compiler shares one type blob
   among all uses of "the same" type; and what the ArrayTypeBlob of such an array holds besides its element type
   (_g_ir_node_build_typelib, GI_TYPE_TAG_ARRAY).  fx = false: the blob as found; fx = true: as repaired in b101e79. *)
Record carray := { ka_elem : str;                (* the key of the element type *)
                   ka_has_len : bool; ka_len : N; ka_has_size : bool; ka_size : N; ka_zero : bool; ka_ptr : bool }.

Definition k_length : str := [108;101;110;103;116;104;61].                                   (* "length=" *)
Definition k_fixed : str := [102;105;120;101;100;45;115;105;122;101;61].                    (* "fixed-size=" *)
Definition k_zero : str := [122;101;114;111;45;116;101;114;109;105;110;97;116;101;100;61;49]. (* "zero-terminated=1" *)

Definition key_dims (a : carray) : str :=
  (if ka_has_len a then k_length ++ dec (ka_len a)
   else if ka_has_size a then k_fixed ++ dec (ka_size a) else [])
  ++ (if ka_zero a then (if ka_has_len a then [44] else []) ++ k_zero else []).

Definition key_carray (a : carray) : str :=
  ka_elem a ++ [91] ++ key_dims a ++ [93] ++ (if ka_ptr a then [42] else []).

(* pointer, zero_terminated, has_length, has_size, the one dimension *)
Definition blob_carray (fx : bool) (a : carray) : bool * bool * bool * bool * N :=
  (ka_ptr a, ka_zero a, ka_has_len a,
   (if fx then ka_has_size a && negb (ka_has_len a) else ka_has_size a),
   (* the dimension is a guint16: a larger index or size is stored modulo 2^16 (known finding C06-K2 for sizes) *)
   (if ka_has_len a then ka_len a mod 65536 else if ka_has_size a then ka_size a mod 65536 else 65535)).
