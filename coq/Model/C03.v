From Coq Require Import List NArith Bool String Ascii.
From GIV.Lib Require Import Regex Str.
From GIV.Model Require Import C02 C16.
From GIV.Model Require C01.
Import ListNotations.
Local Open Scope N_scope.

(* Identifier-level annotations and tags: giscanner/maintransformer.py _get_annotation_name /
   _get_block, _apply_annotations_annotated, _apply_annotations_constant / _property / _signal /
   _field, the ref/unref/copy/free function annotations of _pass_read_annotations,
   _apply_annotations_callable (finish/sync/async-func), _apply_annotation_rename_to, and the
   emission in giscanner/girwriter.py (_append_version, _append_node_generic, _write_generic). *)

(* ---- which comment block documents which element *)
Inductive ekind := EFunction | EType | EConstant | EProperty | ESignal | EField | EVFunc.
Definition sep (k : ekind) : str :=
  match k with EProperty => [58] | ESignal | EVFunc => [58; 58] | EField => [46] | _ => [] end.
(* owner = C name of the class / structure (empty for top-level elements); name = the element's own
   C name (function symbol, C type, constant) or member name *)
Definition block_key (k : ekind) (owner name : str) : str :=
  match k with
  | EFunction | EType | EConstant => name
  | _ => owner ++ sep k ++ name
  end.

(* ---- a comment block as far as identifier-level data goes *)
Record tagv := { tg_value : option str; tg_desc : option str }.
Record block := { b_desc : option str; b_since : option tagv; b_deprecated : option tagv; b_stability : option tagv;
                  b_attrs : list (str * str); b_skip : bool;
                  b_anns : list (str * list str) (* the other identifier annotations with their options *) }.

Record meta := { m_doc : option str; m_version : option str; m_version_doc : option str;
                 m_deprecated : option str; m_deprecated_doc : option str;
                 m_stability : option str; m_stability_doc : option str;
                 m_skip : bool; m_attrs : list (str * str);
                 m_extra : list (str * str) (* kind-specific GIR attributes *) }.
Definition no_meta : meta :=
  {| m_doc := None; m_version := None; m_version_doc := None; m_deprecated := None; m_deprecated_doc := None;
     m_stability := None; m_stability_doc := None; m_skip := false; m_attrs := []; m_extra := [] |}.

Definition nonempty (x : option str) : option str := match x with Some [] => None | y => y end.
Definition tag_value (t : option tagv) : option str := match t with Some v => nonempty (tg_value v) | None => None end.
Definition tag_desc (t : option tagv) : option str := match t with Some v => nonempty (tg_desc v) | None => None end.

Fixpoint ann_lookup (a : list (str * list str)) (n : str) : option (list str) :=
  match a with [] => None | (k, o) :: t => if str_eqb k n then Some o else ann_lookup t n end.
Definition ann_first (a : list (str * list str)) (n : string) : option str :=
  match ann_lookup a (s n) with Some (x :: _) => Some x | _ => None end.

(* annotation name -> GIR attribute name, per kind of element *)
Inductive subkind := SFunction | SClass | SRecord | SProperty | SSignal | SConstant | SOther.
Definition extra_map (k : subkind) : list (string * string) :=
  match k with
  | SFunction => [("set-property"%string, "glib:set-property"%string); ("get-property"%string, "glib:get-property"%string); ("finish-func"%string, "glib:finish-func"%string);
                  ("sync-func"%string, "glib:sync-func"%string); ("async-func"%string, "glib:async-func"%string)]
  | SClass => [("ref-func"%string, "glib:ref-func"%string); ("unref-func"%string, "glib:unref-func"%string); ("set-value-func"%string, "glib:set-value-func"%string);
               ("get-value-func"%string, "glib:get-value-func"%string)]
  | SRecord => [("copy-func"%string, "copy-function"%string); ("free-func"%string, "free-function"%string)]
  | SProperty => [("setter"%string, "setter"%string); ("getter"%string, "getter"%string); ("default-value"%string, "default-value"%string)]
  | SSignal => [("emitter"%string, "emitter"%string)]
  | SConstant => [("value"%string, "value"%string)]
  | SOther => []
  end.

Definition add_attrs (l : list (str * str)) (new : list (str * str)) : list (str * str) :=
  fold_left (fun acc kv => match snd kv with [] => acc | _ => C01.set_attr acc (fst kv) (snd kv) end) new l.

(* _apply_annotations_annotated plus the kind-specific annotations *)
Definition meta_of (k : subkind) (b : option block) : meta :=
  match b with
  | None => no_meta
  | Some b =>
      {| m_doc := nonempty (b_desc b);
         m_version := tag_value (b_since b); m_version_doc := tag_desc (b_since b);
         m_deprecated := tag_value (b_deprecated b); m_deprecated_doc := tag_desc (b_deprecated b);
         m_stability := tag_value (b_stability b); m_stability_doc := tag_desc (b_stability b);
         m_skip := b_skip b; m_attrs := add_attrs [] (b_attrs b);
         m_extra := flat_map (fun p => match ann_first (b_anns b) (fst p) with
                                       | Some v => match v with [] => [] | _ => [(s (snd p), v)] end
                                       | None => []
                                       end) (extra_map k) |}
  end.

(* the element documented by a block is found by its key, among blocks with distinct keys *)
Definition element_meta (blocks : list (str * block)) (k : ekind) (sk : subkind) (owner name : str) : meta :=
  meta_of sk (blocks_lookup blocks (block_key k owner name) None).

(* a virtual method without a block of its own takes the identifier data of its invoker's block
   (maintransformer.py _pair_class_virtuals applies the method's block to the vfunc) *)
Definition vfunc_meta (blocks : list (str * block)) (struct_ctype vname : str) (invoker_symbol : option str) : meta :=
  match blocks_lookup blocks (block_key EVFunc struct_ctype vname) None with
  | Some b => meta_of SFunction (Some b)
  | None => match invoker_symbol with
            | Some sym => meta_of SFunction (blocks_lookup blocks sym None)
            | None => no_meta
            end
  end.

(* ---- rename-to: shadows / shadowed-by among the functions of a namespace *)
Record fn := { f_name : str; f_symbol : str; f_shadows : option str; f_shadowed_by : option str }.
Definition set_shadowed_by (v : str) (f : fn) : fn :=
  {| f_name := f_name f; f_symbol := f_symbol f; f_shadows := f_shadows f; f_shadowed_by := Some v |}.
Definition set_shadows (v : str) (f : fn) : fn :=
  {| f_name := f_name f; f_symbol := f_symbol f; f_shadows := Some v; f_shadowed_by := f_shadowed_by f |}.
Fixpoint find_symbol (fs : list fn) (sym : str) : option fn :=
  match fs with [] => None | f :: t => if str_eqb (f_symbol f) sym then Some f else find_symbol t sym end.
Definition upd_fn (name : str) (g : fn -> fn) (fs : list fn) : list fn :=
  map (fun f => if str_eqb (f_name f) name then g f else f) fs.

(* one function carrying (rename-to TARGET): [fx] = the repaired check, which also refuses when
   the renaming function itself is already part of a pair *)
Definition rename_step (fx : bool) (fs : list fn) (req : str * str) : list fn :=
  let '(node_name, target_symbol) := req in
  match find_symbol fs target_symbol, find (fun f => str_eqb (f_name f) node_name) fs with
  | Some target, Some node =>
      match f_shadowed_by target, f_shadows target with
      | None, None =>
          if fx && (match f_shadowed_by node, f_shadows node with None, None => false | _, _ => true end
                    || str_eqb (f_name node) (f_name target))
          then fs
          else upd_fn (f_name node) (set_shadows (f_name target)) (upd_fn (f_name target) (set_shadowed_by (f_name node)) fs)
      | _, _ => fs
      end
  | _, _ => fs
  end.
Definition rename_all (fx : bool) (fs : list fn) (reqs : list (str * str)) : list fn := fold_left (rename_step fx) reqs fs.

(* what the writer shows: shadowed-by wins over shadows *)
Definition shown (f : fn) : option str * option str :=
  match f_shadowed_by f with Some x => (None, Some x) | None => (f_shadows f, None) end.
