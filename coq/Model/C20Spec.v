From Coq Require Import List NArith ZArith Bool.
From GIV.Lib Require Import Regex Str.
From GIV.Model Require Import C20.
Import ListNotations.
Local Open Scope N_scope.

(* The reader's side, following XML 1.0 only: entity/character-reference decoding and
   attribute-list scanning, written as structural state machines. *)

Definition decode_entity (name : str) : option N :=
  if str_eqb name [97;109;112] then Some 38            (* amp *)
  else if str_eqb name [103;116] then Some 62          (* gt *)
  else if str_eqb name [108;116] then Some 60          (* lt *)
  else if str_eqb name [113;117;111;116] then Some 34  (* quot *)
  else if str_eqb name [97;112;111;115] then Some 39   (* apos *)
  else if str_eqb name [35;49;48] then Some 10         (* #10 *)
  else if str_eqb name [35;49;51] then Some 13         (* #13 *)
  else if str_eqb name [35;57] then Some 9             (* #9 *)
  else None.

(* ent = Some buf: inside a reference, buf = characters after '&' so far, reversed *)
Fixpoint unesc (s : str) (ent : option str) : option str :=
  match s with
  | [] => match ent with None => Some [] | Some _ => None end
  | c :: t =>
      match ent with
      | None => if N.eqb c 38 then unesc t (Some [])
                else match unesc t None with Some r => Some (c :: r) | None => None end
      | Some buf =>
          if N.eqb c 59 then
            match decode_entity (rev buf) with
            | Some ch => match unesc t None with Some r => Some (ch :: r) | None => None end
            | None => None
            end
          else unesc t (Some (c :: buf))
      end
  end.
Definition unescape (s : str) : option str := unesc s None.

Definition xml_ws (c : N) : bool := N.eqb c 32 || N.eqb c 10 || N.eqb c 9 || N.eqb c 13.
(* characters that can never be part of an attribute name token *)
Definition name_char (c : N) : bool :=
  negb (xml_ws c || N.eqb c 61 || N.eqb c 34 || N.eqb c 39 || N.eqb c 60 || N.eqb c 62 || N.eqb c 47).

Inductive pstate :=
| PWs | PName (buf : str) | PEq (name : str) | PVal (q : N) (buf : str) (name : str) | PAfter.

Fixpoint pa (s : str) (st : pstate) (acc : list (str * str)) : option (list (str * str)) :=
  match s with
  | [] => match st with PWs | PAfter => Some (rev acc) | _ => None end
  | c :: t =>
      match st with
      | PWs => if xml_ws c then pa t PWs acc
               else if name_char c then pa t (PName [c]) acc else None
      | PName buf => if N.eqb c 61 then pa t (PEq (rev buf)) acc
                     else if name_char c then pa t (PName (c :: buf)) acc else None
      | PEq name => if N.eqb c 34 || N.eqb c 39 then pa t (PVal c [] name) acc else None
      | PVal q buf name =>
          if N.eqb c q then
            match unescape (rev buf) with
            | Some v => pa t PAfter ((name, v) :: acc)
            | None => None
            end
          else if N.eqb c 60 then None
          else pa t (PVal q (c :: buf) name) acc
      | PAfter => if xml_ws c then pa t PWs acc else None
      end
  end.
Definition parse_attrs (s : str) : option (list (str * str)) := pa s PWs [].

Definition present (attrs : list attr) : list (str * str) :=
  flat_map (fun a => match snd a with Some v => [(fst a, v)] | None => [] end) attrs.

(* ---- event view of a writer program *)
Inductive event :=
| EOpen (tag : str) (attrs : list attr)
| EClose (tag : str)
| ELeaf (tag : str) (attrs : list attr) (data : option str)
| EComment (text : str).

(* programs that only use `with tagcontext` for nesting (as giscanner/girwriter.py does) *)
Fixpoint events (p : stmt) : list event * bool :=
  match p with
  | SLeaf t a d => ([ELeaf t a d], false)
  | SComment x => ([EComment x], false)
  | SCtx t a body =>
      let '(evs, r) := (fix run (l : list stmt) : list event * bool :=
                          match l with
                          | [] => ([], false)
                          | x :: rest => let '(e1, r1) := events x in
                                         if r1 then (e1, true)
                                         else let '(e2, r2) := run rest in (e1 ++ e2, r2)
                          end) body in
      (EOpen t a :: evs ++ [EClose t], r)
  | SPush t a => ([EOpen t a], false)
  | SPop => ([], false)     (* not used by ctx_only programs *)
  | SRaise => ([], true)
  end.

Fixpoint events_list (l : list stmt) : list event * bool :=
  match l with
  | [] => ([], false)
  | x :: rest => let '(e1, r1) := events x in
                 if r1 then (e1, true)
                 else let '(e2, r2) := events_list rest in (e1 ++ e2, r2)
  end.

Fixpoint ctx_only (p : stmt) : bool :=
  match p with
  | SCtx _ _ body => forallb ctx_only body
  | SPush _ _ | SPop => false
  | _ => true
  end.

(* well-bracketedness of an event list relative to a stack of open names *)
Fixpoint check (evs : list event) (stk : list str) : option (list str) :=
  match evs with
  | [] => Some stk
  | EOpen t _ :: r => check r (t :: stk)
  | EClose t :: r => match stk with
                     | t' :: stk' => if str_eqb t t' then check r stk' else None
                     | [] => None
                     end
  | _ :: r => check r stk
  end.

Definition render_event (ind : Z) (e : event) : str * Z :=
  match e with
  | EOpen t a => (mul_str [32] ind ++ [60] ++ t ++ collect_attributes t a ind [32] (zlen t + 2) ++ [62] ++ [10], (ind + 2)%Z)
  | EClose t => (mul_str [32] (ind - 2) ++ [60;47] ++ t ++ [62] ++ [10], (ind - 2)%Z)
  | ELeaf t a d => (mul_str [32] ind ++ build_xml_tag t a d ind [32] ++ [10], ind)
  | EComment x => (mul_str [32] ind ++ [60;33;45;45;32] ++ x ++ [32;45;45;62] ++ [10], ind)
  end.
Fixpoint render (ind : Z) (evs : list event) : str * Z :=
  match evs with
  | [] => ([], ind)
  | e :: r => let '(s1, i1) := render_event ind e in
              let '(s2, i2) := render i1 r in (s1 ++ s2, i2)
  end.
