From Coq Require Import List NArith Bool.
From GIV.Lib Require Import Regex Str.
From GIV.Gen Require Import TypeNames.
Import ListNotations.
Local Open Scope N_scope.

(* The type sub-language of GIR files: giscanner/girwriter.py:_write_type and
   giscanner/girparser.py:_parse_type_simple / _parse_type / _parse_type_array_length, operation by operation.
   Types as the abstract syntax tree holds them (ast.Type, Array, List, Map, Varargs, TypeUnknown): *)
Inductive aty :=
| AVarargs
| AArray (kind : option str)         (* None: a C array (Array.C); else GLib.Array / GLib.ByteArray / GLib.PtrArray *)
         (ctype : option str) (zero : bool) (size : option N)
         (len : option N)            (* index of the length parameter or field among the siblings *)
         (elem : aty)
| AList (name : str) (ctype : option str) (elem : aty)       (* GLib.List / GLib.SList *)
| AMap (ctype : option str) (key value : aty)
| AFund (name : str) (ctype : option str)                    (* target_fundamental *)
| ANamed (giname : str) (ctype : option str)                 (* target_giname "Namespace.Name" *)
| AUnresolved (ctype : option str).                          (* neither: the C type only; TypeUnknown when there is none *)

(* XML elements: tag, attributes in document order, children *)
Inductive xt := XT (tag : str) (attrs : list (str * str)) (kids : list xt).

Definition s_type : str := [116;121;112;101].
Definition s_array : str := [97;114;114;97;121].
Definition s_varargs : str := [118;97;114;97;114;103;115].
Definition s_callback : str := [99;97;108;108;98;97;99;107].
Definition s_name : str := [110;97;109;101].
Definition s_ctype : str := [99;58;116;121;112;101].
Definition s_zero : str := [122;101;114;111;45;116;101;114;109;105;110;97;116;101;100].
Definition s_fixed : str := [102;105;120;101;100;45;115;105;122;101].
Definition s_length : str := [108;101;110;103;116;104].
Definition s_glist : str := [71;76;105;98;46;76;105;115;116].
Definition s_gslist : str := [71;76;105;98;46;83;76;105;115;116].
Definition s_ghash : str := [71;76;105;98;46;72;97;115;104;84;97;98;108;101].
Definition s_garray : str := [71;76;105;98;46;65;114;114;97;121].
Definition s_gbytearray : str := [71;76;105;98;46;66;121;116;101;65;114;114;97;121].
Definition s_gptrarray : str := [71;76;105;98;46;80;116;114;65;114;114;97;121].
Definition s_gpointer : str := [103;112;111;105;110;116;101;114].

(* '%d' % n and int(s) for non-negative numbers *)
Fixpoint dec_fuel (fuel : nat) (n : N) (acc : str) : str :=
  match fuel with
  | O => acc
  | S f => let d := 48 + N.modulo n 10 in
           if N.ltb n 10 then d :: acc else dec_fuel f (N.div n 10) (d :: acc)
  end.
Definition dec (n : N) : str := dec_fuel (S (N.to_nat (N.log2 n))) n [].
Definition is_digit (c : N) : bool := N.leb 48 c && N.leb c 57.
Definition undec (s : str) : option N :=
  match s with
  | [] => None
  | _ => if forallb is_digit s then Some (fold_left (fun a c => a * 10 + (c - 48)) s 0) else None
  end.

(* ---- writer *)
Definition opt_attr (k : str) (v : option str) : list (str * str) :=
  match v with Some x => [(k, x)] | None => [] end.

(* GIRWriter._type_to_name: the namespace's own prefix is dropped *)
Definition to_name (ns giname : str) : str :=
  if startswith (ns ++ [46]) giname then skipn (length ns + 1) giname else giname.

Fixpoint write_ty (ns : str) (t : aty) : xt :=
  match t with
  | AVarargs => XT s_varargs [] []
  | AArray kind ctype zero size len elem =>
      XT s_array
         (opt_attr s_length (option_map dec len)
          ++ (if negb zero then [(s_zero, [48])]
              else match size, len with None, None => [] | _, _ => [(s_zero, [49])] end)
          ++ opt_attr s_name kind ++ opt_attr s_ctype ctype
          ++ opt_attr s_fixed (option_map dec size))
         [write_ty ns elem]
  | AList name ctype elem =>
      XT s_type ((match name with [] => [] | _ => [(s_name, name)] end) ++ opt_attr s_ctype ctype) [write_ty ns elem]
  | AMap ctype k v => XT s_type ((s_name, s_ghash) :: opt_attr s_ctype ctype) [write_ty ns k; write_ty ns v]
  | AFund name ctype => XT s_type ((s_name, name) :: opt_attr s_ctype ctype) []
  | ANamed g ctype => XT s_type ((s_name, to_name ns g) :: opt_attr s_ctype ctype) []
  | AUnresolved ctype => XT s_type (opt_attr s_ctype ctype) []
  end.

(* ---- reader *)
Fixpoint attr (k : str) (a : list (str * str)) : option str :=
  match a with
  | [] => None
  | (k', v) :: r => if str_eqb k k' then Some v else attr k r
  end.

Definition tag_of (x : xt) : str := match x with XT t _ _ => t end.

Fixpoint find_tag (t : str) (l : list xt) : option xt :=
  match l with
  | [] => None
  | x :: r => if str_eqb (tag_of x) t then Some x else find_tag t r
  end.

Definition is_fund (name : str) : bool := existsb (fun p => str_eqb name (fst p)) type_names.
Definition has_dot (s : str) : bool := existsb (N.eqb 46) s.

(* ast.Namespace.type_from_name *)
Definition type_from_name (ns name : str) (ctype : option str) : aty :=
  if is_fund name then AFund name ctype
  else if has_dot name then ANamed name ctype
  else ANamed (ns ++ [46] ++ name) ctype.

Definition type_any : aty := AFund s_gpointer (Some s_gpointer).

Definition array_kind_ok (k : option str) : bool :=
  match k with
  | None => true
  | Some n => str_eqb n s_garray || str_eqb n s_gbytearray || str_eqb n s_gptrarray
  end.

(* first result among the children whose tag is t *)
Fixpoint find_res (t : str) (tags : list str) (res : list (option aty)) : option (option aty) :=
  match tags, res with
  | g :: tr, r :: rr => if str_eqb g t then Some r else find_res t tr rr
  | _, _ => None
  end.

(* _parse_type(node): node.find('callback'), then 'array', 'varargs', 'type'; None when there is none (an AssertionError)
   or when the chosen child cannot be read *)
Definition pick (tags : list str) (res : list (option aty)) : option aty :=
  match find_res s_callback tags res with
  | Some r => r
  | None => match find_res s_array tags res with
            | Some r => r
            | None => match find_res s_varargs tags res with
                      | Some r => r
                      | None => match find_res s_type tags res with Some r => r | None => None end
                      end
            end
  end.

(* the <type> and <array> children, in document order *)
Fixpoint sel_types (tags : list str) (res : list (option aty)) : list (option aty) :=
  match tags, res with
  | g :: tr, r :: rr => if str_eqb g s_type || str_eqb g s_array then r :: sel_types tr rr else sel_types tr rr
  | _, _ => []
  end.

Definition read_num (o : option str) (empty_is_none : bool) : option (option N) :=
  match o with
  | None => Some None
  | Some [] => if empty_is_none then Some None else None
  | Some f => match undec f with Some n => Some (Some n) | None => None end
  end.

(* _parse_type_simple on an element (with _parse_type_array_length for the length index); None stands for an AssertionError,
   KeyError or ValueError of the reader.  Every child is read; only the ones the reader looks at are used (a child it does
   not look at cannot make it fail). *)
Fixpoint read_ty (ns : str) (x : xt) : option aty :=
  match x with
  | XT tag a kids =>
      let tags := map tag_of kids in
      let res := map (read_ty ns) kids in
      if str_eqb tag s_callback then
        match attr s_name a with Some n => Some (type_from_name ns n (attr s_ctype a)) | None => None end
      else if str_eqb tag s_array then
        let kind := attr s_name a in
        if negb (array_kind_ok kind) then None else
        match pick tags res with
        | None => None
        | Some e =>
            let zero := match attr s_zero a with Some z => negb (str_eqb z [48]) | None => true end in
            match read_num (attr s_fixed a) true, read_num (attr s_length a) false with
            | Some size, Some len => Some (AArray kind (attr s_ctype a) zero size len e)
            | _, _ => None
            end
        end
      else if str_eqb tag s_varargs then Some AVarargs
      else if str_eqb tag s_type then
        let ctype := attr s_ctype a in
        match attr s_name a with
        | None => Some (AUnresolved ctype)
        | Some name =>
            if str_eqb name s_glist || str_eqb name s_gslist then
              (* the list of tags the reader looks for has "    varargs" in it: a <varargs/> child alone is not found *)
              if existsb (fun g => str_eqb g s_callback || str_eqb g s_array || str_eqb g s_type) tags
              then match pick tags res with Some e => Some (AList name ctype e) | None => None end
              else Some (AList name ctype type_any)
            else if str_eqb name s_ghash then
              match sel_types tags res with
              | [] => Some (AMap ctype type_any type_any)
              | [Some k] => Some (AMap ctype k type_any)
              | Some k :: Some v :: r => if forallb (fun o => match o with Some _ => true | None => false end) r
                                         then Some (AMap ctype k v) else None
              | _ => None
              end
            else Some (type_from_name ns name ctype)
        end
      else None
  end.

(* ---- comparisons (used by the correspondence check) *)
Definition ostr_eqb (a b : option str) : bool :=
  match a, b with Some x, Some y => str_eqb x y | None, None => true | _, _ => false end.
Definition oN_eqb (a b : option N) : bool :=
  match a, b with Some x, Some y => N.eqb x y | None, None => true | _, _ => false end.

Fixpoint aty_eqb (a b : aty) : bool :=
  match a, b with
  | AVarargs, AVarargs => true
  | AArray k1 c1 z1 s1 l1 e1, AArray k2 c2 z2 s2 l2 e2 =>
      ostr_eqb k1 k2 && ostr_eqb c1 c2 && Bool.eqb z1 z2 && oN_eqb s1 s2 && oN_eqb l1 l2 && aty_eqb e1 e2
  | AList n1 c1 e1, AList n2 c2 e2 => str_eqb n1 n2 && ostr_eqb c1 c2 && aty_eqb e1 e2
  | AMap c1 k1 v1, AMap c2 k2 v2 => ostr_eqb c1 c2 && aty_eqb k1 k2 && aty_eqb v1 v2
  | AFund n1 c1, AFund n2 c2 => str_eqb n1 n2 && ostr_eqb c1 c2
  | ANamed n1 c1, ANamed n2 c2 => str_eqb n1 n2 && ostr_eqb c1 c2
  | AUnresolved c1, AUnresolved c2 => ostr_eqb c1 c2
  | _, _ => false
  end.

Fixpoint attrs2_eqb (a b : list (str * str)) : bool :=
  match a, b with
  | [], [] => true
  | (n1, v1) :: r1, (n2, v2) :: r2 => str_eqb n1 n2 && str_eqb v1 v2 && attrs2_eqb r1 r2
  | _, _ => false
  end.

Fixpoint xt_eqb (a b : xt) : bool :=
  match a, b with
  | XT t1 a1 k1, XT t2 a2 k2 =>
      str_eqb t1 t2 && attrs2_eqb a1 a2 &&
      (fix all2 (l1 l2 : list xt) : bool :=
         match l1, l2 with
         | [], [] => true
         | x :: r1, y :: r2 => xt_eqb x y && all2 r1 r2
         | _, _ => false
         end) k1 k2
  end.

Definition oaty_eqb (a b : option aty) : bool :=
  match a, b with Some x, Some y => aty_eqb x y | None, None => true | _, _ => false end.
