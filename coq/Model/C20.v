From Coq Require Import List NArith ZArith Bool.
From GIV.Lib Require Import Regex Str.
Import ListNotations.
Local Open Scope N_scope.

(* giscanner/xmlwriter.py and xml.sax.saxutils.escape/quoteattr, operation by operation *)

(* str.replace of a single character by a string *)
Definition replace_char (c : N) (r : str) (s : str) : str :=
  flat_map (fun x => if N.eqb x c then r else [x]) s.

Definition s_amp : str := [38;97;109;112;59].      (* "&amp;" *)
Definition s_gt : str := [38;103;116;59].          (* "&gt;" *)
Definition s_lt : str := [38;108;116;59].          (* "&lt;" *)
Definition s_quot : str := [38;113;117;111;116;59]. (* "&quot;" *)
Definition s_nl : str := [38;35;49;48;59].         (* "&#10;" *)
Definition s_cr : str := [38;35;49;51;59].         (* "&#13;" *)
Definition s_tab : str := [38;35;57;59].           (* "&#9;" *)

(* saxutils.escape: & first, then >, then < *)
Definition escape (s : str) : str :=
  replace_char 60 s_lt (replace_char 62 s_gt (replace_char 38 s_amp s)).

Definition mem (c : N) (s : str) : bool := existsb (N.eqb c) s.

(* saxutils.quoteattr *)
Definition quoteattr (s : str) : str :=
  let d := replace_char 9 s_tab (replace_char 13 s_cr (replace_char 10 s_nl (escape s))) in
  if mem 34 d then
    if mem 39 d then [34] ++ replace_char 34 s_quot d ++ [34]
    else [39] ++ d ++ [39]
  else [34] ++ d ++ [34].

Definition attr := (str * option str)%type.

Fixpoint repeat_str (s : str) (n : nat) : str :=
  match n with O => [] | S k => s ++ repeat_str s k end.
Definition mul_str (s : str) (z : Z) : str := repeat_str s (Z.to_nat z).   (* s * z, z may be negative *)

Definition zlen (s : str) : Z := Z.of_nat (length s).

(* _calc_attrs_length; indent = -1 means "do not wrap" *)
Definition calc_attrs_length (attrs : list attr) (indent self_indent : Z) : Z :=
  if Z.eqb indent (-1) then (-1)%Z
  else (fold_left (fun acc a => match snd a with
                                | None => acc
                                | Some v => acc + 2 + zlen (fst a) + zlen (quoteattr v)
                                end) attrs 0 + indent + self_indent)%Z.

Fixpoint collect_loop (attrs : list attr) (indent_len : Z) (ichar : str) (first : bool) : str :=
  match attrs with
  | [] => []
  | (n, None) :: t => collect_loop t indent_len ichar first
  | (n, Some v) :: t =>
      (if negb (Z.eqb indent_len 0) && negb first then [10] ++ mul_str ichar indent_len else [])
      ++ [32] ++ n ++ [61] ++ quoteattr v ++ collect_loop t indent_len ichar false
  end.

Definition collect_attributes (tag : str) (attrs : list attr) (self_indent : Z) (ichar : str) (indent : Z) : str :=
  match attrs with
  | [] => []
  | _ =>
    let indent_len := if Z.ltb 79 (calc_attrs_length attrs indent self_indent)
                      then (self_indent + zlen tag + 1)%Z else 0%Z in
    collect_loop attrs indent_len ichar true
  end.

Definition build_xml_tag (tag : str) (attrs : list attr) (data : option str) (self_indent : Z) (ichar : str) : str :=
  let prefix := [60] ++ tag in
  let suffix := match data with
                | Some d => [62] ++ escape d ++ [60;47] ++ tag ++ [62]
                | None => [47;62]
                end in
  prefix ++ collect_attributes tag attrs self_indent ichar (zlen prefix + zlen suffix) ++ suffix.

(* writer state; whitespace enabled (the GIR writer never disables it) *)
Record wstate := { w_out : str; w_stack : list str; w_indent : Z }.
Definition xml_decl : str :=
  [60;63;120;109;108;32;118;101;114;115;105;111;110;61;34;49;46;48;34;32;101;110;99;111;100;105;110;103;61;34;
   117;116;102;45;56;34;63;62;10].
Definition w_init : wstate := {| w_out := xml_decl; w_stack := []; w_indent := 0 |}.

Definition write_line (st : wstate) (line : str) : wstate :=
  {| w_out := st.(w_out) ++ mul_str [32] st.(w_indent) ++ line ++ [10];
     w_stack := st.(w_stack); w_indent := st.(w_indent) |}.

Definition write_comment (st : wstate) (text : str) : wstate :=
  write_line st ([60;33;45;45;32] ++ text ++ [32;45;45;62]).

Definition write_tag (st : wstate) (tag : str) (attrs : list attr) (data : option str) : wstate :=
  write_line st (build_xml_tag tag attrs data st.(w_indent) [32]).

Definition push_tag (st : wstate) (tag : str) (attrs : list attr) : wstate :=
  let st' := write_line st ([60] ++ tag ++ collect_attributes tag attrs st.(w_indent) [32] (zlen tag + 2) ++ [62]) in
  {| w_out := st'.(w_out); w_stack := tag :: st.(w_stack); w_indent := (st.(w_indent) + 2)%Z |}.

(* pop_tag: the indent is decreased before list.pop() can raise IndexError *)
Definition pop_tag (st : wstate) : wstate * bool (* raised *) :=
  let ind := (st.(w_indent) - 2)%Z in
  match st.(w_stack) with
  | [] => ({| w_out := st.(w_out); w_stack := []; w_indent := ind |}, true)
  | t :: rest =>
      (write_line {| w_out := st.(w_out); w_stack := rest; w_indent := ind |} ([60;47] ++ t ++ [62]), false)
  end.

(* programs using the writer: leaf tags, comments, `with tagcontext(...)` blocks, explicit
   push/pop, and a statement that raises *)
Inductive stmt :=
| SLeaf (tag : str) (attrs : list attr) (data : option str)
| SComment (text : str)
| SCtx (tag : str) (attrs : list attr) (body : list stmt)
| SPush (tag : str) (attrs : list attr)
| SPop
| SRaise.

Fixpoint exec (p : stmt) (st : wstate) : wstate * bool :=
  match p with
  | SLeaf t a d => (write_tag st t a d, false)
  | SComment x => (write_comment st x, false)
  | SCtx t a body =>
      let st1 := push_tag st t a in
      let '(st2, r) := (fix run (l : list stmt) (s : wstate) : wstate * bool :=
                          match l with
                          | [] => (s, false)
                          | x :: rest => let '(s', r) := exec x s in if r then (s', true) else run rest s'
                          end) body st1 in
      (* finally: self.pop_tag() -- an exception raised by it replaces the pending one *)
      let '(st3, r3) := pop_tag st2 in (st3, r || r3)
  | SPush t a => (push_tag st t a, false)
  | SPop => pop_tag st
  | SRaise => (st, true)
  end.

Fixpoint exec_list (l : list stmt) (s : wstate) : wstate * bool :=
  match l with
  | [] => (s, false)
  | x :: rest => let '(s', r) := exec x s in if r then (s', true) else exec_list rest s'
  end.

Definition run_program (l : list stmt) : str * bool :=
  let '(s, r) := exec_list l w_init in (s.(w_out), r).
