From Coq Require Import List NArith Bool String Ascii.
From GIV.Lib Require Import Regex Str.
From GIV.Model Require Import C02 C16.
From GIV.Model Require C01.
Import ListNotations.
Local Open Scope N_scope.

(* Names and owners of functions: giscanner/utils.py to_underscores_noprefix,
   giscanner/maintransformer.py _split_uscored_by_type, _pair_function, _is_constructor,
   _get_constructor_class/_name, _is_method, _get_uscored_prefix, _setup_method,
   _pair_static_method, and the registration of underscore names in transform(). *)

Definition is_upper (c : N) : bool := N.leb 65 c && N.leb c 90.
Definition is_lower_or_digit (c : N) : bool := (N.leb 97 c && N.leb c 122) || (N.leb 48 c && N.leb c 57).
Definition to_lower (c : N) : N := if is_upper c then c + 32 else c.
Definition us : N := 95.

(* re.sub(r'([^A-Z])([A-Z])', r'\1_\2'): non-overlapping matches from the left *)
Fixpoint pat1 (x : str) : str :=
  match x with
  | a :: ((b :: r) as t) => if negb (is_upper a) && is_upper b then a :: us :: b :: pat1 r else a :: pat1 t
  | _ => x
  end.
(* re.sub(r'([A-Z][A-Z])([A-Z][0-9a-z])', r'\1_\2') *)
Fixpoint pat2 (x : str) : str :=
  match x with
  | a :: ((b :: c :: d :: r) as t) =>
      if is_upper a && is_upper b && is_upper c && is_lower_or_digit d then a :: b :: us :: c :: d :: pat2 r else a :: pat2 t
  | _ => x
  end.
Definition uscore_noprefix (name : str) : str := map to_lower (pat2 (pat1 name)).

(* ---- the types of the namespace *)
Inductive tkind := TClass | TInterface | TRecord | TBoxedRecord | TEnum.
Record ty := { t_name : str; t_kind : tkind; t_prefix : option str (* c_symbol_prefix, from the get-type function *);
               t_parents : list str (* ancestors of a class, nearest first, local names *) }.
Definition registered (t : ty) : bool := match t_prefix t with Some _ => true | None => false end.

(* transform(): the reverse mapping "bar_baz" -> BarBaz; later entries replace earlier ones *)
Definition uscore_key (t : ty) : option str :=
  match t_prefix t with
  | Some p => Some p
  | None => match t_kind t with TRecord | TBoxedRecord => Some (uscore_noprefix (t_name t)) | _ => None end
  end.
Fixpoint uscore_lookup (types : list ty) (key : str) (acc : option ty) : option ty :=
  match types with
  | [] => acc
  | t :: r => uscore_lookup r key (match uscore_key t with Some k => if str_eqb k key then Some t else acc | None => acc end)
  end.

(* str.rsplit('_', count): the part before the last [count] underscores *)
Fixpoint split_us (x : str) (cur : str) : list str :=       (* components at every underscore *)
  match x with
  | [] => [rev cur]
  | c :: r => if N.eqb c us then rev cur :: split_us r [] else split_us r (c :: cur)
  end.
Fixpoint join_us (l : list str) : str :=
  match l with [] => [] | [x] => x | x :: r => x ++ us :: join_us r end.

(* _split_uscored_by_type: the longest prefix (in whole components) that names a type *)
Fixpoint split_by_type_aux (types : list ty) (comps : list str) (k : nat) : option (ty * str) :=
  (* k = number of leading components tried as the type name *)
  match k with
  | O => None
  | S k' => match uscore_lookup types (join_us (firstn k comps)) None with
            | Some t => Some (t, join_us (skipn k comps))
            | None => split_by_type_aux types comps k'
            end
  end.
Definition split_by_type (types : list ty) (uscored : str) : option (ty * str) :=
  let comps := split_us uscored [] in split_by_type_aux types comps (List.length comps).

(* ---- a function as the pairing code sees it *)
Record func := { fn_symbol : str;            (* whole C symbol *)
                 fn_sub : str;               (* symbol without the namespace prefix *)
                 fn_first : option (str * nat);   (* first parameter: local type name of this namespace and pointer depth *)
                 fn_nparams : nat;
                 fn_ret : option str;        (* return type: local type name *)
                 fn_ann_method : bool; fn_ann_constructor : bool }.

Definition find_type (types : list ty) (n : str) : option ty := find (fun t => str_eqb (t_name t) n) types.
Definition can_construct (t : ty) : bool := match t_kind t with TClass => true | TBoxedRecord => registered t | _ => false end.
Definition can_have_methods (t : ty) : bool := match t_kind t with TEnum => false | _ => true end.

Definition guess_constructor (sym : str) : bool :=
  endswith (s "_new") sym || C01.contains2 (s "_new_") sym || endswith (s "_newv") sym.

(* _is_constructor *)
Definition is_constructor (types : list ty) (f : func) : option (ty * str) :=
  if negb (fn_ann_constructor f || guess_constructor (fn_symbol f)) then None else
  match fn_ret f with
  | None => None
  | Some rn =>
      match find_type types rn with
      | None => None
      | Some target =>
          if negb (can_construct target) then None else
          match split_by_type types (fn_sub f) with
          | None => None            (* annotated constructors fall back to the return type; not generated *)
          | Some (origin, name) =>
              if negb (can_construct origin) then None
              else if negb (fn_ann_constructor f)
                      && match fn_first f with Some (ft, _) => str_eqb ft (t_name origin) | None => false end then None
              else match t_kind target with
                   | TClass => if str_eqb (t_name origin) (t_name target) || existsb (str_eqb (t_name target)) (t_parents origin)
                               then Some (origin, name) else None
                   | _ => if str_eqb (t_name origin) (t_name target) then Some (origin, name) else None
                   end
          end
      end
  end.

(* _get_uscored_prefix *)
Definition uscored_prefix (t : ty) (sub : str) : str :=
  match t_prefix t with
  | Some p => if startswith p sub then p else uscore_noprefix (t_name t)
  | None => uscore_noprefix (t_name t)
  end.

Inductive place :=
| PTop (name : str)                                 (* stays a function of the namespace *)
| PMethod (owner name : str)
| PConstructor (owner name : str)
| PStatic (owner name : str) (copy : bool)          (* copy: the namespace keeps a moved-to copy *)
| PMovedMethod (owner name : str).                  (* g_resources_register: function stays, a method copy is added *)

(* _is_method / _setup_method *)
Definition as_method (types : list ty) (f : func) : option place :=
  match fn_first f with
  | None => None
  | Some (ft, depth) =>
      match find_type types ft with
      | None => None
      | Some target =>
          if negb (can_have_methods target) then None
          else if Nat.ltb 1 depth then None
          else
            let p := uscored_prefix target (fn_sub f) in
            if fn_ann_method f then Some (PMethod (t_name target) (fn_sub f))     (* annotated: keeps its name *)
            else if negb (startswith p (fn_sub f)) then None
            else if startswith (p ++ [us]) (fn_sub f)
                 then Some (PMethod (t_name target) (skipn (S (List.length p)) (fn_sub f)))
                 else Some (PMovedMethod (t_name target) (skipn (S (List.length p)) (fn_sub f)))
      end
  end.

(* _pair_static_method *)
Definition as_static (types : list ty) (f : func) : option place :=
  match split_by_type types (fn_sub f) with
  | Some (t, name) =>
      match name with
      | [] => None
      | _ => match t_kind t with
             | TClass => Some (PStatic (t_name t) name false)
             | _ => Some (PStatic (t_name t) name true)
             end
      end
  | None => None
  end.

Definition is_type_meta (f : func) : bool :=
  (endswith (s "_get_type") (fn_symbol f) || endswith (s "_get_gtype") (fn_symbol f)) && Nat.eqb (fn_nparams f) 0.

(* _pair_function *)
Definition pair_function (types : list ty) (f : func) : place :=
  if is_type_meta f then PTop (fn_sub f) else
  match is_constructor types f with
  | Some (origin, name) => PConstructor (t_name origin) name
  | None => match as_method types f with
            | Some p => p
            | None => match as_static types f with
                      | Some p => p
                      | None => PTop (fn_sub f)
                      end
            end
  end.
