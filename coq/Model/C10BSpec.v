From Coq Require Import List Arith NArith Bool.
From GIV.Lib Require Import Regex Str.
From GIV.Model Require Import C02 C10 C10B.
Import ListNotations.
Local Open Scope N_scope.

(* C10, specification side of the block level: lines joined by one of the three line-ending conventions *)
Fixpoint join_lines (sep : str) (ls : list str) : str :=
  match ls with
  | [] => []
  | [l] => l
  | l :: t => l ++ sep ++ join_lines sep t
  end.
Definition plain_line (l : str) : Prop := Forall (fun c => c <> 10 /\ c <> 13) l.

Definition sep_ok (sep : str) : Prop := sep = [10] \/ sep = [13] \/ sep = [13; 10].

