From Coq Require Import List Arith NArith Bool.
From GIV.Lib Require Import Regex Str Backtrack.
From GIV.Gen Require Import UnicodeRe.
From GIV.Model Require Import C02 C10 C10B.
Import ListNotations.
Local Open Scope N_scope.

(* C10, specification side of the block level: lines joined by one of the three line-ending conventions *)
Fixpoint join_lines (sep : str) (ls : list str) : str :=
  match ls with
  | [] => []
  | [l] => l
  | l :: t => l ++ sep ++ join_lines sep t
  end.
Definition plain_line (l : str) : Prop := Forall (fun c => c <> 10 /\ c <> 13) l.

Definition sep_ok (sep : str) : Prop := sep = [10] \/ sep = [13] \/ sep = [13; 10].


(* a text without line feed (what reaches the patterns of the parser: lines are cut at line feeds) *)
Definition no_lf (x : str) : Prop := Forall (fun ch => ch <> 10) x.

(* the state of the line loop but for block.indentation and the diagnostics *)
Definition lst_c (st : lst) := (l_blk st, l_warned st, l_pindent st, l_part st, l_cur st, l_rseen st, l_exc st).

Definition sp_cls : cls := CRanges re_space_ranges.

Definition blanks (ind : str) : Prop := Forall (fun x => cls_mem sp_cls x = true /\ x <> 10) ind.

Definition asterisk_lines (inds rests : list str) : list str := map (fun p => fst p ++ 42 :: snd p) (combine inds rests).

