From Coq Require Import List NArith ZArith Bool.
From GIV.Lib Require Import Regex Str.
Import ListNotations.
Local Open Scope Z_scope.

(* girepository/girepository.c: version parsing/comparison, search, election, require *)

(* ---- strtol (s, &end, 10) followed by the assignment to an int *)
Definition c_isspace (c : N) : bool :=
  (N.eqb c 32 || N.eqb c 9 || N.eqb c 10 || N.eqb c 11 || N.eqb c 12 || N.eqb c 13)%bool.
Definition is_digit (c : N) : bool := ((48 <=? c) && (c <=? 57))%N.

Fixpoint skip_space (s : str) : str :=
  match s with c :: t => if c_isspace c then skip_space t else s | [] => [] end.
Fixpoint digits (s : str) (acc : Z) (n : nat) : Z * nat * str :=
  match s with
  | c :: t => if is_digit c then digits t (acc * 10 + Z.of_N (c - 48)%N) (S n) else (acc, n, s)
  | [] => (acc, n, [])
  end.
Definition long_max : Z := 9223372036854775807.
Definition to_int32 (z : Z) : Z := ((z + 2147483648) mod 4294967296) - 2147483648.

(* value (as int) and the remaining string at *end; with no digits, end = the start *)
Definition strtol_int (s : str) : Z * str :=
  let s1 := skip_space s in
  let '(neg, s2) := match s1 with
                    | 45%N :: t => (true, t)
                    | 43%N :: t => (false, t)
                    | _ => (false, s1)
                    end in
  let '(v, n, rest) := digits s2 0 O in
  match n with
  | O => (0, s)
  | _ => let v' := if neg then (if long_max + 1 <? v then - long_max - 1 else - v)
                   else (if long_max <? v then long_max else v) in
         (to_int32 v', rest)
  end.

Fixpoint after_dot (s : str) : option str :=       (* strchr (s, '.') + 1 *)
  match s with [] => None | c :: t => if N.eqb c 46 then Some t else after_dot t end.
Fixpoint upto_dot (s : str) : str :=
  match s with [] => [] | c :: t => if N.eqb c 46 then [] else c :: upto_dot t end.

Definition parse_version (v : str) : option (Z * Z) :=
  let '(major, e1) := strtol_int v in
  match after_dot v with
  | None => Some (major, 0)
  | Some rest =>
      (* dot != end  <->  the unparsed remainder does not start exactly at the first dot *)
      if negb (Nat.eqb (length e1) (S (length rest))) then None
      else let '(minor, e2) := strtol_int rest in
           match e2 with [] => Some (major, minor) | _ => None end
  end.

Definition compare_version (a b : Z * Z) : Z :=
  let '(a1, a2) := a in let '(b1, b2) := b in
  if b1 <? a1 then 1 else if a1 <? b1 then -1 else if b2 <? a2 then 1 else if a2 <? b2 then -1 else 0.

(* ---- file system view *)
Record tfile := { f_ns : str; f_version : str; f_deps : list (str * str) }.
Definition content := option tfile.                    (* None: not a loadable typelib *)
Definition dir := list (str * content).                (* entries in readdir order *)
Definition fs := list (str * dir).                     (* directories by path; absent = unreadable *)

Fixpoint lookup_dir (fsys : fs) (d : str) : option dir :=
  match fsys with [] => None | (n, x) :: t => if str_eqb n d then Some x else lookup_dir t d end.
Fixpoint lookup_file (d : dir) (name : str) : option content :=
  match d with [] => None | (n, c) :: t => if str_eqb n name then Some c else lookup_file t name end.

Definition dot_typelib : str := [46;116;121;112;101;108;105;98]%N.
Definition fname (ns ver : str) : str := ns ++ [45%N] ++ ver ++ dot_typelib.

(* find_namespace_version: first directory of the path in which the file can be mapped *)
Fixpoint find_version (fsys : fs) (path : list str) (name : str) : option (str * content) :=
  match path with
  | [] => None
  | d :: t => match lookup_dir fsys d with
              | Some dd => match lookup_file dd name with
                           | Some c => Some (d, c)
                           | None => find_version fsys t name
                           end
              | None => find_version fsys t name
              end
  end.

(* text after the last '-' and before the last '.' of an entry name *)
Fixpoint last_index (c : N) (s : str) (i : nat) (acc : option nat) : option nat :=
  match s with [] => acc | x :: t => last_index c t (S i) (if N.eqb x c then Some i else acc) end.
Definition entry_version (entry : str) : str :=
  match last_index 45 entry 0%nat None, last_index 46 entry 0%nat None with
  | Some d, Some p => firstn (p - S d)%nat (skipn (S d) entry)
  | _, _ => []
  end.

Record candidate := { c_index : nat; c_dir : str; c_entry : str; c_version : str; c_content : content }.

(* enumerate_namespace_versions: candidates in the order of the C list (prepended) *)
Fixpoint scan_dir (ns_dash : str) (index : nat) (dname : str) (entries : dir) (found : list str) (acc : list candidate)
  : list str * list candidate :=
  match entries with
  | [] => (found, acc)
  | (entry, c) :: t =>
      if negb (endswith dot_typelib entry) || negb (startswith ns_dash entry) then scan_dir ns_dash index dname t found acc
      else let v := entry_version entry in
           match parse_version v with
           | None => scan_dir ns_dash index dname t found acc
           | Some _ =>
               if existsb (str_eqb v) found then scan_dir ns_dash index dname t found acc
               else scan_dir ns_dash index dname t (v :: found)
                             ({| c_index := index; c_dir := dname; c_entry := entry; c_version := v; c_content := c |} :: acc)
           end
  end.
Fixpoint enumerate (fsys : fs) (ns_dash : str) (path : list str) (index : nat) (found : list str) (acc : list candidate)
  : list candidate :=
  match path with
  | [] => acc
  | d :: t => match lookup_dir fsys d with
              | None => enumerate fsys ns_dash t index found acc
              | Some entries => let '(found', acc') := scan_dir ns_dash index d entries found acc in
                                enumerate fsys ns_dash t (S index) found' acc'
              end
  end.

Definition pv (v : str) : Z * Z := match parse_version v with Some p => p | None => (0, 0) end.
(* compare_candidate_reverse c1 c2 < 0 : c1 sorts before c2 *)
Definition cand_before (c1 c2 : candidate) : bool :=
  let r := compare_version (pv c1.(c_version)) (pv c2.(c_version)) in
  if 0 <? r then true else if r <? 0 then false else Nat.ltb c1.(c_index) c2.(c_index).
(* head of the stable sort: the first candidate that no other sorts strictly before *)
Fixpoint elect_from (best : candidate) (l : list candidate) : candidate :=
  match l with [] => best | c :: t => elect_from (if cand_before c best then c else best) t end.
Definition elect (l : list candidate) : option candidate :=
  match l with [] => None | c :: t => Some (elect_from c t) end.

(* ---- repository state and operations *)
Record loaded := { l_ns : str; l_file : tfile; l_path : str }.
Definition state := list loaded.       (* most recent first *)

Fixpoint get_registered (st : state) (ns : str) : option loaded :=
  match st with [] => None | l :: t => if str_eqb l.(l_ns) ns then Some l else get_registered t ns end.

(* g_hash_table_insert on an existing namespace key keeps the old key (hence the old source
   path) and replaces the typelib *)
Fixpoint insert (e : loaded) (st : state) : state :=
  match st with
  | [] => [e]
  | l :: t => if str_eqb l.(l_ns) e.(l_ns)
              then {| l_ns := l.(l_ns); l_file := e.(l_file); l_path := l.(l_path) |} :: t
              else l :: insert e t
  end.

Inductive res := ROk (version : str) | RErr (code : Z).     (* 0 not found, 1 mismatch, 2 version conflict *)

Definition builtin : str := [60;98;117;105;108;116;105;110;62]%N.   (* "<builtin>" *)
Definition slash_join (d f : str) : str := if endswith [47%N] d then d ++ f else d ++ [47%N] ++ f.

Section Require.
  Variable fsys : fs.
  Variable gpath : list str.        (* the global typelib_search_path at the time of the call *)

  (* require_internal; dependencies are required through the global path; fuel bounds the
     dependency depth (exhaustion is reported as code 99 and excluded by the theorems) *)
  Fixpoint require (fuel : nat) (st : state) (path : list str) (ns : str) (ver : option str) : state * res :=
    match fuel with
    | O => (st, RErr 99)
    | S f =>
      match get_registered st ns with
      | Some l =>
          match ver with
          | None => (st, ROk l.(l_file).(f_version))
          | Some v => if str_eqb v l.(l_file).(f_version) then (st, ROk v) else (st, RErr 2)
          end
      | None =>
          let found :=
            match ver with
            | Some v => match find_version fsys path (fname ns v) with
                        | Some (d, c) => Some (slash_join d (fname ns v), v, c)
                        | None => None
                        end
            | None => match elect (enumerate fsys (ns ++ [45%N]) path 0%nat [] []) with
                      | Some c => Some (slash_join c.(c_dir) c.(c_entry), c.(c_version), c.(c_content))
                      | None => None
                      end
            end in
          match found with
          | None => (st, RErr 0)
          | Some (_, _, None) => (st, RErr 0)               (* "Failed to load typelib file" *)
          | Some (p, name_version, Some tf) =>
              if negb (str_eqb tf.(f_ns) ns) then (st, RErr 1)
              else if negb (str_eqb tf.(f_version) name_version) then (st, RErr 1)
              else register f st tf p
          end
      end
    end
  (* register_internal (not lazy): dependencies first, in order, stopping at the first failure *)
  with register (fuel : nat) (st : state) (tf : tfile) (p : str) : state * res :=
    match fuel with
    | O => (st, RErr 99)
    | S f =>
      let fix deps (l : list (str * str)) (st : state) : state * option Z :=
        match l with
        | [] => (st, None)
        | (dn, dv) :: t => match require f st gpath dn (Some dv) with
                           | (st', ROk _) => deps t st'
                           | (st', RErr e) => (st', Some e)
                           end
        end in
      match deps tf.(f_deps) st with
      | (st', Some e) => (st', RErr e)
      | (st', None) => (insert {| l_ns := tf.(f_ns); l_file := tf; l_path := p |} st', ROk tf.(f_version))
      end
    end.
End Require.

Inductive op :=
| OPrepend (d : str)
| ORequire (ns : str) (ver : option str)
| ORequirePrivate (d : str) (ns : str) (ver : option str)
| OLoad (tf : tfile).

Definition fuel0 : nat := 64%nat.

(* world = (prepended dirs, most recent first) ; base = env dirs ++ [libdir] *)
Definition step (fsys : fs) (base : list str) (w : list str * state) (o : op) : (list str * state) * option res :=
  let '(pre, st) := w in
  let gpath := pre ++ base in
  match o with
  | OPrepend d => ((d :: pre, st), None)
  | ORequire ns v => let '(st', r) := require fsys gpath fuel0 st gpath ns v in ((pre, st'), Some r)
  | ORequirePrivate d ns v => let '(st', r) := require fsys gpath fuel0 st [d] ns v in ((pre, st'), Some r)
  | OLoad tf =>
      (* g_irepository_load_typelib: a registered namespace with another version is not
         reported as a conflict (that branch is unreachable): the typelib is registered again *)
      let same := match get_registered st tf.(f_ns) with
                  | Some l => str_eqb l.(l_file).(f_version) tf.(f_version)
                  | None => false
                  end in
      if same then ((pre, st), Some (ROk tf.(f_ns)))
      else let '(st', r) := register fsys gpath fuel0 st tf builtin in
           ((pre, st'), Some (match r with ROk _ => ROk tf.(f_ns) | e => e end))
  end.

Fixpoint run (fsys : fs) (base : list str) (w : list str * state) (ops : list op) : (list str * state) * list (option res) :=
  match ops with
  | [] => (w, [])
  | o :: t => let '(w', r) := step fsys base w o in
              let '(w'', rs) := run fsys base w' t in (w'', r :: rs)
  end.

(* reports *)
Definition dep_str (d : str * str) : str := fst d ++ [45%N] ++ snd d.
Fixpoint transitive (fuel : nat) (st : state) (tf : tfile) (acc : list str) : list str :=
  match fuel with
  | O => acc
  | S f => fold_left (fun acc d =>
                        let acc' := if existsb (str_eqb (dep_str d)) acc then acc else dep_str d :: acc in
                        match get_registered st (fst d) with
                        | Some l => transitive f st l.(l_file) acc'
                        | None => acc'
                        end) tf.(f_deps) acc
  end.
