From Coq Require Import List NArith Bool.
From GIV.Lib Require Import Regex Backtrack Str.
From GIV.Gen Require Import LddPattern LibtoolPat.
Import ListNotations.
Local Open Scope N_scope.

(* giscanner/shlibs.py: _ldd_library_pattern(name).match(word) *)
Definition ldd_match (name w : str) : bool := rmatch (ldd_regex name) w.

Section Resolve.
  (* the matcher is a parameter so that the loop theorems hold for any pattern *)
  Variable m : str -> str -> bool.          (* m request word *)

  (* patterns = {} ; patterns[library] = ...   (dict: first insertion fixes the position) *)
  Definition dict_add (k : str) (d : list str) : list str :=
    if existsb (str_eqb k) d then d else d ++ [k].
  Definition mk_patterns (isfile : str -> bool) (libs : list str) : list str :=
    fold_left (fun d l => if isfile l then d else dict_add l d) libs [].

  (* for library, pattern in patterns.items(): if m: del patterns[library]; break *)
  Fixpoint take_first (w : str) (ps : list str) : option (list str) :=
    match ps with
    | [] => None
    | p :: t => if m p w then Some t
                else match take_first w t with Some t' => Some (p :: t') | None => None end
    end.

  Fixpoint resolve_words (ws ps acc : list str) : list str * list str :=
    match ws with
    | [] => (ps, rev acc)
    | w :: t => match take_first w ps with
                | Some ps' => resolve_words t ps' (w :: acc)
                | None => resolve_words t ps acc
                end
    end.

  Definition header_line (l : str) : bool := endswith [58] l.      (* line.endswith(':') *)
  Definition words_of_lines (ls : list str) : list str :=
    flat_map split_ws (filter (fun l => negb (header_line l)) ls).
  Definition words_of_output (out : str) : list str := words_of_lines (splitlines out).

  Inductive result := Ok (l : list str) | Err (unresolved : list str).

  Definition resolve_from_words (ps ws : list str) : result :=
    match ps with
    | [] => Ok []
    | _ => let '(rem, found) := resolve_words ws ps [] in
           match rem with [] => Ok found | _ => Err rem end
    end.

  Definition resolve (isfile : str -> bool) (libs : list str) (out : str) : result :=
    resolve_from_words (mk_patterns isfile libs) (words_of_output out).
End Resolve.

Definition resolve_from_ldd_output := resolve ldd_match.

(* sanitize_shlib_path on non-Darwin hosts *)
Definition sanitize_shlib_path (s : str) : str := basename s.

(* utils._extract_dlname_field on the file contents: _libtool_pat.search(data).group(1) *)
Definition extract_dlname (data : str) : option str :=
  match bsearch libtool_pat data with
  | Some c => group 1 data c
  | None => None
  end.
