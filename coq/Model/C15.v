From Coq Require Import List NArith Bool String Ascii.
From GIV.Lib Require Import Regex Str.
From GIV.Gen Require Import GirVocab.
From GIV.Model Require Import C02 C02Spec C01 C01Spec.
Import ListNotations.
Local Open Scope N_scope.

(* The hand-over from the scanner's GIR writer to the typelib compiler's GIR reader.
   Vocabulary: Gen/GirVocab.v (regenerated from giscanner/girwriter.py and
   girepository/girparser.c).  Attribute interpretation: girparser.c start_parameter /
   start_return_value / parse_param_transfer, applied to what Model/C01Spec.emit writes. *)

Definition known_to_parser (e : list N) : bool :=
  existsb (str_eqb e) parser_elements || startswith (s "c:") e.
Definition vocabulary_ok : bool := forallb known_to_parser writer_elements.

(* what the compiler stores for one <parameter> / <return-value> *)
Record rflags := { rf_in : bool; rf_out : bool; rf_caller_allocates : bool; rf_nullable : bool; rf_optional : bool; rf_skip : bool;
                   rf_transfer : option N;      (* 0 nothing, 1 container, 2 everything; None = the attribute is required and missing *)
                   rf_scope : N; rf_closure : option nat; rf_destroy : option nat }.

Definition transfer_code (t : option str) : option N :=
  match t with
  | None => None
  | Some x => if str_eqb x (s "none") then Some 0 else if str_eqb x (s "container") then Some 1
              else if str_eqb x (s "full") then Some 2 else None
  end.
Definition scope_code (x : option str) : N :=
  match x with
  | None => 0
  | Some v => if str_eqb v (s "call") then 1 else if str_eqb v (s "async") then 2
              else if str_eqb v (s "notified") then 3 else if str_eqb v (s "forever") then 4 else 0
  end.

(* [fx] = the repaired reader: allow-none, the deprecated spelling of nullable/optional, is only
   consulted when the GIR states neither of them (the writer only ever writes "1" for those, so
   presence and value coincide on scanner output) *)
Definition read_param (fx : bool) (o : obs1) : rflags :=
  let is_out := match b_direction o with Some d => str_eqb d (s "out") | None => false end in
  let is_inout := match b_direction o with Some d => str_eqb d (s "inout") | None => false end in
  let p_in := negb is_out in
  let p_out := is_out || is_inout in
  let allow_none := b_allow_none o && (if fx then negb (b_nullable o || b_optional o) else true) in
  {| rf_in := p_in; rf_out := p_out;
     rf_caller_allocates := is_out && match b_caller_allocates o with Some b => b | None => false end;
     rf_nullable := b_nullable o || (allow_none && negb p_out);
     rf_optional := b_optional o || (allow_none && p_out);
     rf_skip := b_skip o; rf_transfer := transfer_code (b_transfer o); rf_scope := scope_code (b_scope o);
     rf_closure := b_closure o; rf_destroy := b_destroy o |}.

Definition read_return (o : obs1) : bool * bool * option N :=      (* nullable, skip, transfer *)
  (b_nullable o, b_skip o, transfer_code (b_transfer o)).
