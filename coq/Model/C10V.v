From Coq Require Import List Arith NArith Bool.
From GIV.Lib Require Import Regex Str Backtrack.
From GIV.Gen Require Import UnicodeRe ValidateRules.
From GIV.Model Require Import C02 C10 C10B.
Import ListNotations.
Local Open Scope N_scope.

(* GtkDocCommentBlock.validate(): what is diagnosed about the annotations of a parsed block (giscanner/annotationparser.py,
   GtkDocAnnotatable.validate, _validate_annotation, _validate_options, _do_validate_NAME).  The per-annotation rules are
   Gen/ValidateRules.v, read from the syntax tree of the source on every run.
   Diagnostic codes: 40 unexpected annotation, 41 unknown annotation, 42/43/44 (not nullable)/(not optional) conflicts,
   45 needs N options, 46 takes at least, 47 takes at most, 48 invalid option, 49 fixed-size not an integer,
   51 option needs a value, 52 zero-terminated not 0 or 1.  All are warnings positioned at the annotations' line. *)

Definition vd (code ln : nat) : diag := mkd0 false code ln.
Fixpoint rule_of (name : str) (t : list (str * option vrule)) : option (option vrule) :=
  match t with
  | [] => None
  | (k, r) :: t' => if str_eqb k name then Some r else rule_of name t'
  end.
Definition in_list (x : str) (l : list str) : bool := existsb (str_eqb x) l.

(* int(value) succeeds: optional blanks, optional sign, decimal digits with single underscores between them *)
Definition is_digit (c : N) : bool := in_ranges re_digit_ranges c.
Fixpoint digits_ok (x : str) (prev_digit : bool) : bool :=
  match x with
  | [] => prev_digit
  | c :: t => if is_digit c then digits_ok t true
              else if N.eqb c 95 then prev_digit && digits_ok t false
              else false
  end.
Definition py_int_ok (v : str) : bool :=
  match strip v with
  | c :: t => if N.eqb c 43 || N.eqb c 45 then digits_ok t false else digits_ok (c :: t) false
  | [] => false
  end.

Definition validate_array (ln : nat) (opts : list (str * option str)) : list diag :=
  flat_map (fun kv =>
    let '(k, v) := kv in
    if str_eqb k opt_fixed_size then
      match v with None => [vd 51 ln] | Some x => if py_int_ok x then [] else [vd 49 ln] end
    else if str_eqb k opt_zero_terminated then
      match v with None => [] | Some x => if str_eqb x [48] || str_eqb x [49] then [] else [vd 52 ln] end
    else if str_eqb k opt_length then
      match v with None => [vd 51 ln] | Some _ => [] end
    else [vd 48 ln]) opts.

Definition validate_rule (ln : nat) (opts : list str) (r : vrule) : list diag :=
  let n := List.length opts in
  (match vr_exact r with Some e => if Nat.eqb n e then [] else [vd 45 ln] | None => [] end)
  ++ (match vr_min r with Some m => if Nat.ltb n m then [vd 46 ln] else [] | None => [] end)
  ++ (match vr_max r with Some m => if Nat.ltb m n then [vd 47 ln] else [] | None => [] end)
  ++ (match opts, vr_choices r with
      | o :: _, Some ch => if in_list o ch then [] else [vd 48 ln]
      | _, _ => []
      end).

Definition options_list (v : avalue) : list str :=
  match v with AList l => l | ADict kvs => map fst kvs | ANone => [] end.

Definition validate_one (valid : list str) (ln : nat) (all : anns) (a : str * avalue) : list diag :=
  let '(name, v) := a in
  (if in_list name valid then
     if str_eqb name ann_array then
       match v with ADict kvs => validate_array ln kvs | _ => [] end
     else match rule_of name validate_rules with
          | Some (Some r) => validate_rule ln (options_list v) r
          | _ => []
          end
   else if in_list name all_annotations then [vd 40 ln] else [vd 41 ln])
  ++ (if str_eqb name ann_not && in_list opt_not_nullable (options_list v) then
        (if has_key all ann_nullable then [vd 42 ln] else []) ++ (if has_key all ann_allow_none then [vd 43 ln] else [])
      else [])
  ++ (if str_eqb name ann_not && in_list opt_not_optional (options_list v) then
        (if has_key all ann_optional then [vd 44 ln] else [])
      else []).

Definition validate_anns (valid : list str) (a : anns) (apos : option nat) : list diag :=
  let ln := match apos with Some l => l | None => 0%nat end in
  flat_map (validate_one valid ln a) a.

Definition validate_block (b : option blk) : list diag :=
  match b with
  | None => []
  | Some b =>
      validate_anns valid_on_block (bk_anns b) (bk_apos b)
      ++ flat_map (fun p => validate_anns valid_on_parameter (pt_anns p) (pt_apos p)) (bk_params b)
      ++ flat_map (fun p => validate_anns valid_on_tag (pt_anns p) (pt_apos p)) (bk_tags b)
  end.
