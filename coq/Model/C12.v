From Coq Require Import List NArith Bool String Ascii.
From GIV.Lib Require Import Regex Str.
From GIV.Gen Require Import TypeNames.
From GIV.Model Require Import C02 C16.
Import ListNotations.
Local Open Scope N_scope.

(* Merging the runtime type dump into the namespace: giscanner/gdumpparser.py (_introspect_object,
   _introspect_interface, _introspect_boxed, _introspect_properties, _introspect_signals,
   _parse_parents, _split_type_and_symbol_prefix, _pair_boxed_type, _find_class_record, removal
   of get-type functions, _introspect_error_quark) and giscanner/maintransformer.py
   (_pass_type_resolution parent choice, _pair_class_virtuals, _pair_quarks_with_enums). *)

(* ---- property flags: G_PARAM_READABLE 1, WRITABLE 2, CONSTRUCT 4, CONSTRUCT_ONLY 8 *)
Record pflags := { pf_readable : bool; pf_writable : bool; pf_construct : bool; pf_construct_only : bool }.
Definition decode_flags (f : N) : pflags :=
  {| pf_readable := N.testbit f 0; pf_writable := N.testbit f 1; pf_construct := N.testbit f 2; pf_construct_only := N.testbit f 3 |}.
Definition encode_flags (p : pflags) (others : N) : N :=
  (if pf_readable p then 1 else 0) + (if pf_writable p then 2 else 0) + (if pf_construct p then 4 else 0)
  + (if pf_construct_only p then 8 else 0) + 16 * others.

(* ---- what is known by GType name: (GType name, giname) of the registered types of this
   namespace and of the included ones *)
Definition known := list (str * str).
Fixpoint kfind (k : known) (g : str) : option str :=
  match k with [] => None | (a, b) :: t => if str_eqb a g then Some b else kfind t g end.

(* _pass_type_resolution: the first parent of the chain that resolves to a known node *)
Fixpoint nearest_known (k : known) (chain : list str) : option str :=
  match chain with
  | [] => None
  | g :: t => match kfind k g with Some n => Some n | None => nearest_known k t end
  end.

(* Type.create_from_gtype_name followed by resolution: the name written in the GIR *)
Inductive rtype :=
| RFund (n : str)            (* fundamental *)
| RStrv                      (* array of utf8 *)
| RHash | RByteArray | RArray (n : str)
| RNamed (giname : str)
| RUnknown.
Definition resolve_gtype (k : known) (g : str) : rtype :=
  match lookup g type_names with
  | Some f => RFund f
  | None =>
      if str_eqb g (s "GHashTable") then RHash
      else if str_eqb g (s "GByteArray") then RByteArray
      else if str_eqb g (s "GArray") then RArray (s "GLib.Array")
      else if str_eqb g (s "GPtrArray") then RArray (s "GLib.PtrArray")
      else if str_eqb g (s "GStrv") then RStrv
      else match kfind k g with Some n => RNamed n | None => RUnknown end
  end.

(* ---- _split_type_and_symbol_prefix: foo_bar_baz_get_type -> bar_baz, given the namespace's
   symbol prefix (with its underscore) *)
Definition strip_suffix (suf x : str) : option str :=
  if endswith suf x then Some (firstn (List.length x - List.length suf) x) else None.
Definition symbol_prefix (ns_prefix get_type : str) : option str :=
  if startswith ns_prefix get_type then
    let rest := skipn (List.length ns_prefix) get_type in
    match strip_suffix (s "_get_type") rest with
    | Some p => Some p
    | None => strip_suffix (s "_get_gtype") rest
    end
  else None.

(* ---- signal parameters are called object, p0, p1, ... *)
Fixpoint dec_digits (fuel : nat) (n : N) (acc : str) : str :=
  match fuel with
  | O => acc
  | S f => let d := 48 + n mod 10 in if N.ltb n 10 then d :: acc else dec_digits f (n / 10) (d :: acc)
  end.
Definition dec (n : N) : str := dec_digits 40 n [].
Definition signal_param_name (i : nat) : str :=
  match i with O => s "object" | S j => 112 :: dec (N.of_nat j) end.
Definition signal_param_names (n : nat) : list str := map signal_param_name (seq 0 n).

(* ---- the dump *)
Record dprop := { dp_name : str; dp_type : str; dp_flags : N; dp_default : option str }.
Record dsig := { ds_name : str; ds_return : str; ds_when : option str;
                 ds_no_recurse : bool; ds_detailed : bool; ds_action : bool; ds_no_hooks : bool; ds_params : list str }.
Inductive dtype :=
| DClass (gname get_type : str) (parents : list str) (abstract final : bool) (ifaces : list str) (props : list dprop) (sigs : list dsig)
| DInterface (gname get_type : str) (prereqs : list str) (props : list dprop) (sigs : list dsig)
| DBoxed (gname get_type : str).

(* the scanned side: structures (local name, callback fields with the giname of their first
   parameter's type) *)
Record wrecord := { wr_name : str; wr_cbs : list (str * option str) }.

Definition id_prefix : str := s "Foo".
Definition local_of (gname : str) : str := skipn (List.length id_prefix) gname.       (* strip_identifier *)
Definition giname_of (gname : str) : str := s "Foo." ++ local_of gname.
Definition dname (d : dtype) : str := match d with DClass g _ _ _ _ _ _ _ => g | DInterface g _ _ _ _ => g | DBoxed g _ => g end.
Definition registers (d : dtype) : bool := match d with DBoxed _ _ => false | _ => true end.

(* GType names known after the dump is merged: classes and interfaces of the dump, boxed types
   that found their structure, and what the includes provide *)
Definition own_known (recs : list wrecord) (dump : list dtype) : known :=
  map (fun d => (dname d, giname_of (dname d))) dump.

(* _find_class_record *)
Definition type_struct (recs : list wrecord) (is_class : bool) (local : str) : option str :=
  let has n := existsb (fun r => str_eqb (wr_name r) n) recs in
  if is_class then (if has (local ++ s "Class") then Some (local ++ s "Class") else None)
  else if has (local ++ s "Iface") then Some (local ++ s "Iface")
  else if has (local ++ s "Interface") then Some (local ++ s "Interface") else None.

(* _pair_class_virtuals: callback members of the type structure whose first parameter is the instance *)
Definition vfuncs (recs : list wrecord) (struct_name : option str) (giname : str) : list str :=
  match struct_name with
  | None => []
  | Some sn => match find (fun r => str_eqb (wr_name r) sn) recs with
               | Some r => map fst (filter (fun cb => match snd cb with Some g => str_eqb g giname | None => false end) (wr_cbs r))
               | None => []
               end
  end.

(* ---- observations *)
Record oprop := { op_name : str; op_flags : pflags; op_type : rtype; op_default : option str }.
Record osig := { os_name : str; os_when : option str; os_flags : bool * bool * bool * bool; os_return : rtype;
                 os_params : list (str * rtype) }.
Record oclass := { oc_local : str; oc_is_class : bool; oc_parent : option str; oc_gtype : str; oc_get_type : str;
                   oc_symbol_prefix : option str; oc_type_struct : option str; oc_abstract : bool; oc_final : bool;
                   oc_ifaces : list rtype; oc_props : list oprop; oc_sigs : list osig; oc_vfuncs : list str }.

Definition sort_names (l : list str) : list str := isort str_leb l.
Definition mk_props (k : known) (ps : list dprop) : list oprop :=
  isort (fun a b => str_leb (op_name a) (op_name b))
        (map (fun p => {| op_name := dp_name p; op_flags := decode_flags (dp_flags p); op_type := resolve_gtype k (dp_type p);
                          op_default := match dp_default p with Some [] => None | x => x end |}) ps).
Definition mk_sigs (k : known) (ss : list dsig) : list osig :=
  isort (fun a b => str_leb (os_name a) (os_name b))
        (map (fun x => {| os_name := ds_name x; os_when := match ds_when x with Some [] => None | w => w end;
                          os_flags := (ds_no_recurse x, ds_detailed x, ds_action x, ds_no_hooks x);
                          os_return := resolve_gtype k (ds_return x);
                          os_params := combine (signal_param_names (List.length (ds_params x))) (map (resolve_gtype k) (ds_params x)) |}) ss).

Definition rtype_key (k : known) (g : str) : str :=
  match resolve_gtype k g with RNamed n => n | RFund f => f | _ => [] end.

Definition merge_one (ns_prefix : str) (k : known) (recs : list wrecord) (d : dtype) : option oclass :=
  match d with
  | DClass g gt parents ab fi ifaces props sigs =>
      let l := local_of g in
      let ts := type_struct recs true l in
      Some {| oc_local := l; oc_is_class := true; oc_parent := nearest_known k parents; oc_gtype := g; oc_get_type := gt;
              oc_symbol_prefix := symbol_prefix ns_prefix gt; oc_type_struct := ts; oc_abstract := ab; oc_final := fi;
              oc_ifaces := map (resolve_gtype k) (isort (fun a b => str_leb (rtype_key k a) (rtype_key k b)) ifaces);
              oc_props := mk_props k props; oc_sigs := mk_sigs k sigs; oc_vfuncs := sort_names (vfuncs recs ts (giname_of g)) |}
  | DInterface g gt prereqs props sigs =>
      let l := local_of g in
      let ts := type_struct recs false l in
      Some {| oc_local := l; oc_is_class := false; oc_parent := None; oc_gtype := g; oc_get_type := gt;
              oc_symbol_prefix := symbol_prefix ns_prefix gt; oc_type_struct := ts; oc_abstract := false; oc_final := false;
              oc_ifaces := map (resolve_gtype k) (isort (fun a b => str_leb (rtype_key k a) (rtype_key k b)) prereqs);
              oc_props := mk_props k props; oc_sigs := mk_sigs k sigs; oc_vfuncs := sort_names (vfuncs recs ts (giname_of g)) |}
  | DBoxed _ _ => None
  end.

Definition merge (ns_prefix : str) (includes : known) (recs : list wrecord) (dump : list dtype) : list oclass :=
  let k := own_known recs dump ++ includes in
  flat_map (fun d => match merge_one ns_prefix k recs d with Some c => [c] | None => [] end) dump.

(* structures after the merge: the boxed registration and the back link of type structures *)
Record orec := { or_name : str; or_gtype : option str; or_get_type : option str; or_symbol_prefix : option str;
                 or_struct_for : option str }.
Definition merge_record (ns_prefix : str) (recs : list wrecord) (dump : list dtype) (r : wrecord) : orec :=
  let boxed := find (fun d => match d with DBoxed g _ => str_eqb (local_of g) (wr_name r) | _ => false end) dump in
  let owner := find (fun d => match d with
                              | DClass g _ _ _ _ _ _ _ => match type_struct recs true (local_of g) with Some t => str_eqb t (wr_name r) | None => false end
                              | DInterface g _ _ _ _ => match type_struct recs false (local_of g) with Some t => str_eqb t (wr_name r) | None => false end
                              | DBoxed _ _ => false
                              end) dump in
  {| or_name := wr_name r;
     or_gtype := match boxed with Some (DBoxed g _) => Some g | _ => None end;
     or_get_type := match boxed with Some (DBoxed _ gt) => Some gt | _ => None end;
     or_symbol_prefix := match boxed with Some (DBoxed _ gt) => symbol_prefix ns_prefix gt | _ => None end;
     or_struct_for := match owner with Some d => Some (local_of (dname d)) | None => None end |}.

(* get-type functions leave the function list *)
Definition remaining_functions (funcs : list str) (dump : list dtype) : list str :=
  filter (fun f => negb (existsb (fun d => match d with
                                           | DClass _ gt _ _ _ _ _ _ | DInterface _ gt _ _ _ | DBoxed _ gt => str_eqb gt f
                                           end) dump)) funcs.
