From Coq Require Import List Arith NArith Bool String Ascii.
From GIV.Lib Require Import Regex Str.
From GIV.Gen Require Import GirAttrs.
From GIV.Model Require Import C02.
Import ListNotations.
Local Open Scope N_scope.

(* The GIR read/write cycle: giscanner/girwriter.py against giscanner/girparser.py.
   Vocabulary: Gen/GirAttrs.v (regenerated from both sources).  Encodings with defaults: property
   and field flags, parameter nullability, direction, array zero-termination.  Pairing of array
   length indices of structure members (girparser.py _parse_compound). *)

(* attributes that are written but need not be read back: derived from other data, or XML syntax *)
Definition derived_or_syntax : list str :=
  [s "deprecated" (* rewritten whenever deprecated-version or doc-deprecated is there *);
   s "xml:space"; s "xmlns"; s "xmlns:c"; s "xmlns:doc"; s "xmlns:glib"].
Definition attr_contract : bool :=
  forallb (fun a => existsb (str_eqb a) reader_attrs || existsb (str_eqb a) derived_or_syntax) writer_attrs.

(* ---- flags with defaults: what is written, what is read *)
(* properties and fields: readable="0" only when not readable; writable="1" only when writable ... *)
Definition write_flag_default_true (b : bool) : option str := if b then None else Some (s "0").
Definition read_flag_default_true (a : option str) : bool := match a with Some v => negb (str_eqb v (s "0")) | None => true end.
Definition write_flag_default_false (b : bool) : option str := if b then Some (s "1") else None.
Definition read_flag_default_false (a : option str) : bool := match a with Some v => str_eqb v (s "1") | None => false end.

(* parameters: nullable / optional / allow-none (girwriter._write_parameter, ast.Parameter.__init__) *)
Inductive dir := DirIn | DirOut | DirInOut.
Definition write_null (d : dir) (nullable optional : bool) : bool * bool * bool (* nullable, optional, allow-none *) :=
  (nullable, optional, (nullable && match d with DirOut => false | _ => true end) || (optional && match d with DirOut => true | _ => false end)).
Definition read_null (d : dir) (a : bool * bool * bool) : bool * bool :=
  let '(n, o, an) := a in
  (n || (an && match d with DirOut => false | _ => true end), o || (an && match d with DirOut => true | _ => false end)).

(* direction and caller-allocates *)
Definition write_dir (d : dir) (ca : bool) : option dir * option bool := match d with DirIn => (None, None) | _ => (Some d, Some ca) end.
Definition read_dir (a : option dir * option bool) : dir * bool :=
  (match fst a with Some d => d | None => DirIn end, match snd a with Some b => b | None => false end).

(* array zero-termination (girwriter._write_type / girparser._parse_type_simple) *)
Definition write_zero (zt has_size has_length : bool) : option bool :=
  if negb zt then Some false else if has_size || has_length then Some true else None.
Definition read_zero (a : option bool) : bool := match a with Some false => false | _ => true end.

(* ---- members of a structure and the length index of array members *)
Inductive member :=
| MPlain (name : str) (length_of : option nat)     (* a plain member; for an array, the index of its length member among ALL members *)
| MCallback (name : str)                           (* written as <field> with an inline <callback> *)
| MAnon.                                           (* anonymous structure or union: written as <record>/<union>, not <field> *)

Definition is_field_element (m : member) : bool := match m with MAnon => false | _ => true end.
Definition written_length (m : member) : option nat := match m with MPlain _ l => l | _ => None end.

Fixpoint set_nth_opt (i : nat) (v : option nat) (l : list (option nat)) : list (option nat) :=
  match l, i with
  | [], _ => []
  | _ :: t, O => v :: t
  | h :: t, S j => h :: set_nth_opt j v t
  end.

(* as found: the i-th <field> ELEMENT is paired with the i-th MEMBER *)
Definition read_lengths_found (ms : list member) : list (option nat) :=
  let field_elements := filter is_field_element ms in
  fold_left (fun acc ie => match written_length (snd ie) with
                           | Some l => set_nth_opt (fst ie) (Some l) acc
                           | None => acc
                           end)
            (combine (seq 0 (List.length field_elements)) field_elements) (map (fun _ => None) ms).
(* repaired: every element is paired with the member created from it *)
Definition read_lengths (ms : list member) : list (option nat) := map written_length ms.
