(* C12, second part — error-quark functions give their error domain to the matching enumeration.
   Model of maintransformer.py:_pair_quarks_with_enums: an enumeration is known by the symbol prefix of its
   get-type function when it is registered (authoritative), by the underscored spelling of its name
   otherwise (C04.uscore_noprefix), and by its name itself; quarks are taken in namespace order, a later one
   overwrites an earlier one that maps to the same enumeration. *)
From Coq Require Import List NArith Bool String Ascii.
From GIV.Lib Require Import Regex Str.
From GIV.Model Require Import C02 C04.
Import ListNotations.
Local Open Scope N_scope.

Record qenum := { qe_name : str;                  (* GIR name, e.g. Codec2Error *)
                  qe_prefix : option str;         (* symbol prefix from the get-type function (registered enumerations) *)
                  qe_domain : option str }.       (* the error domain given so far *)
Record quark := { q_short : str;                  (* the function's symbol without namespace prefix and without "_quark" *)
                  q_domain : str }.

Definition opt_str_eqb (a : option str) (b : str) : bool := match a with Some x => str_eqb x b | None => false end.

(* the enumeration a quark belongs to: index into the list *)
Fixpoint find_index {A} (f : A -> bool) (l : list A) (i : nat) : option nat :=
  match l with [] => None | x :: t => if f x then Some i else find_index f t (S i) end.
(* a dict keeps the last enumeration registered under a key; keys are distinct for distinct enumerations in
   every world the theorems speak about (hypothesis [distinct_keys]) so that first = last *)
Definition by_prefix (es : list qenum) (short : str) : option nat := find_index (fun e => opt_str_eqb (qe_prefix e) short) es 0.
Definition by_name (es : list qenum) (short : str) : option nat :=
  find_index (fun e => str_eqb (uscore_noprefix (qe_name e)) short || str_eqb (qe_name e) short) es 0.
Definition target (es : list qenum) (short : str) : option nat :=
  match by_prefix es short with Some i => Some i | None => by_name es short end.

Fixpoint set_domain (es : list qenum) (i : nat) (d : str) : list qenum :=
  match es, i with
  | [], _ => []
  | e :: t, O => {| qe_name := qe_name e; qe_prefix := qe_prefix e; qe_domain := Some d |} :: t
  | e :: t, S j => e :: set_domain t j d
  end.

(* one quark: the enumerations afterwards, and whether "Couldn't find corresponding enumeration" is reported *)
Definition pair_one (es : list qenum) (q : quark) : list qenum * bool :=
  match target es (q_short q) with
  | Some i => (set_domain es i (q_domain q), false)
  | None => (es, true)
  end.
Definition qstep (st : list qenum * list str) (q : quark) : list qenum * list str :=
  let '(es', w) := pair_one (fst st) q in (es', if w then snd st ++ [q_short q] else snd st).
Definition pair_all (es : list qenum) (qs : list quark) : list qenum * list str (* shorts of the unmatched quarks *) :=
  fold_left qstep qs (es, []).
