From Coq Require Import List NArith ZArith Bool.
From GIV.Lib Require Import Regex Str.
From GIV.Model Require Import C14 C14Spec.
From GIV.Model Require Import C14R.
Import ListNotations.
Local Open Scope N_scope.

(* the history the driver's `lazy` mode performs: every GType probe asked of the empty repository, the typelib
   registered lazily, the probes asked again; observed: the answers of the second round *)
Record hcase := { h_id : N; h_dirs : directory; h_gtypes : list str; h_obs : list (option str) }.
Definition h_expected (c : hcase) : list (option (option str)) :=
  let lib := {| t_prefixes := []; t_dir := c.(h_dirs) |} in
  let finds := map RFind c.(h_gtypes) in
  map (option_map (option_map d_name)) (snd (rrun r_empty (finds ++ [RLoad true lib] ++ finds))).
Fixpoint olist_eqb (a : list (option (option str))) (b : list (option (option str))) : bool :=
  match a, b with
  | [], [] => true
  | x :: a', y :: b' =>
      match x, y with
      | None, None => true
      | Some u, Some v => oeq u v
      | _, _ => false
      end && olist_eqb a' b'
  | _, _ => false
  end.
Definition h_bad (c : hcase) : bool :=
  negb (olist_eqb (h_expected c)
                  (map (fun _ => Some None) c.(h_gtypes) ++ [None] ++ map (fun o => Some o) c.(h_obs))).
