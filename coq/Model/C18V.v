From Coq Require Import List Arith Bool.
Import ListNotations.

(* The scanner-version protocol of the cache (giscanner/cachestore.py CacheStore.__init__ ->
   _check_cache_version -> _clean, then store/load), as a small-step system.  One cache entry;
   an entry remembers the version of the scanner that pickled it.  Processes of the current
   scanner version start at any time, run their version check one system call at a time
   (read .cache-version / list the directory / unlink the entry / rename the new version file),
   then store and load; they can be killed anywhere.  The scanner is upgraded only while no
   scanner process is running. *)

Inductive vpc := VRead | VList | VUnlink | VWrite | VRun | VDone.
Record vproc := { pv : nat; ppc : vpc; palive : bool }.
Record vstate := { cur : nat; verfile : option nat; entry : option nat; procs : list vproc;
                   served : list (nat * nat) (* (version of the loading scanner, version of the entry it got) *) }.

Inductive vev := VSpawn | VStep (i : nat) | VStore (i : nat) | VLoad (i : nat) | VFinish (i : nat) | VKill (i : nat) | VUpgrade.

Definition active (p : vproc) : bool := palive p && match ppc p with VDone => false | _ => true end.

Fixpoint upd {A} (i : nat) (f : A -> A) (l : list A) : list A :=
  match l, i with
  | [], _ => []
  | x :: t, O => f x :: t
  | x :: t, S j => x :: upd j f t
  end.

Definition set_pc (c : vpc) (p : vproc) : vproc := {| pv := pv p; ppc := c; palive := palive p |}.
Definition kill (p : vproc) : vproc := {| pv := pv p; ppc := ppc p; palive := false |}.

Definition onat_eqb (a : option nat) (b : nat) : bool := match a with Some x => Nat.eqb x b | None => false end.

Definition with_procs (s : vstate) (ps : list vproc) : vstate :=
  {| cur := cur s; verfile := verfile s; entry := entry s; procs := ps; served := served s |}.

Definition vstep (s : vstate) (e : vev) : vstate :=
  match e with
  | VSpawn => with_procs s (procs s ++ [{| pv := cur s; ppc := VRead; palive := true |}])
  | VStep i =>
      match nth_error (procs s) i with
      | Some p =>
          if negb (active p) then s else
          match ppc p with
          | VRead => with_procs s (upd i (set_pc (if onat_eqb (verfile s) (pv p) then VRun else VList)) (procs s))
          | VList => with_procs s (upd i (set_pc (match entry s with Some _ => VUnlink | None => VWrite end)) (procs s))
          | VUnlink => {| cur := cur s; verfile := verfile s; entry := None; procs := upd i (set_pc VWrite) (procs s);
                          served := served s |}
          | VWrite => {| cur := cur s; verfile := Some (pv p); entry := entry s; procs := upd i (set_pc VRun) (procs s);
                         served := served s |}
          | VRun | VDone => s
          end
      | None => s
      end
  | VStore i =>
      match nth_error (procs s) i with
      | Some p => if active p && match ppc p with VRun => true | _ => false end
                  then {| cur := cur s; verfile := verfile s; entry := Some (pv p); procs := procs s; served := served s |}
                  else s
      | None => s
      end
  | VLoad i =>
      match nth_error (procs s) i with
      | Some p => if active p && match ppc p with VRun => true | _ => false end
                  then match entry s with
                       | Some v => {| cur := cur s; verfile := verfile s; entry := entry s; procs := procs s;
                                      served := (pv p, v) :: served s |}
                       | None => s
                       end
                  else s
      | None => s
      end
  | VFinish i =>
      match nth_error (procs s) i with
      | Some p => if active p && match ppc p with VRun => true | _ => false end
                  then with_procs s (upd i (set_pc VDone) (procs s)) else s
      | None => s
      end
  | VKill i => with_procs s (upd i kill (procs s))
  | VUpgrade =>
      if existsb active (procs s) then s
      else {| cur := S (cur s); verfile := verfile s; entry := entry s; procs := procs s; served := served s |}
  end.

Definition vinit : vstate := {| cur := 0; verfile := None; entry := None; procs := []; served := [] |}.
Definition vrun (evs : list vev) : vstate := fold_left vstep evs vinit.

(* the variant a reordering of _check_cache_version would give: the new version is recorded
   before the old entries are purged (used only to show that the order matters) *)
Definition vstep_version_first (s : vstate) (e : vev) : vstate :=
  match e with
  | VStep i =>
      match nth_error (procs s) i with
      | Some p =>
          if negb (active p) then s else
          match ppc p with
          | VRead => with_procs s (upd i (set_pc (if onat_eqb (verfile s) (pv p) then VRun else VWrite)) (procs s))
          | VWrite => {| cur := cur s; verfile := Some (pv p); entry := entry s; procs := upd i (set_pc VList) (procs s);
                         served := served s |}
          | VList => with_procs s (upd i (set_pc (match entry s with Some _ => VUnlink | None => VRun end)) (procs s))
          | VUnlink => {| cur := cur s; verfile := verfile s; entry := None; procs := upd i (set_pc VRun) (procs s);
                          served := served s |}
          | VRun | VDone => s
          end
      | None => s
      end
  | _ => vstep s e
  end.
