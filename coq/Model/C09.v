From Coq Require Import List ZArith Bool.
From GIV.Gen Require Import Accessors.
Import ListNotations.
Local Open Scope Z_scope.

(* Where girnode.c (_g_ir_node_build_typelib) puts the members of each container, written by
   hand from the build code: the blob, then the 2-byte interface/prerequisite entries, then —
   each section starting at ALIGN_VALUE (offset, 4) — fields (a field with an embedded callback
   is followed by its CallbackBlob), properties, methods, signals, vfuncs, constants. *)

Definition count_true (l : list bool) : Z := Z.of_nat (length (filter (fun b => b) l)).
Definition zlen {A} (l : list A) : Z := Z.of_nat (length l).

(* the accessor's field walk (g_object_info_get_field_offset / g_struct_get_field_offset; the
   loop is recognised textually by the translator): embedded[i] = has_embedded_type of field i *)
Fixpoint walk (pos fsz cbsz : Z) (embedded : list bool) (k : nat) : Z :=
  match k, embedded with
  | S k', b :: t => walk (pos + fsz + (if b then cbsz else 0)) fsz cbsz t k'
  | _, _ => pos
  end.

Section Layout.
  Variable e : cnt.
  Variable embedded : list bool.      (* one entry per field, in order *)

  (* ---- object *)
  Definition w_obj_fields : Z := node_align (base e + object_blob_size e + 2 * n_interfaces e) 4.
  Definition w_obj_field (k : nat) : Z := walk w_obj_fields (field_blob_size e) (callback_blob_size e) embedded k.
  Definition w_obj_props : Z := node_align (w_obj_field (length embedded)) 4.
  Definition w_obj_methods : Z := node_align (w_obj_props + n_properties e * property_blob_size e) 4.
  Definition w_obj_signals : Z := node_align (w_obj_methods + n_methods e * function_blob_size e) 4.
  Definition w_obj_vfuncs : Z := node_align (w_obj_signals + n_signals e * signal_blob_size e) 4.
  Definition w_obj_consts : Z := node_align (w_obj_vfuncs + n_vfuncs e * vfunc_blob_size e) 4.

  (* ---- interface *)
  Definition w_if_props : Z := node_align (base e + interface_blob_size e + 2 * n_prerequisites e) 4.
  Definition w_if_methods : Z := node_align (w_if_props + n_properties e * property_blob_size e) 4.
  Definition w_if_signals : Z := node_align (w_if_methods + n_methods e * function_blob_size e) 4.
  Definition w_if_vfuncs : Z := node_align (w_if_signals + n_signals e * signal_blob_size e) 4.
  Definition w_if_consts : Z := node_align (w_if_vfuncs + n_vfuncs e * vfunc_blob_size e) 4.

  (* ---- struct / union (no alignment steps in the builder: all blobs are multiples of 4) *)
  Definition w_st_field (k : nat) : Z := walk (base e + struct_blob_size e) (field_blob_size e) (callback_blob_size e) embedded k.
  Definition w_st_methods : Z := w_st_field (length embedded).
  Definition w_un_field (k : nat) : Z := walk (base e + union_blob_size e) (field_blob_size e) (callback_blob_size e) embedded k.
  Definition w_un_methods : Z := w_un_field (length embedded).

  (* ---- enum *)
  Definition w_en_values : Z := base e + enum_blob_size e.
  Definition w_en_methods : Z := w_en_values + n_values e * value_blob_size e.

  (* ---- the accessors (closed forms from Gen/Accessors.v; the walks start from them) *)
  Definition a_obj_field (k : nat) : Z :=
    walk (acc_g_object_info_get_field_offset e 0) (field_blob_size e) (callback_blob_size e) embedded k.
  Definition a_st_field (k : nat) : Z :=
    walk (acc_g_struct_get_field_offset e 0) (field_blob_size e) (callback_blob_size e) embedded k.

  (* well-formedness as produced by the compiler: counts agree with the members, every blob
     size is a non-negative multiple of 4, the container blob is 4-aligned *)
  Definition mult4 (z : Z) : Prop := 0 <= z /\ z mod 4 = 0.
  Definition wf : Prop :=
    base e mod 4 = 0 /\ 0 <= base e /\
    n_fields e = zlen embedded /\ n_field_callbacks e = count_true embedded /\
    0 <= n_interfaces e /\ 0 <= n_prerequisites e /\ 0 <= n_properties e /\ 0 <= n_methods e /\
    0 <= n_signals e /\ 0 <= n_vfuncs e /\ 0 <= n_values e /\
    mult4 (object_blob_size e) /\ mult4 (interface_blob_size e) /\ mult4 (struct_blob_size e) /\
    mult4 (union_blob_size e) /\ mult4 (enum_blob_size e) /\ mult4 (field_blob_size e) /\
    mult4 (callback_blob_size e) /\ mult4 (property_blob_size e) /\ mult4 (function_blob_size e) /\
    mult4 (signal_blob_size e) /\ mult4 (vfunc_blob_size e) /\ mult4 (value_blob_size e) /\
    mult4 (constant_blob_size e).
End Layout.

(* ---- attribute lookup: _attribute_blob_find_first walks back from any hit of the binary
   search to the first attribute of the same node.  blobs: offsets of the attribute table *)
Fixpoint walk_back (offsets_rev_before : list Z) (hit : nat) (key : Z) : nat :=
  match offsets_rev_before with
  | o :: t => if Z.eqb o key then match hit with S h => walk_back t h key | O => O end else hit
  | [] => hit
  end.
Definition find_first (offsets : list Z) (hit : nat) (key : Z) : nat :=
  walk_back (rev (firstn hit offsets)) hit key.
