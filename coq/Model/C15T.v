From Coq Require Import List NArith Bool.
From GIV.Lib Require Import Regex Str.
From GIV.Model Require Import C07T.
Import ListNotations.
Local Open Scope N_scope.

(* girepository/girparser.c:start_type, the <array> branch: what the typelib compiler's reader takes from the attributes of an
   <array> element (array_type from name, zero_terminated, has_length/length, has_size/size). *)
Record carr := { ca_kind : N;            (* GI_ARRAY_TYPE_C 0, ARRAY 1, PTR_ARRAY 2, BYTE_ARRAY 3 *)
                 ca_zero : bool; ca_len : option N; ca_size : option N }.

(* atoi on what stands in these attributes: the value of the leading decimal digits (0 when there are none) *)
Fixpoint catoi_from (acc : N) (s : str) : N :=
  match s with
  | c :: r => if is_digit c then catoi_from (acc * 10 + (c - 48)) r else acc
  | [] => acc
  end.
Definition catoi (s : str) : N := catoi_from 0 s.

Definition c_read_array (a : list (str * str)) : carr :=
  let kind := match attr s_name a with
              | Some n => if str_eqb n s_garray then 1 else if str_eqb n s_gbytearray then 3
                          else if str_eqb n s_gptrarray then 2 else 0
              | None => 0
              end in
  if N.eqb kind 0 then
    let len := option_map catoi (attr s_length a) in
    let size := option_map catoi (attr s_fixed a) in
    let zero := match attr s_zero a with
                | Some z => str_eqb z [49]
                | None => match len, size with None, None => true | _, _ => false end
                end in
    {| ca_kind := 0; ca_zero := zero; ca_len := len; ca_size := size |}
  else {| ca_kind := kind; ca_zero := false; ca_len := None; ca_size := None |}.

Definition attrs_of (x : xt) : list (str * str) := match x with XT _ a _ => a end.

Definition carr_eqb (a b : carr) : bool :=
  N.eqb (ca_kind a) (ca_kind b) && Bool.eqb (ca_zero a) (ca_zero b) && oN_eqb (ca_len a) (ca_len b) && oN_eqb (ca_size a) (ca_size b).
