From Coq Require Import List NArith Bool String Ascii.
From GIV.Lib Require Import Regex Str.
From GIV.Model Require Import C02 C02Spec C16 C04.
Import ListNotations.
Local Open Scope N_scope.

(* one occurrence of a C identifier in the GIR: container ("" = namespace), element tag, name, moved-to *)
Definition occ := (str * str * str * option str)%type.
Definition occ_eqb (a b : occ) : bool :=
  let '(a1, a2, a3, a4) := a in let '(b1, b2, b3, b4) := b in
  str_eqb a1 b1 && str_eqb a2 b2 && str_eqb a3 b3 && ostr_eqb a4 b4.

(* [intro]: whether the function is introspectable (observed): a compatibility copy carrying
   moved-to is dropped by the introspectable pass when it is not *)
Definition occurrences (intro : bool) (f : func) (p : place) : list occ :=
  match p with
  | PTop n => [([], s "function", n, None)]
  | PMethod o n => [(o, s "method", n, None)]
  | PConstructor o n => [(o, s "constructor", n, None)]
  | PStatic o n false => [(o, s "function", n, None)]
  | PStatic o n true => (o, s "function", n, None) :: (if intro then [([], s "function", fn_sub f, Some (o ++ [46] ++ n))] else [])
  | PMovedMethod o n => ([], s "function", fn_sub f, None) :: (if intro then [(o, s "method", n, Some (fn_sub f))] else [])
  end.

Definition same_occs (a b : list occ) : bool :=
  forallb (fun x => existsb (occ_eqb x) b) a && forallb (fun x => existsb (occ_eqb x) a) b
  && Nat.eqb (List.length a) (List.length b).

Record fcase4 := { f4_func : func; f4_intro : bool; f4_obs : list occ }.
Record wcase4 := { w4_id : N; w4_types : list ty; w4_funcs : list fcase4 }.
Definition w4_diff (w : wcase4) : list N :=
  map (fun ie => N.of_nat (fst ie))
      (filter (fun ie => negb (same_occs (occurrences (f4_intro (snd ie)) (f4_func (snd ie)) (pair_function (w4_types w) (f4_func (snd ie)))) (f4_obs (snd ie))))
              (combine (seq 0 (List.length (w4_funcs w))) (w4_funcs w))).
Definition w4_bad (w : wcase4) : bool := match w4_diff w with [] => false | _ => true end.
