From Coq Require Import List NArith Bool String Ascii.
From GIV.Lib Require Import Regex Str.
From GIV.Gen Require Import TypeNames.
From GIV.Model Require Import C02 C02Spec C01.
Import ListNotations.
Local Open Scope N_scope.

(* what the GIR says about one <parameter> / <return-value> *)
Record obs1 := {
  b_direction : option str; b_caller_allocates : option bool; b_transfer : option str;
  b_nullable : bool; b_allow_none : bool; b_optional : bool; b_scope : option str;
  b_closure : option nat; b_destroy : option nat; b_skip : bool; b_attrs : list (str * str);
  b_array : bool; b_tname : option str; b_zero : option bool; b_fixed : option str; b_length : option nat;
  b_children : list (option str) }.

Definition slot_index (ps : list slot) (n : str) : option nat :=
  (fix go (l : list slot) (i : nat) := match l with [] => None | p :: t => if str_eqb p.(sl_name) n then Some i else go t (S i) end) ps O.

Definition dir_str (d : direction) : option str :=
  match d with DIn => None | DOut => Some (s "out") | DInout => Some (s "inout") end.
Definition name_out (n : str) : option str := match n with [] => None | _ => Some (local_name (s "Foo.") n) end.

(* girwriter._write_parameter / _write_return_type / _write_type *)
Definition emit (ps : list slot) (sl : slot) : obs1 :=
  let nul := sl.(sl_nullable) && negb sl.(sl_not_nullable) in
  let isret := sl.(sl_is_return) in
  let '(arr, tn, zero, fixed, len, kids) :=
    match sl.(sl_kind) with
    | KdFund n => (false, Some n, None, None, None, [])
    | KdNode g _ => (false, name_out g, None, None, None, [])
    | KdList n e => (false, Some n, None, None, None, [name_out e])
    | KdMap k v => (false, Some (s "GLib.HashTable"), None, None, None, [name_out k; name_out v])
    | KdArray t e z f l =>
        (true, t,
         (if negb z then Some false
          else match f, l with None, None => None | _, _ => Some true end),
         f, match l with Some n => slot_index ps n | None => None end, [name_out e])
    | KdUnknown => (false, None, None, None, None, [])
    end in
  {| b_direction := if isret then None else dir_str sl.(sl_direction);
     b_caller_allocates := if isret then None else match sl.(sl_direction) with DIn => None | _ => Some sl.(sl_caller_allocates) end;
     (* a skipped value that reached the writer without a transfer mode is written with "none" *)
     b_transfer := match tr_str sl.(sl_transfer) with Some t => Some t | None => if sl.(sl_skip) then Some (s "none") else None end;
     b_nullable := nul;
     b_allow_none := if isret then false
                     else (nul && negb (dir_eqb sl.(sl_direction) DOut)) || (sl.(sl_optional) && dir_eqb sl.(sl_direction) DOut);
     b_optional := if isret then false else sl.(sl_optional);
     b_scope := if isret then None else sl.(sl_scope);
     b_closure := if isret then None else match sl.(sl_closure) with Some n => slot_index ps n | None => None end;
     b_destroy := if isret then None else match sl.(sl_destroy) with Some n => slot_index ps n | None => None end;
     b_skip := sl.(sl_skip); b_attrs := sl.(sl_attrs);
     b_array := arr; b_tname := tn; b_zero := zero; b_fixed := fixed; b_length := len; b_children := kids |}.

Definition obool_eqb (a b : option bool) : bool :=
  match a, b with Some x, Some y => Bool.eqb x y | None, None => true | _, _ => false end.
Definition pair_eqb (a b : str * str) : bool := str_eqb (fst a) (fst b) && str_eqb (snd a) (snd b).
Definition obs1_eqb (a b : obs1) : bool :=
  ostr_eqb a.(b_direction) b.(b_direction) && obool_eqb a.(b_caller_allocates) b.(b_caller_allocates)
  && ostr_eqb a.(b_transfer) b.(b_transfer) && Bool.eqb a.(b_nullable) b.(b_nullable)
  && Bool.eqb a.(b_allow_none) b.(b_allow_none) && Bool.eqb a.(b_optional) b.(b_optional)
  && ostr_eqb a.(b_scope) b.(b_scope) && onat_eqb a.(b_closure) b.(b_closure) && onat_eqb a.(b_destroy) b.(b_destroy)
  && Bool.eqb a.(b_skip) b.(b_skip) && all2 pair_eqb a.(b_attrs) b.(b_attrs)
  && Bool.eqb a.(b_array) b.(b_array) && ostr_eqb a.(b_tname) b.(b_tname) && obool_eqb a.(b_zero) b.(b_zero)
  && ostr_eqb a.(b_fixed) b.(b_fixed) && onat_eqb a.(b_length) b.(b_length) && all2 ostr_eqb a.(b_children) b.(b_children).

Definition wcode (w : warning) : N :=
  match w with
  | WTransfer => 1 | WNullable => 2 | WOptional => 3 | WAllowNone => 4 | WScope => 5 | WDestroy => 6 | WClosure => 7
  | WClosureArg => 8 | WElementType => 9 | WUnknownType => 10 | WPtrArrayElem => 11 | WByteArrayElem => 12 | WReturn => 13
  end.
Definition same_set (a b : list N) : bool :=
  forallb (fun x => existsb (N.eqb x) b) a && forallb (fun x => existsb (N.eqb x) a) b.

Record acase := { a_id : N; a_env : env; a_cbtype : bool; a_decls : list decl; a_ret : ctree; a_ret_ann : option annots;
                  a_obs_params : list obs1; a_obs_ret : obs1; a_obs_throws : bool;
                  a_warn_params : list (list N);      (* per declared parameter, classes of warnings reported at its tag *)
                  a_warn_ret : list N }.

Definition warn_at (ws : list (nat * warning)) (i : nat) : list N :=
  map (fun iw => wcode (snd iw)) (filter (fun iw => Nat.eqb (fst iw) i) ws).
(* "Unknown type" warnings of callback types are reported at the declaration, not at the tag:
   they are left out of the per-tag comparison there *)
Definition located (cbtype : bool) (l : list N) : list N := if cbtype then filter (fun c => negb (N.eqb c 10)) l else l.

Definition a_bad (fx : bool) (c : acase) : bool :=
  let r := run_callable fx c.(a_env) c.(a_cbtype) c.(a_decls) c.(a_ret) c.(a_ret_ann) in
  negb (all2 obs1_eqb (map (emit r.(r_params)) r.(r_params)) c.(a_obs_params)
        && obs1_eqb (emit r.(r_params) r.(r_ret)) c.(a_obs_ret)
        && Bool.eqb r.(r_throws) c.(a_obs_throws)
        && all2 same_set (map (fun i => located c.(a_cbtype) (warn_at r.(r_warn) i)) (seq 0 (List.length c.(a_decls)))) (map (located c.(a_cbtype)) c.(a_warn_params))
        && same_set (located c.(a_cbtype) (map wcode r.(r_ret_warn))) (located c.(a_cbtype) c.(a_warn_ret))).

(* which part differs, for the report *)
Definition a_diff (fx : bool) (c : acase) : list N :=
  let r := run_callable fx c.(a_env) c.(a_cbtype) c.(a_decls) c.(a_ret) c.(a_ret_ann) in
  (if all2 obs1_eqb (map (emit r.(r_params)) r.(r_params)) c.(a_obs_params) then [] else [1])
  ++ (if obs1_eqb (emit r.(r_params) r.(r_ret)) c.(a_obs_ret) then [] else [2])
  ++ (if Bool.eqb r.(r_throws) c.(a_obs_throws) then [] else [3])
  ++ (if all2 same_set (map (fun i => located c.(a_cbtype) (warn_at r.(r_warn) i)) (seq 0 (List.length c.(a_decls)))) (map (located c.(a_cbtype)) c.(a_warn_params)) then [] else [4])
  ++ (if same_set (located c.(a_cbtype) (map wcode r.(r_ret_warn))) (located c.(a_cbtype) c.(a_warn_ret)) then [] else [5]).
