From Coq Require Import List NArith ZArith Bool.
From GIV.Lib Require Import Regex Str.
From GIV.Model Require Import C20 C20Spec.
Import ListNotations.
Local Open Scope N_scope.

(* An XML reader for whole documents, written from XML 1.0 (not from the writer): one pass over the
   characters with an explicit element stack.  It is stricter than a full XML processor (no DOCTYPE,
   no CDATA sections, no blank before the '>' of an end tag, only the references decode_entity knows),
   so whatever it accepts and returns, a conforming processor accepts and reports likewise; the
   harness compares it with expat on every document of the run. *)

Inductive node :=
| NElem (tag : str) (attrs : list (str * str)) (kids : list node)
| NText (s : str)
| NComment (s : str)
| NPI (s : str).

(* nodes of the element being read (latest first) and the enclosing elements: name, attributes,
   nodes of the parent read so far *)
Definition pctx := (list node * list (str * list (str * str) * list node))%type.

Inductive lstate :=
| LText (buf : str)                 (* character data, latest first *)
| LLt                               (* after '<' *)
| LBang1 | LBang2                   (* after "<!" and "<!-" *)
| LComment (buf : str)
| LPI (buf : str)
| LClose (buf : str)                (* after "</" *)
| LOpen (buf : str)                 (* element name *)
| LAttrs (name : str) (ps : pstate) (acc : list (str * str))
| LSlash (name : str) (attrs : list (str * str)).

Definition add_node (n : node) (c : pctx) : pctx := (n :: fst c, snd c).

Definition flush (buf : str) (c : pctx) : option pctx :=
  match buf with
  | [] => Some c
  | _ => match unescape (rev buf) with Some v => Some (add_node (NText v) c) | None => None end
  end.

Definition open_el (t : str) (a : list (str * str)) (c : pctx) : pctx := ([], (t, a, fst c) :: snd c).

Definition close_el (t : str) (c : pctx) : option pctx :=
  match snd c with
  | (t', a, par) :: stk' => if str_eqb t t' then Some (NElem t' a (rev (fst c)) :: par, stk') else None
  | [] => None
  end.

(* one character of the attribute scanner of Model/C20Spec.pa *)
Definition pa_step (c : N) (st : pstate) (acc : list (str * str)) : option (pstate * list (str * str)) :=
  match st with
  | PWs => if xml_ws c then Some (PWs, acc)
           else if name_char c then Some (PName [c], acc) else None
  | PName buf => if N.eqb c 61 then Some (PEq (rev buf), acc)
                 else if name_char c then Some (PName (c :: buf), acc) else None
  | PEq name => if N.eqb c 34 || N.eqb c 39 then Some (PVal c [] name, acc) else None
  | PVal q buf name =>
      if N.eqb c q then
        match unescape (rev buf) with
        | Some v => Some (PAfter, (name, v) :: acc)
        | None => None
        end
      else if N.eqb c 60 then None
      else Some (PVal q (c :: buf) name, acc)
  | PAfter => if xml_ws c then Some (PWs, acc) else None
  end.

Definition between_attrs (ps : pstate) : bool :=
  match ps with PWs | PAfter => true | _ => false end.

Fixpoint lx (s : str) (st : lstate) (c : pctx) : option (list node) :=
  match s with
  | [] => match st with
          | LText buf => match flush buf c with
                         | Some (cur, []) => Some (rev cur)
                         | _ => None
                         end
          | _ => None
          end
  | ch :: t =>
      match st with
      | LText buf =>
          if N.eqb ch 60 then match flush buf c with Some c' => lx t LLt c' | None => None end
          else lx t (LText (ch :: buf)) c
      | LLt =>
          if N.eqb ch 33 then lx t LBang1 c
          else if N.eqb ch 63 then lx t (LPI []) c
          else if N.eqb ch 47 then lx t (LClose []) c
          else if name_char ch then lx t (LOpen [ch]) c else None
      | LBang1 => if N.eqb ch 45 then lx t LBang2 c else None
      | LBang2 => if N.eqb ch 45 then lx t (LComment []) c else None
      | LComment buf =>
          if N.eqb ch 62 then
            match buf with
            | a :: b :: rest => if N.eqb a 45 && N.eqb b 45
                                then lx t (LText []) (add_node (NComment (rev rest)) c)
                                else lx t (LComment (ch :: buf)) c
            | _ => lx t (LComment (ch :: buf)) c
            end
          else lx t (LComment (ch :: buf)) c
      | LPI buf =>
          if N.eqb ch 62 then
            match buf with
            | a :: rest => if N.eqb a 63
                           then lx t (LText []) (add_node (NPI (rev rest)) c)
                           else lx t (LPI (ch :: buf)) c
            | [] => lx t (LPI [ch]) c
            end
          else lx t (LPI (ch :: buf)) c
      | LClose buf =>
          if N.eqb ch 62 then match close_el (rev buf) c with Some c' => lx t (LText []) c' | None => None end
          else if name_char ch then lx t (LClose (ch :: buf)) c else None
      | LOpen buf =>
          if xml_ws ch then lx t (LAttrs (rev buf) PWs []) c
          else if N.eqb ch 62 then lx t (LText []) (open_el (rev buf) [] c)
          else if N.eqb ch 47 then lx t (LSlash (rev buf) []) c
          else if name_char ch then lx t (LOpen (ch :: buf)) c else None
      | LAttrs name ps acc =>
          if between_attrs ps && N.eqb ch 62 then lx t (LText []) (open_el name (rev acc) c)
          else if between_attrs ps && N.eqb ch 47 then lx t (LSlash name (rev acc)) c
          else match pa_step ch ps acc with
               | Some (ps', acc') => lx t (LAttrs name ps' acc') c
               | None => None
               end
      | LSlash name attrs =>
          if N.eqb ch 62 then lx t (LText []) (add_node (NElem name attrs []) c) else None
      end
  end.

Definition xml_parse (s : str) : option (list node) := lx s (LText []) ([], []).

(* ------------------------------------------------------------ what a program means *)

Definition sp (i : Z) : str := mul_str [32] i.

Definition data_nodes (d : option str) : list node :=
  match d with Some (x :: d') => [NText (x :: d')] | _ => [] end.

(* the nodes a statement contributes at indentation i, the writer's own line breaks and indentation
   included as the character data they are *)
Fixpoint layout (i : Z) (p : stmt) : list node :=
  match p with
  | SLeaf t a d => [NElem t (present a) (data_nodes d)]
  | SComment x => [NComment (32 :: x ++ [32])]
  | SCtx t a body =>
      [NElem t (present a)
         (flat_map (fun c => NText (10 :: sp (i + 2)) :: layout (i + 2) c) body ++ [NText (10 :: sp i)])]
  | _ => []
  end.

Definition decl_body : str :=
  [120;109;108;32;118;101;114;115;105;111;110;61;34;49;46;48;34;32;101;110;99;111;100;105;110;103;61;34;
   117;116;102;45;56;34].

Definition layout_doc (l : list stmt) : list node :=
  NPI decl_body :: flat_map (fun c => NText [10] :: layout 0 c) l ++ [NText [10]].

(* the document the program describes: elements, attributes that have a value, text, comments *)
Fixpoint doc_of (p : stmt) : list node :=
  match p with
  | SLeaf t a d => [NElem t (present a) (data_nodes d)]
  | SComment x => [NComment (32 :: x ++ [32])]
  | SCtx t a body => [NElem t (present a) (flat_map doc_of body)]
  | _ => []
  end.

(* dropping the text nodes that consist of blanks only (the reader's view of indentation) *)
Definition blank (n : node) : bool :=
  match n with NText s => forallb xml_ws s | _ => false end.
Fixpoint strip (n : node) : node :=
  match n with
  | NElem t a kids =>
      NElem t a ((fix go (l : list node) : list node :=
                    match l with
                    | [] => []
                    | k :: r => if blank k then go r else strip k :: go r
                    end) kids)
  | _ => n
  end.
Fixpoint strip_all (l : list node) : list node :=
  match l with
  | [] => []
  | k :: r => if blank k then strip_all r else strip k :: strip_all r
  end.

(* programs made of leaf elements, comments and `with tagcontext` blocks that run to their end *)
Fixpoint pure (p : stmt) : bool :=
  match p with
  | SCtx _ _ body => forallb pure body
  | SLeaf _ _ _ | SComment _ => true
  | _ => false
  end.

(* ------------------------------------------------------------ comparison with another reader
   (used by the correspondence check: the reader above and expat on the same bytes) *)
Definition xev := (N * str * list (str * str))%type.   (* 0 start, 1 end, 2 text, 3 comment, 4 instruction *)

Fixpoint flatten (n : node) : list xev :=
  match n with
  | NElem t a kids =>
      (0, t, a) :: (fix go (l : list node) : list xev :=
                      match l with [] => [] | k :: r => flatten k ++ go r end) kids ++ [(1, t, [])]
  | NText s => [(2, s, [])]
  | NComment s => [(3, s, [])]
  | NPI s => [(4, s, [])]
  end.

Fixpoint attrs_eqb (a b : list (str * str)) : bool :=
  match a, b with
  | [], [] => true
  | (n1, v1) :: r1, (n2, v2) :: r2 => str_eqb n1 n2 && str_eqb v1 v2 && attrs_eqb r1 r2
  | _, _ => false
  end.

Fixpoint xevs_eqb (a b : list xev) : bool :=
  match a, b with
  | [], [] => true
  | (k1, s1, a1) :: r1, (k2, s2, a2) :: r2 =>
      N.eqb k1 k2 && str_eqb s1 s2 && attrs_eqb a1 a2 && xevs_eqb r1 r2
  | _, _ => false
  end.

(* what a SAX-style reader reports: the events of the root elements and of the comments beside them;
   the declaration and the line breaks outside the root element are not character data of the document *)
Definition reported (doc : list node) : list xev :=
  flat_map (fun n => match n with NText _ | NPI _ => [] | _ => flatten n end) doc.

(* ------------------------------------------------------------ programs that abort
   what a program of leaf elements, comments, `with tagcontext` blocks and a raising statement gets to write: everything up to
   the first raise, every block that was entered still being left (the `finally` of tagcontext) *)
Fixpoint cut (p : stmt) : list stmt * bool :=
  match p with
  | SCtx t a body =>
      let '(b', r) := (fix go (l : list stmt) : list stmt * bool :=
                         match l with
                         | [] => ([], false)
                         | x :: rest => let '(x', r) := cut x in
                                        if r then (x', true)
                                        else let '(rest', r') := go rest in (x' ++ rest', r')
                         end) body in
      ([SCtx t a b'], r)
  | SRaise => ([], true)
  | _ => ([p], false)
  end.
Fixpoint cutl (l : list stmt) : list stmt * bool :=
  match l with
  | [] => ([], false)
  | x :: rest => let '(x', r) := cut x in
                 if r then (x', true)
                 else let '(rest', r') := cutl rest in (x' ++ rest', r')
  end.

