From Coq Require Import List NArith ZArith Bool.
From GIV.Lib Require Import Regex Str.
From GIV.Model Require Import C17.
Import ListNotations.

Definition report_row := (str * str * str * list str * list str)%type.

Record hcase := { h_id : N; h_fs : fs; h_base : list str; h_ops : list op;
                  h_res : list (option res); h_report : list report_row }.

Definition res_eqb (a b : option res) : bool :=
  match a, b with
  | None, None => true
  | Some (ROk x), Some (ROk y) => str_eqb x y
  | Some (RErr x), Some (RErr y) => Z.eqb x y
  | _, _ => false
  end.
Fixpoint list_eqb {A} (f : A -> A -> bool) (a b : list A) : bool :=
  match a, b with
  | [], [] => true
  | x :: a', y :: b' => f x y && list_eqb f a' b'
  | _, _ => false
  end.
Definition subset (a b : list str) : bool := forallb (fun x => existsb (str_eqb x) b) a.

(* distinct namespaces of the state, each with version, path, immediate and transitive deps *)
Definition model_report (st : state) : list report_row :=
  map (fun l => (l.(l_ns), l.(l_file).(f_version), l.(l_path), map dep_str l.(l_file).(f_deps),
                 transitive 32 st l.(l_file) [])) st.

Definition row_ok (rows : list report_row) (r : report_row) : bool :=
  let '(ns, ver, path, imm, allr) := r in
  existsb (fun m => let '(ns', ver', path', imm', all') := m in
                    str_eqb ns ns' && str_eqb ver ver' && str_eqb path path' && list_eqb str_eqb imm imm'
                    && subset allr all' && subset all' allr) rows.

Definition h_bad (c : hcase) : bool :=
  let '((_, st), rs) := run c.(h_fs) c.(h_base) ([], []) c.(h_ops) in
  let rep := model_report st in
  negb (list_eqb res_eqb rs c.(h_res)
        && Nat.eqb (length rep) (length c.(h_report))
        && forallb (row_ok rep) c.(h_report)).

Definition v_bad (c : str * bool * Z * Z) : bool :=
  let '(v, ok, ma, mi) := c in
  match parse_version v with
  | Some (a, b) => negb (ok && Z.eqb a ma && Z.eqb b mi)
  | None => ok
  end.
