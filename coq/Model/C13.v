From Coq Require Import List NArith ZArith Bool.
From GIV.Lib Require Import Regex Str.
From GIV.Gen Require Import ConstWrap.
Import ListNotations.
Local Open Scope N_scope.

(* giscanner/transformer.py: _enum_common_prefix, _create_enum (names), _create_const (values) *)

(* str.split(sep) for a one-character separator *)
Fixpoint split_on_aux (sep : N) (s : str) (cur : str) : list str :=
  match s with
  | [] => [rev cur]
  | c :: t => if N.eqb c sep then rev cur :: split_on_aux sep t [] else split_on_aux sep t (c :: cur)
  end.
Definition split_on (sep : N) (s : str) : list str := split_on_aux sep s [].
Definition words (s : str) : list str := split_on 95 s.

(* Python's str ordering: lexicographic on code points; min(a, b) returns a when a <= b *)
Fixpoint str_leb (a b : str) : bool :=
  match a, b with
  | [], _ => true
  | _ :: _, [] => false
  | x :: a', y :: b' => if N.ltb x y then true else if N.ltb y x then false else str_leb a' b'
  end.
Definition str_min (a b : str) : str := if str_leb a b then a else b.

(* common_prefix(a, b) -- after the fix of F2 an empty list of common words gives '' *)
Fixpoint cp_go (wa wb : list str) (common : list str) (a b : str) : str :=
  match wa, wb with
  | x :: wa', y :: wb' =>
      if str_eqb x y then cp_go wa' wb' (common ++ [x]) a b
      else match common with [] => [] | _ => join [95] common ++ [95] end
  | _, _ => str_min a b
  end.
Definition common_prefix (a b : str) : str := cp_go (words a) (words b) [] a b.

(* the loop of _enum_common_prefix over the member identifiers *)
Fixpoint prefix_loop (prefix : str) (rest : list str) : option str :=
  match rest with
  | [] => Some prefix
  | c :: t => let p := common_prefix prefix c in
              match p with [] => None | _ => prefix_loop p t end
  end.
Definition enum_common_prefix (idents : list str) : option str :=
  match idents with
  | first :: (_ :: _) as rest => prefix_loop first rest
  | _ => None                                  (* nothing less than 2 has a common prefix *)
  end.

Definition is_upper (c : N) : bool := (65 <=? c) && (c <=? 90).
Definition lower_char (c : N) : N := if is_upper c then c + 32 else c.
Definition upper_char (c : N) : N := if (97 <=? c) && (c <=? 122) then c - 32 else c.
Definition lower (s : str) : str := map lower_char s.     (* ASCII identifiers *)
Definition upper (s : str) : str := map upper_char s.

(* _strip_symbol for a namespace with symbol prefixes [prefixes] and no includes:
   None = TransformerException (the whole enumeration is skipped with a warning) *)
Fixpoint first_prefix (prefixes : list str) (name : str) : option str :=
  match prefixes with
  | [] => None
  | p :: t => let p' := if endswith [95] p then p else p ++ [95] in
              if startswith p' name then Some (skipn (length p') name) else first_prefix t name
  end.
Definition strip_symbol (prefixes : list str) (accept_unprefixed : bool) (ident : str) : option str :=
  let hidden := startswith [95] ident in
  let name := if hidden then skipn 1 ident else ident in
  let ps := match name with
            | c :: _ => if is_upper c then map upper prefixes else prefixes
            | [] => prefixes
            end in
  match first_prefix ps name with
  | Some n => Some (if hidden then 95 :: n else n)
  | None => if accept_unprefixed then Some (if hidden then 95 :: name else name) else None
  end.

Record member := { m_ident : str; m_value : Z; m_private : bool }.

Fixpoint opt_all {A} (l : list (option A)) : option (list A) :=
  match l with
  | [] => Some []
  | None :: _ => None
  | Some x :: t => match opt_all t with Some r => Some (x :: r) | None => None end
  end.

(* members of the emitted enumeration: (name, value, c:identifier), in declaration order *)
Definition create_enum (prefixes : list str) (accept_unprefixed : bool) (ms : list member)
  : option (list (str * Z * str)) :=
  let prefixlen := match enum_common_prefix (map m_ident ms) with
                   | Some p => length p | None => O end in
  opt_all (map (fun m =>
                  let name := if Nat.ltb 0 prefixlen then Some (skipn prefixlen m.(m_ident))
                              else strip_symbol prefixes accept_unprefixed m.(m_ident) in
                  match name with
                  | Some n => Some (lower n, m.(m_value), m.(m_ident))
                  | None => None
                  end)
               (filter (fun m => negb m.(m_private)) ms)).

(* _create_const: integer value as emitted, given the fundamental type it resolves to *)
Fixpoint wrap_lookup (fund : str) (tbl : list (str * Z)) : option Z :=
  match tbl with
  | [] => None
  | (n, k) :: t => if str_eqb n fund then Some k else wrap_lookup fund t
  end.
Definition const_value (fund : str) (v : Z) : Z :=
  match wrap_lookup fund const_wrap_table with
  | Some k => (v mod 2 ^ k)%Z
  | None => v
  end.
