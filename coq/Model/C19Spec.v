From Coq Require Import List NArith Bool.
From GIV.Lib Require Import Regex Str.
From GIV.Model Require Import C19.
Import ListNotations.
Local Open Scope N_scope.

(* Executable form of the property text, written without reference to the regular
   expression: used to judge the implementation's own outputs. *)
Definition libname_charb (c : N) : bool :=
  N.eqb c 47 || ((65 <=? c) && (c <=? 90)) || ((97 <=? c) && (c <=? 122))
  || ((48 <=? c) && (c <=? 57)) || N.eqb c 95 || N.eqb c 45.

Fixpoint strip_prefix (p s : str) : option str :=
  match p, s with
  | [], _ => Some s
  | x :: p', y :: s' => if N.eqb x y then strip_prefix p' s' else None
  | _, [] => None
  end.

(* "base name is lib<name> followed by a character other than a letter, digit,
    underscore or hyphen" *)
Definition spec_match (name w : str) : bool :=
  match strip_prefix ([108;105;98] ++ name) (basename w) with
  | Some (c :: _) => negb (libname_charb c)
  | _ => false
  end.

Fixpoint nodup_str (l : list str) : list str :=
  match l with
  | [] => []
  | x :: t => x :: filter (fun y => negb (str_eqb x y)) (nodup_str t)
  end.

Fixpoint first_index (f : str -> bool) (ws : list str) (i : nat) : option nat :=
  match ws with
  | [] => None
  | w :: t => if f w then Some i else first_index f t (S i)
  end.

Fixpoint select (ws : list str) (i : nat) (idx : list nat) : list str :=
  match ws with
  | [] => []
  | w :: t => if existsb (Nat.eqb i) idx then w :: select t (S i) idx else select t (S i) idx
  end.

(* hypotheses of the property: no request contains '/', no listed word satisfies two requests *)
Definition hyp_ok (ps ws : list str) : bool :=
  forallb (fun p => negb (existsb (N.eqb 47) p)) ps &&
  forallb (fun w => Nat.leb (length (filter (fun p => spec_match p w) ps)) 1) ws.

Definition spec_result (libs : list str) (out : str) : option result :=
  let ps := nodup_str libs in
  let ws := words_of_output out in
  if negb (hyp_ok ps ws) then None
  else match ps with
       | [] => Some (Ok [])
       | _ =>
         let firsts := map (fun p => first_index (spec_match p) ws 0) ps in
         let unresolved := map fst (filter (fun pf => match snd pf with None => true | _ => false end)
                                          (combine ps firsts)) in
         match unresolved with
         | [] => Some (Ok (select ws 0 (flat_map (fun o => match o with Some i => [i] | None => [] end) firsts)))
         | _ => Some (Err unresolved)
         end
       end.

Definition result_eqb (a b : result) : bool :=
  match a, b with
  | Ok x, Ok y | Err x, Err y =>
      Nat.eqb (length x) (length y) && forallb (fun p => str_eqb (fst p) (snd p)) (combine x y)
  | _, _ => false
  end.

(* observable of the implementation: Ok words | the SystemExit message *)
Inductive observed := ObsOk (l : list str) | ObsExit (msg : str).
Definition err_prefix : str :=   (* "ERROR: can't resolve libraries to shared libraries: " *)
  [69;82;82;79;82;58;32;99;97;110;39;116;32;114;101;115;111;108;118;101;32;108;105;98;114;97;114;105;101;115;32;
   116;111;32;115;104;97;114;101;100;32;108;105;98;114;97;114;105;101;115;58;32].
Definition observe (r : result) : observed :=
  match r with
  | Ok l => ObsOk l
  | Err names => ObsExit (err_prefix ++ join [44;32] names)
  end.
Definition observed_eqb (a b : observed) : bool :=
  match a, b with
  | ObsOk x, ObsOk y => result_eqb (Ok x) (Ok y)
  | ObsExit x, ObsExit y => str_eqb x y
  | _, _ => false
  end.

(* the error must name every unresolved request (substring test), whatever the wording *)
Fixpoint contains (needle hay : str) : bool :=
  match hay with
  | [] => match needle with [] => true | _ => false end
  | _ :: t => startswith needle hay || contains needle t
  end.
Definition spec_accepts (spec : result) (obs : observed) : bool :=
  match spec, obs with
  | Ok x, ObsOk y => result_eqb (Ok x) (Ok y)
  | Err names, ObsExit msg => forallb (fun n => contains n msg) names
  | _, _ => false
  end.

Record case := { c_id : N; c_libs : list str; c_out : str; c_obs : observed }.
Definition tie_bad (c : case) : bool :=
  negb (observed_eqb (observe (resolve_from_ldd_output (fun _ => false) c.(c_libs) c.(c_out))) c.(c_obs)).
Definition spec_bad (c : case) : bool :=
  match spec_result c.(c_libs) c.(c_out) with
  | None => false
  | Some r => negb (spec_accepts r c.(c_obs))
  end.
Definition spec_silent (c : case) : bool :=
  match spec_result c.(c_libs) c.(c_out) with None => true | _ => false end.

(* single-word pattern cases: (id, name, word, matched?) *)
Definition pat_bad (c : N * str * str * bool) : bool :=
  let '(_, n, w, b) := c in negb (Bool.eqb (ldd_match n w) b).
Definition pat_spec_bad (c : N * str * str * bool) : bool :=
  let '(_, n, w, b) := c in
  if existsb (N.eqb 47) n || existsb (N.eqb 10) w then false
  else negb (Bool.eqb (spec_match n w) b).

Definition opt_str_eqb (a b : option str) : bool :=
  match a, b with Some x, Some y => str_eqb x y | None, None => true | _, _ => false end.
