From Coq Require Import List Arith NArith Bool.
From GIV.Lib Require Import Regex Str Backtrack.
From GIV.Model Require Import C02 C10 C10B.
Import ListNotations.
Local Open Scope N_scope.

(* Boolean comparison of what the model computes with what the implementation was observed to do
   (used by the correspondence case files only). *)
Fixpoint all2b {A B : Type} (f : A -> B -> bool) (x : list A) (y : list B) : bool :=
  match x, y with
  | [], [] => true
  | a :: x', b :: y' => f a b && all2b f x' y'
  | _, _ => false
  end.
Definition opt_eqb {A : Type} (f : A -> A -> bool) (a b : option A) : bool :=
  match a, b with Some x, Some y => f x y | None, None => true | _, _ => false end.
Definition value_eqb (a b : avalue) : bool :=
  match a, b with
  | AList x, AList y => all2b str_eqb x y
  | ANone, ANone => true
  | ADict x, ADict y => all2b (fun p q => str_eqb (fst p) (fst q) && opt_eqb str_eqb (snd p) (snd q)) x y
  | _, _ => false
  end.
Definition anns_eqb (a b : anns) : bool := all2b (fun p q => str_eqb (fst p) (fst q) && value_eqb (snd p) (snd q)) a b.
Definition part_eqb (a b : part) : bool :=
  str_eqb (pt_name a) (pt_name b) && Nat.eqb (pt_line a) (pt_line b) && anns_eqb (pt_anns a) (pt_anns b)
  && opt_eqb Nat.eqb (pt_apos a) (pt_apos b) && opt_eqb str_eqb (pt_desc a) (pt_desc b) && opt_eqb str_eqb (pt_value a) (pt_value b).
Definition blk_eqb (a b : blk) : bool :=
  str_eqb (bk_name a) (bk_name b) && Nat.eqb (bk_line a) (bk_line b) && anns_eqb (bk_anns a) (bk_anns b)
  && opt_eqb Nat.eqb (bk_apos a) (bk_apos b) && all2b part_eqb (bk_params a) (bk_params b) && opt_eqb str_eqb (bk_desc a) (bk_desc b)
  && all2b part_eqb (bk_tags a) (bk_tags b) && str_eqb (bk_code_before a) (bk_code_before b) && str_eqb (bk_code_after a) (bk_code_after b).
(* the two "missing ':'" messages have the same text *)
Definition canon_code (c : nat) : nat := if Nat.eqb c 7 then 28%nat else c.
Definition diag_eqb (a b : diag) : bool :=
  Bool.eqb (dg_err a) (dg_err b) && Nat.eqb (canon_code (dg_code a)) (canon_code (dg_code b)) && Nat.eqb (dg_line a) (dg_line b)
  && opt_eqb Nat.eqb (dg_col a) (dg_col b) && opt_eqb str_eqb (dg_quoted a) (dg_quoted b).
(* an observation: the block (None when the parser returned None), block.indentation, the diagnostics of the parse phase, raised *)
Definition outcome_eqb (a b : outcome) : bool :=
  Bool.eqb (o_exc a) (o_exc b) &&
  (o_exc a || (opt_eqb blk_eqb (o_blk a) (o_blk b)
               && (match o_blk a with Some _ => all2b str_eqb (o_indent a) (o_indent b) | None => true end)
               && all2b diag_eqb (o_diags a) (o_diags b))).
(* which component differs first (for the replay file): 0 equal, 1 raised, 2 block, 3 indentation, 4 diagnostics *)
Definition outcome_diff (a b : outcome) : nat :=
  if negb (Bool.eqb (o_exc a) (o_exc b)) then 1%nat
  else if o_exc a then 0%nat
  else if negb (opt_eqb blk_eqb (o_blk a) (o_blk b)) then 2%nat
  else if negb (match o_blk a with Some _ => all2b str_eqb (o_indent a) (o_indent b) | None => true end) then 3%nat
  else if negb (all2b diag_eqb (o_diags a) (o_diags b)) then 4%nat else 0%nat.
