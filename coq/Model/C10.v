From Coq Require Import List Arith NArith Bool String Ascii.
From GIV.Lib Require Import Regex Str.
From GIV.Gen Require Import AnnNames.
From GIV.Model Require Import C02.
Import ListNotations.
Local Open Scope N_scope.

(* The annotation fields of GTK-Doc comment blocks: giscanner/annotationparser.py
   GtkDocCommentBlockParser._parse_annotations (the character loop), _parse_annotation,
   _parse_annotation_options_list / _dict / _unknown, _parse_fields, and
   GtkDocCommentBlockWriter._serialize_annotations. *)

Definition lpar : N := 40.
Definition rpar : N := 41.
Definition sp : N := 32.

(* str.strip() *)
Fixpoint lstrip (x : str) : str := match x with c :: t => if is_space c then lstrip t else x | [] => [] end.
Definition strip (x : str) : str := rev (lstrip (rev (lstrip x))).

(* str.split(' ') on a single space: empty pieces are kept *)
Fixpoint split_sp (x : str) (cur : str) : list str :=
  match x with
  | [] => [rev cur]
  | c :: t => if N.eqb c sp then rev cur :: split_sp t [] else split_sp t (c :: cur)
  end.
(* str.split(c, 1) *)
Fixpoint split1 (c : N) (x : str) (cur : str) : str * option str :=
  match x with
  | [] => (rev cur, None)
  | d :: t => if N.eqb d c then (rev cur, Some t) else split1 c t (d :: cur)
  end.

Definition ascii_lower (c : N) : N := if N.leb 65 c && N.leb c 90 then c + 32 else c.

(* options of one annotation *)
Inductive avalue :=
| AList (opts : list str)
| ADict (opts : list (str * option str))       (* in order of first appearance; a repeated key keeps its place, takes the new value *)
| ANone.                                       (* an unknown annotation without options *)

Fixpoint dict_set (d : list (str * option str)) (k : str) (v : option str) : list (str * option str) :=
  match d with
  | [] => [(k, v)]
  | (a, b) :: t => if str_eqb a k then (a, v) :: t else (a, b) :: dict_set t k v
  end.

Definition parse_options_list (o : option str) : list str * bool (* warned: key=value given to a list annotation *) :=
  match o with
  | None | Some [] => ([], false)
  | Some x => if existsb (N.eqb 61) x then ([strip x], true) else (split_sp x [], false)
  end.
Definition parse_options_dict (o : option str) : list (str * option str) :=
  match o with
  | None | Some [] => []
  | Some x => fold_left (fun d p => let '(k, v) := split1 61 p [] in dict_set d k v) (split_sp x []) []
  end.

(* _parse_annotation, for the current annotation syntax ('<' and '>' are the deprecated spelling of
   parentheses; the deprecated names inout -> in-out ... are not modelled) *)
Definition parse_annotation (text : str) : str * avalue * bool :=
  let text' := map (fun c => if N.eqb c 60 then lpar else if N.eqb c 62 then rpar else c) text in
  let '(n0, rest) := split1 sp text' [] in
  let name := map ascii_lower n0 in
  if existsb (str_eqb name) dict_annotations then (name, ADict (parse_options_dict rest), false)
  else if existsb (str_eqb name) list_annotations then let '(l, w) := parse_options_list rest in (name, AList l, w)
  else (name, match rest with None | Some [] => ANone | Some x => AList [strip x] end, false).

(* ---- the character loop of _parse_annotations *)
Inductive perr := EUnexpected | EUnbalanced.
Record pstate := { ps_level : nat; ps_buf : str (* reversed *); ps_prev : option N; ps_start : nat; ps_end : nat;
                   ps_groups : list str (* bodies of the closed groups, in order *) }.
Definition ps0 : pstate := {| ps_level := 0; ps_buf := []; ps_prev := None; ps_start := 0; ps_end := 0; ps_groups := [] |}.
Inductive pres := PGo (st : pstate) | PBreak (st : pstate) | PFail (e : perr) (col : nat).

Definition pstep (st : pstate) (i : nat) (c : N) : pres :=
  let prev_lpar := match ps_prev st with Some p => N.eqb p lpar | None => false end in
  if N.eqb c lpar then
    let lvl := S (ps_level st) in
    if prev_lpar then PFail EUnexpected i
    else PGo {| ps_level := lvl; ps_buf := if Nat.ltb 1 lvl then c :: ps_buf st else ps_buf st; ps_prev := Some c;
                ps_start := if Nat.eqb lvl 1 then i else ps_start st; ps_end := ps_end st; ps_groups := ps_groups st |}
  else if N.eqb c rpar then
    if prev_lpar then PFail EUnexpected i
    else match ps_level st with
         | O => PFail EUnbalanced i
         | S O => PGo {| ps_level := 0; ps_buf := []; ps_prev := Some c; ps_start := ps_start st; ps_end := S i;
                         ps_groups := ps_groups st ++ [strip (rev (ps_buf st))] |}
         | S l => PGo {| ps_level := l; ps_buf := c :: ps_buf st; ps_prev := Some c; ps_start := ps_start st; ps_end := ps_end st;
                         ps_groups := ps_groups st |}
         end
  else if is_space c then
    PGo {| ps_level := ps_level st; ps_buf := if Nat.ltb 0 (ps_level st) then c :: ps_buf st else ps_buf st; ps_prev := Some c;
           ps_start := ps_start st; ps_end := ps_end st; ps_groups := ps_groups st |}
  else match ps_level st with
       | O => PBreak st
       | _ => PGo {| ps_level := ps_level st; ps_buf := c :: ps_buf st; ps_prev := Some c; ps_start := ps_start st; ps_end := ps_end st;
                     ps_groups := ps_groups st |}
       end.

Fixpoint ploop (x : str) (i : nat) (st : pstate) : pres :=
  match x with
  | [] => PGo st
  | c :: t => match pstep st i c with
              | PGo st' => ploop t (S i) st'
              | r => r
              end
  end.

(* result: the annotation bodies and the end position, or the error with the index it is reported at *)
Inductive gres := GOk (groups : list str) (end_pos : nat) | GErr (e : perr) (idx : nat).
Definition parse_groups (fields : str) : gres :=
  match ploop fields 0 ps0 with
  | PFail e i => GErr e i
  | PBreak st => GOk (ps_groups st) (ps_end st)         (* the loop only breaks outside parentheses *)
  | PGo st =>
      match ps_level st with
      | O => GOk (ps_groups st) (ps_end st)
      | _ => GErr EUnbalanced (List.length fields - 1)   (* reported at the last character *)
      end
  end.

(* annotations as an ordered dictionary: a repeated name keeps its place and takes the new options *)
Fixpoint ann_set (d : list (str * avalue)) (k : str) (v : avalue) : list (str * avalue) :=
  match d with
  | [] => [(k, v)]
  | (a, b) :: t => if str_eqb a k then (a, v) :: t else (a, b) :: ann_set t k v
  end.
Definition annotations_of (groups : list str) : list (str * avalue) :=
  fold_left (fun d g => let '(n, v, _) := parse_annotation g in ann_set d n v) groups [].

(* _parse_fields: annotations, then the description after an optional ':' *)
Definition parse_fields (fields : str) : option (list (str * avalue) * str * bool (* missing ':' reported *)) :=
  match parse_groups fields with
  | GErr _ _ => None
  | GOk groups e =>
      let d := strip (skipn e fields) in
      match d with
      | [] => Some (annotations_of groups, [], false)
      | c :: t =>
          (* the ':' separates annotations from the description: without annotations on this field a
             leading ':' belongs to the description *)
          if Nat.ltb 0 e then
            if N.eqb c 58 then Some (annotations_of groups, t, false) else Some (annotations_of groups, d, true)
          else Some (annotations_of groups, d, false)
      end
  end.

(* ---- the writer *)
Fixpoint join_sp (l : list str) : str := match l with [] => [] | [x] => x | x :: t => x ++ sp :: join_sp t end.
Definition serialize_value (v : avalue) : option str :=
  match v with
  | AList [] | ANone | ADict [] => None
  | AList opts => Some (join_sp opts)
  | ADict kvs => Some (strip (flat_map (fun kv => match snd kv with
                                                  | Some v => fst kv ++ [61] ++ v ++ [sp]       (* an empty value is kept: "k=" (fix 14e946c) *)
                                                  | None => fst kv ++ [sp]
                                                  end) kvs))
  end.
Definition serialize_annotation (a : str * avalue) : str :=
  match serialize_value (snd a) with
  | Some o => [lpar] ++ fst a ++ [sp] ++ o ++ [rpar]
  | None => [lpar] ++ fst a ++ [rpar]
  end.
Definition serialize_annotations (l : list (str * avalue)) : str := join_sp (map serialize_annotation l).
