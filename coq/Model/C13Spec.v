From Coq Require Import List NArith ZArith Bool.
From GIV.Lib Require Import Regex Str.
From GIV.Model Require Import C13.
Import ListNotations.
Local Open Scope N_scope.

(* The property, executable, written from its text. *)

Fixpoint is_prefix (a b : list str) : bool :=
  match a, b with
  | [], _ => true
  | x :: a', y :: b' => str_eqb x y && is_prefix a' b'
  | _ :: _, [] => false
  end.

(* longest common prefix of word lists *)
Fixpoint lcp2 (a b : list str) : list str :=
  match a, b with
  | x :: a', y :: b' => if str_eqb x y then x :: lcp2 a' b' else []
  | _, _ => []
  end.
Definition lcp_all (l : list (list str)) : list str :=
  match l with
  | [] => []
  | w :: t => fold_left lcp2 t w
  end.

(* hypotheses under which the property speaks: words non-empty, no member a word-prefix of
   another (in particular members distinct) *)
Fixpoint no_prefix_pairs (l : list (list str)) : bool :=
  match l with
  | [] => true
  | w :: t => forallb (fun v => negb (is_prefix w v) && negb (is_prefix v w)) t && no_prefix_pairs t
  end.
Definition words_ok (s : str) : bool := forallb (fun w => negb (Nat.eqb (length w) 0)) (words s).
Definition enum_hyp (idents : list str) : bool :=
  forallb words_ok idents && no_prefix_pairs (map words idents).

(* expected member names: drop the shared whole words; with fewer than two members or no
   shared word, drop the namespace prefix (None when a member does not carry it: the
   property is then silent) *)
Definition spec_names (prefixes : list str) (accept_unprefixed : bool) (idents_all idents_public : list str)
  : option (list str) :=
  let shared := match idents_all with
                | _ :: _ :: _ => lcp_all (map words idents_all)
                | _ => []
                end in
  match shared with
  | [] => opt_all (map (fun i => option_map lower (strip_symbol prefixes accept_unprefixed i)) idents_public)
  | _ => Some (map (fun i => lower (join [95] (skipn (length shared) (words i)))) idents_public)
  end.

(* widths of the unsigned types whose width GLib fixes on every platform, from the documentation
   (guint8/16/32/64 by name; guint is 32 bits wherever GLib runs, gushort 16, gunichar is a guint32);
   gulong, gsize and guintptr depend on the platform and have no entry *)
Definition unsigned_widths : list (str * Z) :=
  [([103;117;105;110;116;56], 8%Z); ([103;117;105;110;116;49;54], 16%Z); ([103;117;105;110;116;51;50], 32%Z);
   ([103;117;105;110;116;54;52], 64%Z); ([103;117;105;110;116], 32%Z); ([103;117;115;104;111;114;116], 16%Z);
   ([103;117;110;105;99;104;97;114], 32%Z)].
Fixpoint width_lookup (fund : str) (tbl : list (str * Z)) : option Z :=
  match tbl with
  | [] => None
  | (n, k) :: t => if str_eqb n fund then Some k else width_lookup fund t
  end.
Definition unsigned_width (fund : str) : option Z := width_lookup fund unsigned_widths.
Definition spec_const_ok (fund : str) (declared emitted : Z) : bool :=
  match unsigned_width fund with
  | Some k => Z.leb 0 emitted && Z.ltb emitted (2 ^ k) && Z.eqb ((emitted - declared) mod 2 ^ k) 0
  | None => Z.eqb emitted declared
  end.

(* ---- case records for the correspondence *)
Definition emitted := option (list (str * Z * str)).
Fixpoint mem_eqb (a b : list (str * Z * str)) : bool :=
  match a, b with
  | [], [] => true
  | (n1, v1, c1) :: a', (n2, v2, c2) :: b' => str_eqb n1 n2 && Z.eqb v1 v2 && str_eqb c1 c2 && mem_eqb a' b'
  | _, _ => false
  end.
Definition emitted_eqb (a b : emitted) : bool :=
  match a, b with
  | None, None => true
  | Some x, Some y => mem_eqb x y
  | _, _ => false
  end.

Record ecase := { e_id : N; e_prefixes : list str; e_unpref : bool; e_members : list member; e_obs : emitted }.
Definition e_tie_bad (c : ecase) : bool :=
  negb (emitted_eqb (create_enum c.(e_prefixes) c.(e_unpref) c.(e_members)) c.(e_obs)).

Definition e_spec_bad (c : ecase) : bool :=
  let all := map m_ident c.(e_members) in
  let pub := filter (fun m => negb m.(m_private)) c.(e_members) in
  if negb (enum_hyp all) then false
  else match spec_names c.(e_prefixes) c.(e_unpref) all (map m_ident pub), c.(e_obs) with
       | Some names, Some obs =>
           negb (mem_eqb (combine (combine names (map m_value pub)) (map m_ident pub)) obs)
       | Some _, None => true          (* an enumeration the property describes was dropped *)
       | None, _ => false
       end.
Definition e_spec_silent (c : ecase) : bool :=
  let all := map m_ident c.(e_members) in
  let pub := filter (fun m => negb m.(m_private)) c.(e_members) in
  negb (enum_hyp all) ||
  match spec_names c.(e_prefixes) c.(e_unpref) all (map m_ident pub) with None => true | _ => false end.

(* constants: (id, fundamental, declared value, emitted value) *)
Definition k_tie_bad (c : N * str * Z * Z) : bool :=
  let '(_, f, v, e) := c in negb (Z.eqb (const_value f v) e).
Definition k_spec_bad (c : N * str * Z * Z) : bool :=
  let '(_, f, v, e) := c in negb (spec_const_ok f v e).
