From Coq Require Import List ZArith NArith Bool.
From GIV.Gen Require Import Align Platform.
From GIV.Model Require Import C08.
Import ListNotations.
Local Open Scope Z_scope.

Fixpoint nstr_eqb (a b : list N) : bool :=
  match a, b with
  | [], [] => true
  | x :: a', y :: b' => N.eqb x y && nstr_eqb a' b'
  | _, _ => false
  end.

(* a basic (non-pointer) type by its tag name, sized by the platform's ffi table *)
Definition basic (name : list N) : mtype :=
  match find (fun e => let '(_, n, _, _, _, _) := e in nstr_eqb n name) ffi_table with
  | Some (_, _, s, a, isvoid, isptr) => if isvoid || isptr then TUnknown else TScalar s a
  | None => TUnknown
  end.
Definition pointer : mtype := TScalar pointer_size pointer_align.

Definition obs := (list Z * Z * Z)%type.     (* field offsets, size, alignment as stored / as gcc says *)
Fixpoint zlist_eqb (a b : list Z) : bool :=
  match a, b with
  | [], [] => true
  | x :: a', y :: b' => Z.eqb x y && zlist_eqb a' b'
  | _, _ => false
  end.
Definition obs_eqb (a b : obs) : bool :=
  let '(o1, s1, a1) := a in let '(o2, s2, a2) := b in zlist_eqb o1 o2 && Z.eqb s1 s2 && Z.eqb a1 a2.

Record lcase := { lc_id : N; lc_union : bool; lc_members : list member;
                  lc_impl : obs; lc_gcc : option obs }.

Definition model_obs (c : lcase) : obs :=
  stored (if c.(lc_union) then union_layout c.(lc_members) else struct_layout c.(lc_members)).
Definition lc_tie_bad (c : lcase) : bool := negb (obs_eqb (model_obs c) c.(lc_impl)).

(* the property judged on the implementation: equal to what the C compiler says (offsets that
   do not fit the 16-bit field must be marked unknown, not wrapped); a declaration with a
   member of unknown size must be recorded as unknown *)
Definition lc_spec_bad (c : lcase) : bool :=
  match c.(lc_gcc) with
  | Some (go, gs, ga) =>
      let '(io, is_, ia) := c.(lc_impl) in
      negb (zlist_eqb (map (fun o => if 65535 <=? o then 65535 else o) go) io && Z.eqb gs is_ && Z.eqb ga ia)
  | None =>
      let '(io, is_, ia) := c.(lc_impl) in
      negb (Z.eqb is_ 4294967295 && Z.eqb ia 63)
  end.

(* enumerations: (id, values, width stored by the compiler, sizeof according to gcc) *)
Definition en_tie_bad (c : N * list Z * Z * Z) : bool :=
  let '(_, vs, w, _) := c in negb (Z.eqb (fst (enum_storage vs)) w).
Definition en_spec_bad (c : N * list Z * Z * Z) : bool :=
  let '(_, _, w, g) := c in negb (Z.eqb w g).
