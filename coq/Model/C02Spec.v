From Coq Require Import List NArith Bool String Ascii.
From GIV.Lib Require Import Regex Str.
From GIV.Gen Require Import TypeNames.
From GIV.Model Require Import C02.
Import ListNotations.
Local Open Scope N_scope.

(* what the GIR says about one parameter or return value *)
Record obs := { o_array : bool; o_tname : option str; o_ctype : option str; o_child : option str;
                o_transfer : option str; o_nullable : bool; o_scope : option str;
                o_closure : option nat; o_destroy : option nat }.

Definition tr_str (t : option transfer) : option str :=
  match t with Some TNone => Some (s "none") | Some TFull => Some (s "full") | Some TContainer => Some (s "container") | None => None end.

Definition local_name (ns_prefix : str) (giname : str) : str :=
  if startswith ns_prefix giname then skipn (List.length ns_prefix) giname else giname.

Definition shape (e : env) (g : gtype) (ctype : str) : bool * option str * option str * option str :=
  match g with
  | GFund n => (false, Some n, Some ctype, None)
  | GUtf8Array => (true, None, Some ctype, Some (s "utf8"))
  | GList n => (false, Some n, Some ctype, Some (s "gpointer"))
  | GArrayK n el => (true, Some n, Some ctype, Some el)
  | GMap => (false, Some (s "GLib.HashTable"), Some ctype, Some (s "gpointer"))
  | GNamed id => (false, option_map (fun x => local_name (s "Foo.") (fst x)) (env_find e id), Some ctype, None)
  end.

Definition param_obs (e : env) (ps : list param) (p : param) : obs :=
  let '(arr, tn, ct, ch) := shape e p.(p_type) p.(p_ctype) in
  {| o_array := arr; o_tname := tn; o_ctype := ct; o_child := ch; o_transfer := tr_str p.(p_transfer);
     o_nullable := p.(p_nullable); o_scope := p.(p_scope);
     o_closure := match p.(p_closure) with Some n => index_of ps n | None => None end;
     o_destroy := match p.(p_destroy) with Some n => index_of ps n | None => None end |}.

Definition return_obs (e : env) (t : ctree) : obs :=
  let ct := source_type t false in
  let g := type_of_ctype ct true in
  let '(arr, tn, cty, ch) := shape e g (complete_type t false) in
  {| o_array := arr; o_tname := tn; o_ctype := cty; o_child := ch;
     o_transfer := tr_str (return_transfer e g (base_is_const t));
     o_nullable := match g with GFund n => str_eqb n (s "gpointer") | _ => false end; o_scope := None;
     o_closure := None; o_destroy := None |}.

Definition ostr_eqb (a b : option str) : bool :=
  match a, b with Some x, Some y => str_eqb x y | None, None => true | _, _ => false end.
Definition onat_eqb (a b : option nat) : bool :=
  match a, b with Some x, Some y => Nat.eqb x y | None, None => true | _, _ => false end.
Definition obs_eqb (a b : obs) : bool :=
  Bool.eqb a.(o_array) b.(o_array) && ostr_eqb a.(o_tname) b.(o_tname) && ostr_eqb a.(o_ctype) b.(o_ctype)
  && ostr_eqb a.(o_child) b.(o_child) && ostr_eqb a.(o_transfer) b.(o_transfer) && Bool.eqb a.(o_nullable) b.(o_nullable)
  && ostr_eqb a.(o_scope) b.(o_scope) && onat_eqb a.(o_closure) b.(o_closure) && onat_eqb a.(o_destroy) b.(o_destroy).

Record fcase := { f_id : N; f_env : env; f_params : list (str * ctree); f_ret : ctree;
                  f_obs_params : list obs; f_obs_ret : obs; f_obs_throws : bool }.

Fixpoint all2 {A B} (f : A -> B -> bool) (a : list A) (b : list B) : bool :=
  match a, b with [], [] => true | x :: a', y :: b' => f x y && all2 f a' b' | _, _ => false end.

Definition f_bad (c : fcase) : bool :=
  let '(ps, throws) := callable c.(f_env) c.(f_params) in
  negb (all2 obs_eqb (map (param_obs c.(f_env) ps) ps) c.(f_obs_params)
        && obs_eqb (return_obs c.(f_env) c.(f_ret)) c.(f_obs_ret)
        && Bool.eqb throws c.(f_obs_throws)).
