From Coq Require Import List NArith Bool.
From GIV.Lib Require Import Regex Str.
Import ListNotations.
Local Open Scope N_scope.

(* The places where the scanner turns unordered or arbitrarily ordered input into ordered
   output: giscanner/girwriter.py (sorted(...) of namespace members, class members, includes),
   giscanner/ast.py Node.get_main_position (file_positions is a set), annotationparser.py
   parse_comment_blocks (dict keyed by identifier), transformer.py typedef/struct handling
   (the tag namespace). *)

(* Python's str comparison: lexicographic on code points *)
Fixpoint str_leb (a b : str) : bool :=
  match a, b with
  | [], _ => true
  | _ :: _, [] => false
  | x :: a', y :: b' => if N.ltb x y then true else if N.ltb y x then false else str_leb a' b'
  end.

(* sort key of a namespace member: aliases first, then by name (girwriter._write_namespace nscmp;
   within one namespace Node ordering compares names) *)
Definition key := (N * str)%type.
Definition key_leb (a b : key) : bool :=
  if N.ltb (fst a) (fst b) then true else if N.ltb (fst b) (fst a) then false else str_leb (snd a) (snd b).

Section Sort.
  Context {A : Type} (leb : A -> A -> bool).
  Fixpoint insert (x : A) (l : list A) : list A :=
    match l with
    | [] => [x]
    | y :: t => if leb x y then x :: y :: t else y :: insert x t
    end.
  Fixpoint isort (l : list A) : list A :=
    match l with [] => [] | x :: t => insert x (isort t) end.
End Sort.

(* a namespace member as the writer sees it: kind flag, name, and its rendering *)
Record node := { n_alias : bool; n_name : str; n_body : str }.
Definition node_key (n : node) : key := ((if n_alias n then 0 else 1), n_name n).
Definition node_leb (a b : node) : bool := key_leb (node_key a) (node_key b).
Definition write_members (l : list node) : list str := map n_body (isort node_leb l).

(* ---- source positions *)
Record position := { p_file : str; p_line : N; p_typedef : bool }.
(* sorted(key=(filename, line, column)): file first, then line *)
Definition pos_leb (a b : position) : bool :=
  if str_eqb (p_file a) (p_file b) then N.leb (p_line a) (p_line b) else str_leb (p_file a) (p_file b).
Definition psort (l : list position) : list position := isort pos_leb l.

(* get_main_position over an iteration order: the first non-typedef position, else the last
   typedef position *)
Fixpoint main_pos_iter (l : list position) (res : option position) : option position :=
  match l with
  | [] => res
  | p :: t => if p_typedef p then main_pos_iter t (Some p) else Some p
  end.
(* as found: iteration order of a Python set = an arbitrary order of the list *)
Definition main_position_found (iteration_order : list position) : option position := main_pos_iter iteration_order None.
(* repaired: iterate in sorted order *)
Definition main_position (l : list position) : option position := main_pos_iter (psort l) None.

(* ---- comment blocks: a dict keyed by identifier, the last block of a name wins *)
Fixpoint blocks_lookup {B} (blocks : list (str * B)) (name : str) (acc : option B) : option B :=
  match blocks with
  | [] => acc
  | (n, b) :: t => blocks_lookup t name (if str_eqb n name then Some b else acc)
  end.

(* ---- typedef / struct of one tag in either order (transformer.py _create_typedef_compound,
   _create_tag_ns_compound, parse) *)
Record rec := { r_name : option str; r_fields : list str; r_opaque : bool; r_disguised : bool; r_positions : list position }.
Inductive tsym :=
| TTypedef (name : str) (pos : position)        (* typedef struct _Tag Name; *)
| TStruct (fields : list str) (pos : position). (* struct _Tag { fields }; or struct _Tag; *)

(* state: the record of this tag in the tag namespace (if any), and the further typedefs of the
   same tag: each becomes a record of its own that SHARES the field list of the tag's record
   (new_compound.fields = compound.fields), so fields parsed later show up in it too *)
Definition tstate := (option rec * list (str * position))%type.
Definition tstep (st : tstate) (x : tsym) : tstate :=
  let '(tag, extra) := st in
  match x with
  | TTypedef name pos =>
      match tag with
      | Some c =>
          match r_name c with
          | Some _ => (tag, extra ++ [(name, pos)])
          | None => (Some {| r_name := Some name; r_fields := r_fields c; r_opaque := r_opaque c; r_disguised := r_disguised c;
                             r_positions := r_positions c ++ [pos] |}, extra)
          end
      | None => (Some {| r_name := Some name; r_fields := []; r_opaque := true; r_disguised := true; r_positions := [pos] |}, extra)
      end
  | TStruct fields pos =>
      let c := match tag with
               | Some c => c
               | None => {| r_name := None; r_fields := []; r_opaque := true; r_disguised := false; r_positions := [] |}
               end in
      let fs := r_fields c ++ fields in
      (Some {| r_name := r_name c; r_fields := fs; r_opaque := match fs with [] => true | _ => false end; r_disguised := false;
               r_positions := r_positions c ++ [pos] |}, extra)
  end.
Definition trun (l : list tsym) : tstate := fold_left tstep l (None, []).
(* the records of the namespace at the end *)
Definition tfinal (st : tstate) : list rec :=
  match fst st with
  | Some c => c :: map (fun np => {| r_name := Some (fst np); r_fields := r_fields c; r_opaque := false; r_disguised := false;
                                     r_positions := [snd np] |}) (snd st)
  | None => []
  end.
