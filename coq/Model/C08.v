From Coq Require Import List ZArith Bool.
From GIV.Gen Require Import Align Platform.
Import ListNotations.
Local Open Scope Z_scope.

(* girepository/giroffsets.c for acyclic declarations.  A member type is given as a tree
   (the C code follows names to already-parsed nodes and memoises; for acyclic
   declarations that is the same function). *)
Inductive mtype :=
| TScalar (size align : Z)            (* basic tag with an ffi type; any pointer; a callback field *)
| TUnknown                            (* void, a pointer-like tag used by value, an unresolvable name *)
| TArray (fixed : option Z) (elt : mtype)
| TEnum (values : list Z)
| TStruct (ms : list member)
| TUnion (ms : list member)
with member :=
| MField (t : mtype)
| MCallbackNode.                      (* a <callback> placed directly among the members *)

Definition zmax (a b : Z) : Z := if a <? b then b else a.   (* MAX(a, b) = a > b ? a : b *)

(* compute_enum_storage_type: width in bytes and signedness *)
Definition enum_storage (values : list Z) : Z * bool :=
  let maxv := fold_left (fun m v => if m <? v then v else m) values 0 in
  let minv := fold_left (fun m v => if v <? m then v else m) values 0 in
  if minv <? 0 then
    if (-128 <? minv) && (maxv <=? 127) then (enum7_width, true)
    else if (c_minshort <=? minv) && (maxv <=? c_maxshort) then (enum8_width, true)
    else if (- c_maxint - 1 <=? minv) && (maxv <=? c_maxint) then (enum9_width, true)
    else (8, true)
  else
    if maxv <=? 127 then (enum1_width, enum1_signed)
    else if maxv <=? 255 then (enum2_width, enum2_signed)
    else if maxv <=? c_maxshort then (enum3_width, enum3_signed)
    else if maxv <=? c_maxushort then (enum4_width, enum4_signed)
    else if maxv <=? c_maxint then (enum5_width, enum5_signed)
    else if maxv <=? 2 * c_maxint + 1 then (enum6_width, enum6_signed)
    else (8, false).

Record layout := { l_offsets : list Z; l_size : Z; l_align : Z; l_ok : bool }.

(* get_type_size_alignment / get_interface_size_alignment / compute_*_field_offsets *)
Fixpoint sa (t : mtype) : Z * Z * bool :=
  match t with
  | TScalar s a => (s, a, true)
  | TUnknown => (-1, -1, false)
  | TArray None _ => (-1, -1, false)
  | TArray (Some n) e => let '(s, a, ok) := sa e in if ok then (n * s, a, true) else (-1, -1, false)
  | TEnum vs => let w := fst (enum_storage vs) in (w, w, true)
  | TStruct ms =>
      let '(_, size, align, err) :=
        (fix go (ms : list member) (size align : Z) (err : bool) : list Z * Z * Z * bool :=
           match ms with
           | [] => ([], size, align, err)
           | MField t :: r =>
               if err then let '(o, s, a, e) := go r size align true in (-1 :: o, s, a, e)
               else let '(ms_, ma, ok) := sa t in
                    if ok then
                      let off := gi_align size ma in
                      let '(o, s, a, e) := go r (off + ms_) (zmax align ma) false in (off :: o, s, a, e)
                    else let '(o, s, a, e) := go r size align true in (-1 :: o, s, a, e)
           | MCallbackNode :: r =>
               go r (gi_align size pointer_align + pointer_size) (zmax align pointer_align) err
           end) ms 0 1 false in
      if err then (-1, -1, false) else (gi_align size align, align, true)
  | TUnion ms =>
      let '(size, align, err) :=
        (fix go (ms : list member) (size align : Z) (err : bool) : Z * Z * bool :=
           match ms with
           | [] => (size, align, err)
           | MField t :: r =>
               if err then go r size align true
               else let '(ms_, ma, ok) := sa t in
                    if ok then go r (zmax size ms_) (zmax align ma) false else go r size align true
           | MCallbackNode :: r => go r size align err
           end) ms 0 1 false in
      if err then (-1, -1, false) else (gi_align size align, align, true)
  end.

(* the same loops as standalone functions (for statements and for the top-level nodes) *)
Fixpoint struct_go (ms : list member) (size align : Z) (err : bool) : list Z * Z * Z * bool :=
  match ms with
  | [] => ([], size, align, err)
  | MField t :: r =>
      if err then let '(o, s, a, e) := struct_go r size align true in (-1 :: o, s, a, e)
      else let '(ms_, ma, ok) := sa t in
           if ok then
             let off := gi_align size ma in
             let '(o, s, a, e) := struct_go r (off + ms_) (zmax align ma) false in (off :: o, s, a, e)
           else let '(o, s, a, e) := struct_go r size align true in (-1 :: o, s, a, e)
  | MCallbackNode :: r =>
      struct_go r (gi_align size pointer_align + pointer_size) (zmax align pointer_align) err
  end.

Fixpoint union_go (ms : list member) (size align : Z) (err : bool) : Z * Z * bool :=
  match ms with
  | [] => (size, align, err)
  | MField t :: r =>
      if err then union_go r size align true
      else let '(ms_, ma, ok) := sa t in
           if ok then union_go r (zmax size ms_) (zmax align ma) false else union_go r size align true
  | MCallbackNode :: r => union_go r size align err
  end.

Definition struct_layout (ms : list member) : layout :=
  let '(o, size, align, err) := struct_go ms 0 1 false in
  if err then {| l_offsets := o; l_size := -1; l_align := -1; l_ok := false |}
  else {| l_offsets := o; l_size := gi_align size align; l_align := align; l_ok := true |}.

(* compute_union_field_offsets never assigns field->offset: the parser's default 0 stays *)
Definition union_layout (ms : list member) : layout :=
  let '(size, align, err) := union_go ms 0 1 false in
  let offs := flat_map (fun m => match m with MField _ => [0] | MCallbackNode => [] end) ms in
  if err then {| l_offsets := offs; l_size := -1; l_align := -1; l_ok := false |}
  else {| l_offsets := offs; l_size := gi_align size align; l_align := align; l_ok := true |}.

(* what girnode.c stores: size in 32 bits, alignment in 6 bits, offsets in 16 bits with
   0xFFFF for negative or unrepresentable ones *)
Definition stored (l : layout) : list Z * Z * Z :=
  (map (fun o => if (o <? 0) || (65535 <=? o) then 65535 else o) l.(l_offsets),
   l.(l_size) mod 4294967296, l.(l_align) mod 64).
