From Coq Require Import List NArith Bool String Ascii.
From GIV.Lib Require Import Regex Str.
From GIV.Gen Require Import TypeNames.
From GIV.Model Require Import C02.
Import ListNotations.
Local Open Scope N_scope.

(* Application of parameter / return-value annotations to one callable:
   giscanner/maintransformer.py _apply_annotations_params / _apply_annotations_return /
   _apply_annotations_param_ret_common / _apply_transfer_annotation / _is_pointer_type /
   _apply_annotations_array / _apply_annotations_element_type / _check_array_element_type /
   _apply_annotations_param_callback / _apply_annotations_param_closure, followed by
   _pass3_callable_callbacks and _pass3_callable_throws, and the emission of girwriter.py
   _write_parameter / _write_return_type / _write_type. *)

(* an annotation: name and options, each option a key with an optional value *)
Definition annot := (str * list (str * option str))%type.
Definition annots := list annot.
Fixpoint ann_get (a : annots) (n : str) : option (list (str * option str)) :=
  match a with [] => None | (k, o) :: t => if str_eqb k n then Some o else ann_get t n end.
Definition has (a : annots) (n : string) : bool := match ann_get a (s n) with Some _ => true | None => false end.
Definition opt1 (a : annots) (n : string) : option str :=      (* the single option, if exactly one *)
  match ann_get a (s n) with Some [(k, _)] => Some k | _ => None end.
Fixpoint opt_val (o : list (str * option str)) (k : str) : option (option str) :=
  match o with [] => None | (a, v) :: t => if str_eqb a k then Some v else opt_val t k end.
Definition has_opt (a : annots) (n k : string) : bool :=
  match ann_get a (s n) with Some o => existsb (fun kv => str_eqb (fst kv) (s k)) o | None => false end.

(* the type of a slot as far as annotations and emission are concerned; element names are
   ginames or fundamentals, [] for an unresolved element type *)
Inductive kind :=
| KdFund (name : str)
| KdNode (giname : str) (c : tclass)
| KdList (name : str) (elem : str)
| KdMap (k v : str)
| KdArray (array_type : option str) (elem : str) (zero : bool) (fixed : option str) (length : option str)
| KdUnknown.

Record slot := {
  sl_is_return : bool; sl_name : str; sl_kind : kind; sl_raw_ctype : str;
  sl_direction : direction; sl_dir_unset : bool (* ast.Parameter.direction is still None, which the writer reads as "in" *);
  sl_caller_allocates : bool; sl_transfer : option transfer;
  sl_nullable : bool; sl_not_nullable : bool; sl_optional : bool; sl_skip : bool;
  sl_scope : option str; sl_closure : option str; sl_destroy : option str;
  sl_attrs : list (str * str) }.

Inductive warning := WTransfer | WNullable | WOptional | WAllowNone | WScope | WDestroy | WClosure | WClosureArg
                   | WElementType | WUnknownType | WPtrArrayElem | WByteArrayElem | WReturn.

(* record update helpers *)
Definition with_kind (sl : slot) (k : kind) : slot :=
  {| sl_is_return := sl.(sl_is_return); sl_name := sl.(sl_name); sl_kind := k; sl_raw_ctype := sl.(sl_raw_ctype);
     sl_direction := sl.(sl_direction); sl_dir_unset := sl.(sl_dir_unset); sl_caller_allocates := sl.(sl_caller_allocates); sl_transfer := sl.(sl_transfer);
     sl_nullable := sl.(sl_nullable); sl_not_nullable := sl.(sl_not_nullable); sl_optional := sl.(sl_optional);
     sl_skip := sl.(sl_skip); sl_scope := sl.(sl_scope); sl_closure := sl.(sl_closure); sl_destroy := sl.(sl_destroy);
     sl_attrs := sl.(sl_attrs) |}.
Definition with_dir_u (sl : slot) (d : direction) (u : bool) (ca : bool) (t : option transfer) : slot :=
  {| sl_is_return := sl.(sl_is_return); sl_name := sl.(sl_name); sl_kind := sl.(sl_kind); sl_raw_ctype := sl.(sl_raw_ctype);
     sl_direction := d; sl_dir_unset := u; sl_caller_allocates := ca; sl_transfer := t;
     sl_nullable := sl.(sl_nullable); sl_not_nullable := sl.(sl_not_nullable); sl_optional := sl.(sl_optional);
     sl_skip := sl.(sl_skip); sl_scope := sl.(sl_scope); sl_closure := sl.(sl_closure); sl_destroy := sl.(sl_destroy);
     sl_attrs := sl.(sl_attrs) |}.
Definition with_dir (sl : slot) (d : direction) (ca : bool) (t : option transfer) : slot := with_dir_u sl d false ca t.
Definition with_transfer (sl : slot) (t : option transfer) : slot := with_dir_u sl sl.(sl_direction) sl.(sl_dir_unset) sl.(sl_caller_allocates) t.
Definition with_null (sl : slot) (nullable not_nullable optional skip : bool) (attrs : list (str * str)) : slot :=
  {| sl_is_return := sl.(sl_is_return); sl_name := sl.(sl_name); sl_kind := sl.(sl_kind); sl_raw_ctype := sl.(sl_raw_ctype);
     sl_direction := sl.(sl_direction); sl_dir_unset := sl.(sl_dir_unset); sl_caller_allocates := sl.(sl_caller_allocates); sl_transfer := sl.(sl_transfer);
     sl_nullable := nullable; sl_not_nullable := not_nullable; sl_optional := optional;
     sl_skip := skip; sl_scope := sl.(sl_scope); sl_closure := sl.(sl_closure); sl_destroy := sl.(sl_destroy);
     sl_attrs := attrs |}.
Definition with_cb (sl : slot) (scope closure destroy : option str) : slot :=
  {| sl_is_return := sl.(sl_is_return); sl_name := sl.(sl_name); sl_kind := sl.(sl_kind); sl_raw_ctype := sl.(sl_raw_ctype);
     sl_direction := sl.(sl_direction); sl_dir_unset := sl.(sl_dir_unset); sl_caller_allocates := sl.(sl_caller_allocates); sl_transfer := sl.(sl_transfer);
     sl_nullable := sl.(sl_nullable); sl_not_nullable := sl.(sl_not_nullable); sl_optional := sl.(sl_optional);
     sl_skip := sl.(sl_skip); sl_scope := scope; sl_closure := closure; sl_destroy := destroy;
     sl_attrs := sl.(sl_attrs) |}.

Definition is_fund (k : kind) (n : string) : bool := match k with KdFund x => str_eqb x (s n) | _ => false end.
Definition kind_giname (k : kind) : option str := match k with KdNode g _ => Some g | _ => None end.
Definition out_dir (d : direction) : bool := match d with DIn => false | _ => true end.
Definition dir_eqb (a b : direction) : bool :=
  match a, b with DIn, DIn | DOut, DOut | DInout, DInout => true | _, _ => false end.

(* ast.Type compares an unresolved type (on the left of ==) by its C type, so a type left
   unresolved by a failed (type) override still "is" gpointer when the declaration says gpointer;
   `x in BASIC_TYPES` has the list element on the left and is false for unresolved types *)
Definition is_any_slot (sl : slot) : bool :=
  is_fund sl.(sl_kind) "gpointer"
  || match sl.(sl_kind) with KdUnknown => str_eqb sl.(sl_raw_ctype) (s "gpointer") | _ => false end.

(* _is_pointer_type *)
Definition is_pointer_type (sl : slot) : bool :=
  if negb sl.(sl_is_return) && out_dir sl.(sl_direction) then true
  else match sl.(sl_kind) with
       | KdFund n => negb (is_in n basic_types) || ends_star sl.(sl_raw_ctype)
       | KdNode _ KAliasBasic => false          (* resolve_aliases lands on the alias's own basic target type *)
       | _ => true
       end.

Definition is_container (k : kind) : bool := match k with KdList _ _ | KdMap _ _ | KdArray _ _ _ _ _ => true | _ => false end.
Definition is_classish (k : kind) : bool := match k with KdNode _ KClass | KdNode _ KInterface => true | _ => false end.
Definition is_compoundish (k : kind) : bool :=
  match k with KdNode _ KRecordPlain | KdNode _ KRecordBoxed | KdNode _ KClass | KdNode _ KInterface => true | _ => false end.

(* _apply_transfer_annotation *)
Definition transfer_valid (sl : slot) (a : annots) (t : str) : bool :=
  if str_eqb t (s "floating") then
    is_classish sl.(sl_kind)
    || match kind_giname sl.(sl_kind) with
       | Some g => str_eqb g (s "GLib.Variant") || str_eqb g (s "GObject.Closure") | None => false end
  else if str_eqb t (s "container") then has a "array" || is_container sl.(sl_kind)
  else is_pointer_type sl || is_fund sl.(sl_kind) "utf8" || is_fund sl.(sl_kind) "filename"
       || is_container sl.(sl_kind) || is_compoundish sl.(sl_kind).

Definition transfer_value (t : str) : option transfer :=
  if str_eqb t (s "floating") || str_eqb t (s "none") then Some TNone
  else if str_eqb t (s "container") then Some TContainer
  else if str_eqb t (s "full") then Some TFull else None.

Definition apply_transfer (sl : slot) (a : annots) : slot * list warning :=
  match opt1 a "transfer" with
  | None => (sl, [])
  | Some t => if transfer_valid sl a t
              then (match transfer_value t with Some v => with_transfer sl (Some v) | None => sl end, [])
              else (sl, [WTransfer])
  end.

(* the element a kind contributes when (array) is put on it without (element-type) *)
Definition kind_elem_name (k : kind) : str :=
  match k with
  | KdFund n => n
  | KdNode g _ => g
  | KdList n _ => n
  | KdMap _ _ => s "GLib.HashTable"
  | KdArray _ e _ _ _ => e
  | KdUnknown => []
  end.

Definition has_dot (n : str) : bool := existsb (N.eqb 46) n.

(* create_type_from_user_string on a simple name: None = does not resolve *)
Definition resolve_name (e : env) (n : str) : option kind :=
  if has_dot n then
    if str_eqb n (s "GLib.List") || str_eqb n (s "GLib.SList") then Some (KdList n (s "gpointer"))
    else if str_eqb n (s "GLib.ByteArray") || str_eqb n (s "GObject.ByteArray")
         then Some (KdArray (Some (s "GLib.ByteArray")) (s "guint8") true None None)
    else if str_eqb n (s "GLib.Array") || str_eqb n (s "GObject.Array")
         then Some (KdArray (Some (s "GLib.Array")) (s "gpointer") true None None)
    else if str_eqb n (s "GLib.PtrArray") || str_eqb n (s "GObject.PtrArray")
         then Some (KdArray (Some (s "GLib.PtrArray")) (s "gpointer") true None None)
    else if str_eqb n (s "GLib.HashTable") || str_eqb n (s "GObject.HashTable") then Some (KdMap (s "gpointer") (s "gpointer"))
    else match find (fun x => str_eqb (fst (snd x)) n) e with
         | Some (_, (g, c)) => Some (KdNode g c)
         | None => None
         end
  else
    match type_of_ctype n false with
    | GFund f => Some (KdFund f)
    | GNamed id => match env_find e id with Some (g, c) => Some (KdNode g c) | None => None end
    | GUtf8Array => Some (KdArray None (s "utf8") true None None)
    | GList nm => Some (KdList nm (s "gpointer"))
    | GArrayK nm el => Some (KdArray (Some nm) el true None None)
    | GMap => Some (KdMap (s "gpointer") (s "gpointer"))
    end.

Definition res_elem (e : env) (n : str) : str * list warning :=
  match resolve_name e n with Some k => (kind_elem_name k, []) | None => ([], [WUnknownType]) end.

(* _check_array_element_type *)
Definition check_array_elem (k : kind) : list warning :=
  match k with
  | KdArray (Some t) e _ _ _ =>
      (if str_eqb t (s "GLib.PtrArray") && is_in e basic_gir_types
          && negb (str_eqb e (s "gintptr") || str_eqb e (s "guintptr")) then [WPtrArrayElem] else [])
      ++ (if str_eqb t (s "GLib.ByteArray")
             && negb (str_eqb e (s "guint8") || str_eqb e (s "gint8") || str_eqb e (s "gchar")) then [WByteArrayElem] else [])
  | _ => []
  end.

(* _adjust_container_type: new slot, warnings, and the length parameter it names *)
Definition adjust_container (e : env) (sl : slot) (a : annots) : slot * list warning * option str :=
  let '(sl1, w, len) :=
    match ann_get a (s "array") with
    | Some aopts =>
        let '(elem, w) :=
          match ann_get a (s "element-type") with
          | Some ((en, _) :: _) => res_elem e en
          | _ => (kind_elem_name sl.(sl_kind), [])
          end in
        let array_type := match sl.(sl_kind) with KdArray t _ _ _ _ => t | _ => None end in
        let zero := match opt_val aopts (s "zero-terminated") with
                    | None => false
                    | Some None => true
                    | Some (Some v) => negb (str_eqb v (s "0"))
                    end in
        let length := match opt_val aopts (s "length") with Some (Some n) => Some n | _ => None end in
        let fixed := match opt_val aopts (s "fixed-size") with Some (Some n) => Some n | _ => None end in
        (with_kind sl (KdArray array_type elem zero fixed length), w, length)
    | None =>
        match ann_get a (s "element-type") with
        | None => (sl, [], None)
        | Some eopts =>
            match sl.(sl_kind), map fst eopts with
            | KdList nm _, [n] => let '(x, w) := res_elem e n in (with_kind sl (KdList nm x), w, None)
            | KdMap _ _, [k; v] => let '(x, w) := res_elem e k in let '(y, w2) := res_elem e v in
                                   (with_kind sl (KdMap x y), w ++ w2, None)
            | KdArray t _ z f l, [n] => let '(x, w) := res_elem e n in (with_kind sl (KdArray t x z f l), w, None)
            | _, _ => (sl, [WElementType], None)
            end
        end
    end in
  (sl1, w ++ check_array_elem sl1.(sl_kind), len).

Fixpoint contains2 (needle hay : str) : bool :=
  match hay with
  | [] => match needle with [] => true | _ => false end
  | _ :: t => startswith needle hay || contains2 needle t
  end.

Definition annotated_direction (sl : slot) (a : annots) : option (direction * bool) :=
  if has a "inout" then Some (DInout, false)
  else match ann_get a (s "out") with
       | Some [] =>
           Some (DOut, match sl.(sl_kind) with
                       | KdNode _ KRecordPlain | KdNode _ KRecordBoxed => negb (contains2 [star; star] sl.(sl_raw_ctype))
                       | _ => false
                       end)
       | Some ((o, _) :: _) => Some (DOut, str_eqb o (s "caller-allocates"))
       | None => if has a "in" then Some (DIn, false) else None
       end.

Definition attr_pairs (a : annots) : list (str * str) :=
  match ann_get a (s "attributes") with
  | Some o => flat_map (fun kv => match snd kv with Some (c :: v) => [(fst kv, c :: v)] | _ => [] end) o
  | None => []
  end.
Fixpoint set_attr (l : list (str * str)) (k v : str) : list (str * str) :=
  match l with [] => [(k, v)] | (a, b) :: t => if str_eqb a k then (a, v) :: t else (a, b) :: set_attr t k v end.

(* _apply_annotations_param_ret_common, first half: (type), direction, transfer, container *)
Definition common_types (e : env) (sl0 : slot) (a : annots) : slot * list warning * option str :=
  let '(sl1, w0) := match opt1 a "type" with
                    | Some n => match resolve_name e n with
                                | Some k => (with_kind sl0 k, [])
                                | None => (sl0, [WUnknownType])      (* reported; the declared type is kept *)
                                end
                    | None => (sl0, [])
                    end in
  let sl2 := match annotated_direction sl1 a with
             | Some (d, ca) =>
                 (* "annotated_direction != node.direction": an explicit (in) differs from a direction that is still None *)
                 if dir_eqb d sl1.(sl_direction) && negb sl1.(sl_dir_unset) then sl1
                 else with_dir sl1 d ca (if sl1.(sl_is_return) then sl1.(sl_transfer) else Some (param_transfer d ca))
             | None => sl1
             end in
  let '(sl3, w1) := apply_transfer sl2 a in
  let '(sl4, w2, len) := adjust_container e sl3 a in
  (sl4, w0 ++ w1 ++ w2, len).

Definition wellknown_nullable (sl : slot) : bool :=
  negb (dir_eqb sl.(sl_direction) DOut)
  && match kind_giname sl.(sl_kind) with
     | Some g => str_eqb g (s "Gio.AsyncReadyCallback") || str_eqb g (s "Gio.Cancellable") | None => false end.

(* second half: nullable / optional / allow-none / not / skip / attributes.  [fx] = the repaired
   treatment of (not ...): the option of the annotation decides which attribute is overridden *)
Definition common_flags (fx : bool) (sl4 : slot) (a : annots) : slot * list warning :=
  let n0 := sl4.(sl_nullable) || is_any_slot sl4 in
  let '(n1, nn1, w3) := if has a "nullable"
                        then (if is_pointer_type sl4 then (true, false, []) else (n0, sl4.(sl_not_nullable), [WNullable]))
                        else (n0, sl4.(sl_not_nullable), []) in
  let '(o1, w4) := if has a "optional"
                   then (if negb sl4.(sl_is_return) && out_dir sl4.(sl_direction) then (true, []) else (sl4.(sl_optional), [WOptional]))
                   else (sl4.(sl_optional), []) in
  let '(n2, o2, w5) :=
    if has a "allow-none" then
      if dir_eqb sl4.(sl_direction) DOut && negb sl4.(sl_is_return) then (n1, true, [])
      else if is_pointer_type sl4 then (true, o1, []) else (n1, o1, [WAllowNone])
    else (n1, o1, []) in
  let n3 := n2 || wellknown_nullable sl4 in
  let '(n4, nn4, o4) :=
    if has a "not" then
      if fx then ((if has_opt a "not" "nullable" then false else n3),
                  (if has_opt a "not" "nullable" then true else nn1),
                  (if has_opt a "not" "optional" then false else o2))
      else (false, true, o2)
    else (n3, nn1, o2) in
  (with_null sl4 n4 nn4 o4 (sl4.(sl_skip) || has a "skip")
             (fold_left (fun l kv => set_attr l (fst kv) (snd kv)) (attr_pairs a) sl4.(sl_attrs)),
   w3 ++ w4 ++ w5).

Definition apply_common (fx : bool) (e : env) (sl0 : slot) (a : annots) : slot * list warning * option str :=
  let '(sl4, w, len) := common_types e sl0 a in
  let '(r, w') := common_flags fx sl4 a in
  (r, w ++ w', len).

Definition is_callback_kind (k : kind) : bool :=
  match k with KdNode _ KCallback | KdNode _ KDestroyNotify | KdNode _ KAsyncReady => true | _ => false end.

(* _apply_annotations_param_callback (parameters of functions): new slot, warnings, and the
   destroy parameter whose scope is set as a side effect.  [anyn]: names of the parameters that
   are untyped pointers at this point *)
Definition apply_callback (anyn : list str) (sl : slot) (a : annots) : slot * list warning * option str :=
  if negb (is_callback_kind sl.(sl_kind)) then
    (sl, (if has a "scope" then [WScope] else []) ++ (if has a "destroy" then [WDestroy] else [])
         ++ (if has a "closure" then [WClosure] else []), None)
  else
    let scope1 := match opt1 a "scope" with Some x => Some x | None => sl.(sl_scope) end in
    let '(destroy, scope2) := match opt1 a "destroy" with
                              | Some n => (Some n, Some (s "notified"))
                              | None => (sl.(sl_destroy), scope1)
                              end in
    let '(closure, wc) := match opt1 a "closure" with
                          | Some n => (Some n, if is_in n anyn then [] else [WClosure])
                          | None => (sl.(sl_closure), [])
                          end in
    (with_cb sl scope2 closure destroy, wc, opt1 a "destroy").

(* _apply_annotations_param_closure (parameters of callback types) *)
Definition apply_closure (sl : slot) (a : annots) : slot * list warning :=
  match ann_get a (s "closure") with
  | None => (sl, [])
  | Some (_ :: _) => (sl, [WClosureArg])
  | Some [] => (with_cb sl sl.(sl_scope) (Some sl.(sl_name)) sl.(sl_destroy),
                if is_any_slot sl then [] else [WClosure])
  end.

(* ---- the callable *)
Record decl := { d_name : str; d_tree : ctree; d_ann : option annots }.   (* None: no tag at all *)

Definition kind_of_gtype (e : env) (g : gtype) : kind :=
  match g with
  | GFund n => KdFund n
  | GUtf8Array => KdArray None (s "utf8") true None None
  | GList nm => KdList nm (s "gpointer")
  | GArrayK nm el => KdArray (Some nm) el true None None
  | GMap => KdMap (s "gpointer") (s "gpointer")
  | GNamed id => match env_find e id with Some (g, c) => KdNode g c | None => KdUnknown end
  end.

(* transformer.py _create_callback marks the untyped `user_data` parameter of a callback type as
   its own closure *)
Definition init_param (e : env) (is_cbtype : bool) (d : decl) : slot :=
  let ct := source_type d.(d_tree) true in
  let k := kind_of_gtype e (type_of_ctype ct false) in
  {| sl_is_return := false; sl_name := d.(d_name); sl_kind := k; sl_raw_ctype := ct;
     sl_direction := DIn; sl_dir_unset := true; sl_caller_allocates := false; sl_transfer := Some (param_transfer DIn false);
     sl_nullable := false; sl_not_nullable := false; sl_optional := false; sl_skip := false;
     sl_scope := None;
     sl_closure := if is_cbtype && is_fund k "gpointer" && str_eqb d.(d_name) (s "user_data") then Some d.(d_name) else None;
     sl_destroy := None; sl_attrs := [] |}.
Definition init_return (e : env) (t : ctree) : slot :=
  let ct := source_type t false in
  let g := type_of_ctype ct true in
  {| sl_is_return := true; sl_name := []; sl_kind := kind_of_gtype e g; sl_raw_ctype := ct;
     sl_direction := DOut; sl_dir_unset := false; sl_caller_allocates := false; sl_transfer := return_transfer e g (base_is_const t);
     sl_nullable := false; sl_not_nullable := false; sl_optional := false; sl_skip := false;
     sl_scope := None; sl_closure := None; sl_destroy := None; sl_attrs := [] |}.

Fixpoint set_nth {A} (i : nat) (x : A) (l : list A) : list A :=
  match l, i with
  | [], _ => []
  | _ :: t, O => x :: t
  | h :: t, S j => h :: set_nth j x t
  end.
(* get_parameter: the first parameter of that name *)
Fixpoint on_named (n : str) (f : slot -> slot) (ps : list slot) : list slot :=
  match ps with
  | [] => []
  | p :: t => if str_eqb p.(sl_name) n then f p :: t else p :: on_named n f t
  end.
Definition any_names (ps : list slot) : list str :=
  map sl_name (filter is_any_slot ps).

Definition ann_of (d : option annots) : annots := match d with Some a => a | None => [] end.

Definition set_scope_notified (p : slot) : slot := with_cb p (Some (s "notified")) p.(sl_closure) p.(sl_destroy).
(* param.direction = node.direction: the array's direction is copied as it is, a still-unset one included *)
Definition follow_direction (d : direction) (u : bool) (p : slot) : slot :=
  with_dir_u p d u p.(sl_caller_allocates) (if dir_eqb d DOut then Some TFull else p.(sl_transfer)).

(* one parameter: [is_cbtype] = the callable is a callback type rather than a function *)
Definition step_param (fx : bool) (e : env) (is_cbtype : bool) (st : list slot * list (nat * warning)) (ia : nat * annots)
  : list slot * list (nat * warning) :=
  let '(ps, ws) := st in
  let '(i, a) := ia in
  match nth_error ps i with
  | None => st
  | Some sl =>
      let '(ps1, w1) :=
        if is_cbtype then let '(sl1, w) := apply_closure sl a in (set_nth i sl1 ps, w)
        else let '(sl1, w, dside) := apply_callback (any_names ps) sl a in
             let ps1 := set_nth i sl1 ps in
             (match dside with Some n => on_named n set_scope_notified ps1 | None => ps1 end, w) in
      match nth_error ps1 i with
      | None => st
      | Some sl1 =>
          let '(sl2, w2, lside) := apply_common fx e sl1 a in
          let ps2 := set_nth i sl2 ps1 in
          let ps3 := match lside with Some n => on_named n (follow_direction sl2.(sl_direction) sl2.(sl_dir_unset)) ps2 | None => ps2 end in
          (ps3, ws ++ map (fun w => (i, w)) (w1 ++ w2))
      end
  end.

(* pass 3 *)
Definition to_param (sl : slot) : param :=
  {| p_name := sl.(sl_name);
     p_type := if is_any_slot sl then GFund (s "gpointer") else GMap;
     p_ctype := []; p_raw_ctype := sl.(sl_raw_ctype);
     p_class := match sl.(sl_kind) with KdNode _ c => Some c | _ => None end;
     p_transfer := sl.(sl_transfer); p_nullable := sl.(sl_nullable);
     p_scope := sl.(sl_scope); p_closure := sl.(sl_closure); p_destroy := sl.(sl_destroy) |}.

Definition wellknown_slot (sl : slot) : slot :=
  match sl.(sl_kind) with
  | KdNode _ KAsyncReady | KdNode _ KDestroyNotify =>
      with_cb (with_transfer sl (Some TNone)) (Some (s "async")) sl.(sl_closure) sl.(sl_destroy)
  | _ => sl
  end.
Definition apply_upd_slot (ps : list slot) (u : upd) : list slot :=
  match u with
  | UClosure i n => match nth_error ps i with
                    | Some p => set_nth i (with_cb p p.(sl_scope) (Some n) p.(sl_destroy)) ps
                    | None => ps
                    end
  | UDestroy i n => match nth_error ps i with
                    | Some p => set_nth i (with_cb (with_transfer p (Some TNone)) (Some (s "notified")) p.(sl_closure) (Some n)) ps
                    | None => ps
                    end
  end.
Definition make_nullable (p : slot) : slot :=
  if p.(sl_not_nullable) then p else with_null p true p.(sl_not_nullable) p.(sl_optional) p.(sl_skip) p.(sl_attrs).
Definition mark_closure_targets (ps : list slot) : list slot :=
  fold_left (fun l n => on_named n make_nullable l)
            (flat_map (fun p => match p.(sl_closure) with Some n => [n] | None => [] end) ps) ps.
Definition pass3 (ps : list slot) : list slot * bool :=
  let ps1 := map wellknown_slot ps in
  let ps2 := fold_left apply_upd_slot (pair_loop (map to_param ps1) 0 None) ps1 in
  let ps3 := mark_closure_targets ps2 in
  match rev ps3 with
  | last :: before => if str_eqb last.(sl_raw_ctype) (s "GError**") then (rev before, true) else (ps3, false)
  | [] => (ps3, false)
  end.

(* the type-resolution pass that follows the annotations: a type left unresolved by a failed
   (type) override still carries the C type of the declaration and is resolved by it *)
Definition restore (e : env) (sl : slot) : slot :=
  match sl.(sl_kind) with
  | KdUnknown => match env_find e (no_stars sl.(sl_raw_ctype)) with
                 | Some (g, c) => with_kind sl (KdNode g c)
                 | None => sl
                 end
  | _ => sl
  end.

Record result := { r_params : list slot; r_ret : slot; r_throws : bool; r_warn : list (nat * warning); r_ret_warn : list warning }.

Definition annotate_params (fx : bool) (e : env) (is_cbtype : bool) (ds : list decl) : list slot * list (nat * warning) :=
  fold_left (step_param fx e is_cbtype)
            (combine (seq 0 (List.length ds)) (map (fun d => ann_of d.(d_ann)) ds))
            (map (init_param e is_cbtype) ds, []).

Definition run_callable (fx : bool) (e : env) (is_cbtype : bool) (ds : list decl) (rt : ctree) (ra : option annots) : result :=
  let '(ps1, ws) := annotate_params fx e is_cbtype ds in
  let r0 := init_return e rt in
  let '(ra1, wr0) := match ra with
                     | Some a => if is_fund r0.(sl_kind) "none" then ([], [WReturn]) else (a, [])
                     | None => ([], [])
                     end in
  let '(r1, wr, lside) := apply_common fx e r0 ra1 in
  let ps2 := match lside with Some n => on_named n (follow_direction DOut false) ps1 | None => ps1 end in
  let '(ps3, throws) := pass3 (map (restore e) ps2) in
  {| r_params := ps3; r_ret := restore e r1; r_throws := throws; r_warn := ws; r_ret_warn := wr0 ++ wr |}.
