(* C04 — each public C symbol is described once, under the right name and owner.
   Model: Model/C04.v; tied to /repo by harness/c04.py (generated namespaces through the real
   Transformer, GDumpParser, MainTransformer (pairing), IntrospectablePass and GIRWriter; the place,
   element kind, name and moved-to of every C identifier are compared inside Coq). *)
From Coq Require Import List Arith NArith Bool String Ascii.
From GIV.Lib Require Import Regex Str.
From GIV.Model Require Import C02 C02Spec C16 C04 C04Spec.
From GIV.Proofs Require Import C04.
Import ListNotations.
Local Open Scope N_scope.

(* splitting a symbol by type: the type found is the longest prefix (in whole underscore-separated
   words) that names a type, and prefix + "_" + rest gives the symbol back *)
Theorem C04_longest_type_prefix : forall types uscored t suffix,
  split_by_type types uscored = Some (t, suffix) ->
  let comps := split_us uscored [] in
  exists j, (0 < j <= List.length comps)%nat
            /\ uscore_lookup types (join_us (firstn j comps)) None = Some t
            /\ suffix = join_us (skipn j comps)
            /\ (forall j', (j < j' <= List.length comps)%nat -> uscore_lookup types (join_us (firstn j' comps)) None = None)
            /\ ((j < List.length comps)%nat -> uscored = join_us (firstn j comps) ++ us :: suffix)
            /\ (j = List.length comps -> uscored = join_us (firstn j comps) /\ suffix = []).
Proof. exact split_by_type_spec. Qed.
Print Assumptions C04_longest_type_prefix.

Theorem C04_split_join_roundtrip : forall x, join_us (split_us x []) = x.
Proof. exact join_split. Qed.
Print Assumptions C04_split_join_roundtrip.

Theorem C04_underscore_names :
  (forall name, Forall (fun c => is_upper c = false) (uscore_noprefix name))
  /\ uscore_noprefix (s "TextBuffer") = s "text_buffer" /\ uscore_noprefix (s "GIOThing") = s "gio_thing"
  /\ uscore_noprefix (s "X2Y") = s "x2_y" /\ uscore_noprefix (s "DBusFoo") = s "dbus_foo".
Proof. split; [exact uscore_no_upper|]. destruct uscore_examples as [A [B [C [_ D]]]]. repeat split; assumption. Qed.
Print Assumptions C04_underscore_names.

Theorem C04_method_conditions : forall types f o n,
  fn_ann_method f = false ->
  pair_function types f = PMethod o n ->
  exists depth target, fn_first f = Some (o, depth) /\ (depth <= 1)%nat /\ find_type types o = Some target
                       /\ can_have_methods target = true
                       /\ startswith (uscored_prefix target (fn_sub f) ++ [us]) (fn_sub f) = true
                       /\ n = skipn (S (List.length (uscored_prefix target (fn_sub f)))) (fn_sub f).
Proof. exact method_conditions. Qed.
Print Assumptions C04_method_conditions.

(* repaired tree (fix f29afa9): before, any class return type was accepted *)
Theorem C04_constructor_conditions : forall types f o n,
  pair_function types f = PConstructor o n ->
  exists origin rn target,
    split_by_type types (fn_sub f) = Some (origin, n) /\ t_name origin = o /\ can_construct origin = true
    /\ fn_ret f = Some rn /\ find_type types rn = Some target /\ can_construct target = true
    /\ (t_name origin = t_name target \/ (t_kind target = TClass /\ In (t_name target) (t_parents origin))).
Proof. exact constructor_conditions. Qed.
Print Assumptions C04_constructor_conditions.

Theorem C04_described_once : forall intro f p,
  List.length (filter (fun o => match snd o with None => true | Some _ => false end) (occurrences intro f p)) = 1%nat
  /\ (List.length (occurrences intro f p) <= 2)%nat.
Proof. exact described_once. Qed.
Print Assumptions C04_described_once.

Theorem C04_get_type_not_paired : forall types f, is_type_meta f = true -> pair_function types f = PTop (fn_sub f).
Proof. exact get_type_not_paired. Qed.
Print Assumptions C04_get_type_not_paired.
