(* C17 — requiring a namespace loads the right typelib version and its dependencies.
   Model: Model/C17.v (girepository/girepository.c: parse_version, compare_version,
   find_namespace_version, enumerate_namespace_versions, find_namespace_latest,
   require_internal, register_internal, load_dependencies_recurse). *)
From Coq Require Import List NArith ZArith Bool.
From GIV.Lib Require Import Regex Str.
From GIV.Model Require Import C17.
From GIV.Proofs Require Import C17.
Import ListNotations.
Local Open Scope Z_scope.

(* explicit version: the file <ns>-<ver>.typelib of the first search-path directory that has
   it, refused when its header names another namespace or version; not-found otherwise *)
Theorem C17_first_directory : forall fsys name path,
  match find_version fsys path name with
  | Some (d, c) => exists pre post dd, path = pre ++ d :: post /\ (forall x, In x pre -> ~ has_file fsys x name) /\
                                      lookup_dir fsys d = Some dd /\ lookup_file dd name = Some c
  | None => forall x, In x path -> ~ has_file fsys x name
  end.
Proof. exact find_version_spec. Qed.
Print Assumptions C17_first_directory.

Theorem C17_exact : forall fsys gpath f st path ns v,
  get_registered st ns = None ->
  require fsys gpath (S f) st path ns (Some v) =
  match find_version fsys path (fname ns v) with
  | None => (st, RErr 0)
  | Some (_, None) => (st, RErr 0)
  | Some (d, Some tf) =>
      if negb (str_eqb tf.(f_ns) ns) then (st, RErr 1)
      else if negb (str_eqb tf.(f_version) v) then (st, RErr 1)
      else register fsys gpath f st tf (slash_join d (fname ns v))
  end.
Proof. exact require_exact_spec. Qed.
Print Assumptions C17_exact.

(* no version: the elected candidate is one of the candidates and none has a higher numeric
   (major, minor) version, nor an equal one from an earlier directory *)
Theorem C17_latest : forall l c, elect l = Some c ->
  In c l /\ forall x, In x l -> ~ better (ckey x) (ckey c).
Proof. exact elect_spec. Qed.
Print Assumptions C17_latest.

Theorem C17_version_order : forall a b, compare_version a b = - compare_version b a.
Proof. exact compare_version_antisym. Qed.
Print Assumptions C17_version_order.

Theorem C17_prepend_precedence : forall fsys base pre st d,
  fst (step fsys base (pre, st) (OPrepend d)) = (d :: pre, st).
Proof. exact prepend_precedence. Qed.
Print Assumptions C17_prepend_precedence.

(* re-requiring *)
Theorem C17_already_loaded : forall fsys gpath st path ns ver l,
  get_registered st ns = Some l ->
  require fsys gpath fuel0 st path ns ver =
  match ver with
  | None => (st, ROk l.(l_file).(f_version))
  | Some v => if str_eqb v l.(l_file).(f_version) then (st, ROk v) else (st, RErr 2)
  end.
Proof. exact require_again. Qed.
Print Assumptions C17_already_loaded.

(* for every history of prepend / require / private-require calls over an acyclic set of
   files: every loaded namespace comes from a file naming it, and every dependency that file
   records is loaded at the recorded version *)
Theorem C17_invariant : forall fsys base rank, fs_ranked fsys rank ->
  forall ops w, Inv (snd w) -> Forall op_plain ops -> Inv (snd (fst (run fsys base w ops))).
Proof. exact run_inv. Qed.
Print Assumptions C17_invariant.

Theorem C17_require_result : forall fsys gpath rank, fs_ranked fsys rank ->
  forall st path ns ver st' v, Inv st ->
    require fsys gpath fuel0 st path ns ver = (st', ROk v) ->
    (exists added, st' = st ++ added) /\
    (exists l, get_registered st' ns = Some l /\ l.(l_file).(f_version) = v) /\
    (forall v0, ver = Some v0 -> v = v0).
Proof. exact require_result. Qed.
Print Assumptions C17_require_result.

(* 1.10 is later than 1.9; a two-directory election *)
Example C17_numeric_order :
  compare_version (pv [49;46;49;48]%N) (pv [49;46;57]%N) = 1.
Proof. vm_compute. reflexivity. Qed.
Example C17_nonvacuous :
  let tf v := {| f_ns := [78]%N; f_version := v; f_deps := [] |} in
  let fsys := [([97]%N, [([78;45;49;46;57;46;116;121;112;101;108;105;98]%N, Some (tf [49;46;57]%N))]);
               ([98]%N, [([78;45;49;46;49;48;46;116;121;112;101;108;105;98]%N, Some (tf [49;46;49;48]%N))])] in
  snd (require fsys [[97]%N; [98]%N] fuel0 [] [[97]%N; [98]%N] [78]%N None) = ROk [49;46;49;48]%N.
Proof. vm_compute. reflexivity. Qed.
