(* C02 — undocumented APIs get the documented default ownership, types and roles.
   Model: Model/C02.v; the table of C spellings is regenerated from giscanner/ast.py. *)
From Coq Require Import List NArith Bool String Ascii.
From GIV.Lib Require Import Regex Str.
From GIV.Gen Require Import TypeNames.
From GIV.Model Require Import C02.
From GIV.Proofs Require Import C02.
Import ListNotations.
Local Open Scope N_scope.

(* every documented spelling maps to the documented fundamental (finite list, current table) *)
Theorem C02_type_table : forallb (fun p => maps_to (fst p) (snd p)) documented = true.
Proof. exact type_table. Qed.
Print Assumptions C02_type_table.

Theorem C02_returned_strv :
  type_of_ctype (s "char**") true = GUtf8Array /\ type_of_ctype (s "gchar**") true = GUtf8Array /\
  type_of_ctype (s "GStrv") false = GUtf8Array /\ type_of_ctype (s "char**") false = GFund (s "utf8").
Proof. exact returned_strv. Qed.
Print Assumptions C02_returned_strv.

(* the original C spelling is what is emitted as c:type, for every declarator tree *)
Theorem C02_ctype_preserved : forall e nm t,
  p_ctype (mk_param e nm t) = complete_type t true /\ p_raw_ctype (mk_param e nm t) = source_type t true.
Proof. exact ctype_kept. Qed.
Print Assumptions C02_ctype_preserved.

Theorem C02_transfer_defaults :
  (forall ca, param_transfer DIn ca = TNone) /\
  param_transfer DOut false = TFull /\ param_transfer DInout false = TFull /\
  param_transfer DOut true = TNone /\ param_transfer DInout true = TNone.
Proof. exact transfer_defaults. Qed.
Print Assumptions C02_transfer_defaults.

Theorem C02_return_defaults : forall e,
  (forall n, is_in n basic_gir_types = true -> forall c, return_transfer e (GFund n) c = Some TNone \/ n = s "none") /\
  (forall g, return_basic g true = Some TNone) /\
  return_transfer e (GFund (s "gpointer")) false = Some TNone /\
  return_transfer e (GFund (s "none")) false = Some TNone /\
  return_transfer e (GFund (s "utf8")) false = Some TFull /\
  return_transfer e (GFund (s "utf8")) true = Some TNone.
Proof. exact return_defaults. Qed.
Print Assumptions C02_return_defaults.

Theorem C02_untyped_pointer_nullable : forall e nm t,
  type_of_ctype (source_type t true) false = GFund (s "gpointer") -> p_nullable (mk_param e nm t) = true.
Proof. exact untyped_pointer_nullable. Qed.
Print Assumptions C02_untyped_pointer_nullable.

(* for every parameter list: a destroy-notify is attached to the callback in force at its
   position, a user-data pointer (untyped, name ending in "data", not itself a callback) becomes
   that callback's closure, and the callback always precedes them *)
Theorem C02_callback_triple : forall ps i cur u, In u (pair_loop ps i cur) ->
  match u with
  | UDestroy c n =>
      exists k p, nth_error ps k = Some p /\ p.(p_class) = Some KDestroyNotify /\ p.(p_name) = n /\
                  in_force ps i cur k = Some c
  | UClosure c n =>
      exists k p, nth_error ps k = Some p /\ is_any p = true /\ ends_with_data n = true /\ p.(p_name) = n /\
                  is_cb p = false /\ in_force ps i cur k = Some c
  end.
Proof. exact pair_loop_spec. Qed.
Print Assumptions C02_callback_triple.

Theorem C02_callback_precedes : forall ps i cur k c, (forall c0, cur = Some c0 -> (c0 < i)%nat) ->
  in_force ps i cur k = Some c -> (c < i + k)%nat.
Proof. exact in_force_before. Qed.
Print Assumptions C02_callback_precedes.

(* a trailing GError** is removed and the callable throws; nothing else is touched *)
Theorem C02_throws : forall ps,
  let '(ps', th) := pass3_throws ps in
  (th = false /\ ps' = ps) \/
  (th = true /\ exists last, ps = ps' ++ [last] /\ last.(p_raw_ctype) = s "GError**").
Proof. exact throws_spec. Qed.
Print Assumptions C02_throws.

Example C02_nonvacuous :
  let e := [(s "FooCb", (s "Foo.Cb", KCallback)); (s "GDestroyNotify", (s "GLib.DestroyNotify", KDestroyNotify))] in
  let '(ps, th) := callable e [(s "cb", CTypedef (s "FooCb") false); (s "user_data", CTypedef (s "gpointer") false);
                               (s "notify", CTypedef (s "GDestroyNotify") false);
                               (s "error", CPointer (CPointer (CTypedef (s "GError") false) false) false)] in
  th = true /\ List.length ps = 3%nat /\
  map (fun p => (p_scope p, p_closure p, p_destroy p)) (firstn 1 ps) = [(Some (s "notified"), Some (s "user_data"), Some (s "notify"))].
Proof. vm_compute. repeat split. Qed.
