(* C05 — everything left introspectable is bindable and every reference resolves.
   Model: Model/C05.v (the introspectable pass as a computation over the reference graph of a
   namespace); tied to /repo by harness/c05.py (generated reference graphs through the real passes,
   flags compared inside Coq; and a linter that judges the clauses of the property on the GIRs of
   every generator of this development). *)
From Coq Require Import List Arith Bool.
From GIV.Model Require Import C05.
From GIV.Proofs Require Import C05.
Import ListNotations.

(* after the (repaired, fix 8edfc58) pass, for EVERY reference graph - any number of aliases,
   callback types and functions, references forwards and backwards, chains of any length - an
   alias or callable that is still shown introspectable refers only to fundamental types and to
   definitions that are themselves shown introspectable *)
Theorem C05_closed : forall w, closed w (pass w).
Proof. exact pass_closed. Qed.
Print Assumptions C05_closed.

(* the pass ends in a state that no further walk changes, and only ever clears flags *)
Theorem C05_fixpoint : forall w, round w (pass w) = pass w.
Proof. exact pass_is_fixpoint. Qed.
Print Assumptions C05_fixpoint.

Theorem C05_only_clears : forall w which fl j, nth j (walk w which fl) false = true -> nth j fl false = true.
Proof. exact walk_decreasing. Qed.
Print Assumptions C05_only_clears.

(* the pass as found (one alias walk, two callable walks) is not closed: two witnesses *)
Theorem C05_found_not_closed :
  ~ closed alias_chain (pass_found alias_chain) /\ ~ closed callback_chain (pass_found callback_chain).
Proof. split; [exact found_not_closed_alias | exact found_not_closed_callbacks]. Qed.
Print Assumptions C05_found_not_closed.
