(* C01 — parameter and return annotations are reflected exactly in the GIR.
   Model: Model/C01.v (annotation application per callable, pass 3, emission in Model/C01Spec.v);
   tied to /repo by harness/c01.py (the real comment parser, transformer passes and writer on
   generated callables, compared attribute by attribute and warning by warning inside Coq). *)
From Coq Require Import List NArith Bool String Ascii.
From GIV.Lib Require Import Regex Str.
From GIV.Gen Require Import TypeNames.
From GIV.Model Require Import C02 C02Spec C01 C01Spec.
From GIV.Proofs Require Import C01.
Import ListNotations.
Local Open Scope N_scope.

(* ownership transfer: a valid annotation is stored with the documented value (floating meaning
   none) and reports nothing; an invalid one is reported and changes nothing; validity is the
   documented rule *)
Theorem C01_transfer : forall sl a t,
  opt1 a "transfer" = Some t ->
  (transfer_valid sl a t = true -> forall v, transfer_value t = Some v ->
     sl_transfer (fst (apply_transfer sl a)) = Some v /\ snd (apply_transfer sl a) = [])
  /\ (transfer_valid sl a t = false -> apply_transfer sl a = (sl, [WTransfer]))
  /\ transfer_value (s "floating") = Some TNone
  /\ transfer_valid sl a t =
     (if str_eqb t (s "floating") then
        is_classish (sl_kind sl)
        || match kind_giname (sl_kind sl) with
           | Some g => str_eqb g (s "GLib.Variant") || str_eqb g (s "GObject.Closure") | None => false end
      else if str_eqb t (s "container") then has a "array" || is_container (sl_kind sl)
      else is_pointer_type sl || is_fund (sl_kind sl) "utf8" || is_fund (sl_kind sl) "filename"
           || is_container (sl_kind sl) || is_compoundish (sl_kind sl)).
Proof.
  intros sl a t H. split; [|split; [|split]].
  - intros Hv v Ht. exact (transfer_reflected sl a t v H Hv Ht).
  - intros Hv. exact (transfer_invalid_inert sl a t H Hv).
  - exact floating_is_none.
  - exact (transfer_valid_spec sl a t).
Qed.
Print Assumptions C01_transfer.

(* direction and caller-allocation *)
Theorem C01_direction : forall sl a d ca,
  annotated_direction sl a = Some (d, ca) ->
  sl_direction (after_direction sl a) = d
  /\ (sl_direction sl <> d -> sl_caller_allocates (after_direction sl a) = ca
                              /\ (sl_is_return sl = false -> sl_transfer (after_direction sl a) = Some (param_transfer d ca))).
Proof. exact direction_reflected. Qed.
Print Assumptions C01_direction.

(* nullable / optional / allow-none: valid => set and silent; invalid => reported, and every
   flag of the value is what it would have been had the annotation not been written *)
Theorem C01_nullable : forall fx sl a,
  has a "nullable" = true ->
  (is_pointer_type sl = true -> has a "not" = false ->
     sl_nullable (fst (common_flags fx sl a)) = true /\ sl_not_nullable (fst (common_flags fx sl a)) = false
     /\ ~ In WNullable (snd (common_flags fx sl a)))
  /\ (is_pointer_type sl = false ->
      In WNullable (snd (common_flags fx sl a))
      /\ fst (common_flags fx sl a) = fst (common_flags fx sl (drop "nullable" a))).
Proof.
  intros fx sl a H. split.
  - intros Hp Hn. exact (nullable_reflected fx sl a H Hp Hn).
  - intros Hp. split; [exact (nullable_invalid_warned fx sl a H Hp) | exact (nullable_invalid_inert fx sl a H Hp)].
Qed.
Print Assumptions C01_nullable.

Theorem C01_optional : forall fx sl a,
  has a "optional" = true ->
  (sl_is_return sl = false -> out_dir (sl_direction sl) = true -> has a "not" = false ->
     sl_optional (fst (common_flags fx sl a)) = true /\ ~ In WOptional (snd (common_flags fx sl a)))
  /\ (negb (sl_is_return sl) && out_dir (sl_direction sl) = false ->
      In WOptional (snd (common_flags fx sl a))
      /\ fst (common_flags fx sl a) = fst (common_flags fx sl (drop "optional" a))).
Proof.
  intros fx sl a H. split.
  - intros H1 H2 H3. exact (optional_reflected fx sl a H H1 H2 H3).
  - intros H1. exact (optional_invalid fx sl a H H1).
Qed.
Print Assumptions C01_optional.

Theorem C01_allow_none_invalid : forall fx sl a,
  has a "allow-none" = true -> dir_eqb (sl_direction sl) DOut && negb (sl_is_return sl) = false -> is_pointer_type sl = false ->
  In WAllowNone (snd (common_flags fx sl a))
  /\ fst (common_flags fx sl a) = fst (common_flags fx sl (drop "allow-none" a)).
Proof. exact allow_none_invalid. Qed.
Print Assumptions C01_allow_none_invalid.

(* (not nullable) / (not optional) override, each its own attribute (repaired tree) *)
Theorem C01_not_overrides : forall sl a,
  (has_opt a "not" "nullable" = true ->
     sl_nullable (fst (common_flags true sl a)) = false /\ sl_not_nullable (fst (common_flags true sl a)) = true)
  /\ (has_opt a "not" "optional" = true -> sl_optional (fst (common_flags true sl a)) = false)
  /\ (has_opt a "not" "nullable" = false ->
      sl_nullable (fst (common_flags true sl a)) = sl_nullable (fst (common_flags true sl (drop "not" a)))
      /\ sl_not_nullable (fst (common_flags true sl a)) = sl_not_nullable (fst (common_flags true sl (drop "not" a)))).
Proof.
  intros sl a. split; [|split].
  - exact (not_nullable_overrides sl a).
  - exact (not_optional_overrides sl a).
  - exact (not_optional_keeps_nullable sl a).
Qed.
Print Assumptions C01_not_overrides.

(* ... which was false before the repair (fix: da7007c): witness *)
Theorem C01_not_optional_refuted_before_fix :
  exists sl a, has_opt a "not" "optional" = true /\ has_opt a "not" "nullable" = false
               /\ sl_optional (fst (common_flags false sl a)) = true
               /\ has a "nullable" = true /\ is_pointer_type sl = true /\ sl_nullable (fst (common_flags false sl a)) = false.
Proof. exact not_optional_refuted_before_fix. Qed.
Print Assumptions C01_not_optional_refuted_before_fix.

Theorem C01_skip_and_attributes : forall fx sl a,
  (has a "skip" = true -> sl_skip (fst (common_flags fx sl a)) = true)
  /\ (forall pre k v post, attr_pairs a = pre ++ (k, v) :: post -> Forall (fun kv => str_eqb k (fst kv) = false) post ->
        In (k, v) (sl_attrs (fst (common_flags fx sl a)))).
Proof.
  intros fx sl a. split; [exact (skip_reflected fx sl a)|].
  intros pre k v post. exact (attributes_reflected fx sl a pre k v post).
Qed.
Print Assumptions C01_skip_and_attributes.

(* arrays: the options of (array) are stored as written and emitted as documented *)
Theorem C01_array : forall e sl a aopts,
  ann_get a (s "array") = Some aopts ->
  exists t el,
    sl_kind (fst (fst (adjust_container e sl a)))
    = KdArray t el
        (match opt_val aopts (s "zero-terminated") with None => false | Some None => true | Some (Some v) => negb (str_eqb v (s "0")) end)
        (match opt_val aopts (s "fixed-size") with Some (Some n) => Some n | _ => None end)
        (match opt_val aopts (s "length") with Some (Some n) => Some n | _ => None end)
    /\ snd (adjust_container e sl a) = match opt_val aopts (s "length") with Some (Some n) => Some n | _ => None end.
Proof. exact array_reflected. Qed.
Print Assumptions C01_array.

Theorem C01_array_emission : forall ps sl t el z f l,
  sl_kind sl = KdArray t el z f l ->
  b_array (emit ps sl) = true /\ b_fixed (emit ps sl) = f
  /\ b_length (emit ps sl) = match l with Some n => slot_index ps n | None => None end
  /\ b_zero (emit ps sl) = (if negb z then Some false else match f, l with None, None => None | _, _ => Some true end).
Proof. exact emit_array. Qed.
Print Assumptions C01_array_emission.

(* the parameter named by length= follows the direction of the array (and is transfer full when
   that is out), for every state of the callable in which the array's annotations are applied *)
Theorem C01_length_follows : forall fx e cb ps ws i a ps' ws' aopts n arr lp,
  step_param fx e cb (ps, ws) (i, a) = (ps', ws') ->
  nth_error ps i = Some arr ->
  ann_get a (s "array") = Some aopts -> opt_val aopts (s "length") = Some (Some n) ->
  first_named n ps' = Some lp ->
  exists arr', nth_error ps' i = Some arr' /\ sl_direction lp = sl_direction arr'
               /\ (sl_direction arr' = DOut -> sl_transfer lp = Some TFull).
Proof. exact step_array_length_follows. Qed.
Print Assumptions C01_length_follows.

(* emitted closure / destroy / length indices are in range and name the annotated parameter *)
Theorem C01_indices_in_range : forall ps sl,
  (forall i, b_closure (emit ps sl) = Some i ->
             (i < List.length ps)%nat /\ exists p n, sl_closure sl = Some n /\ nth_error ps i = Some p /\ sl_name p = n)
  /\ (forall i, b_destroy (emit ps sl) = Some i ->
                (i < List.length ps)%nat /\ exists p n, sl_destroy sl = Some n /\ nth_error ps i = Some p /\ sl_name p = n)
  /\ (forall i, b_length (emit ps sl) = Some i ->
                (i < List.length ps)%nat /\ exists p, nth_error ps i = Some p
                  /\ exists t el z f, sl_kind sl = KdArray t el z f (Some (sl_name p))).
Proof. exact indices_in_range. Qed.
Print Assumptions C01_indices_in_range.

(* scope / closure / destroy: on a non-callback they are reported and inert; on a callback they
   are recorded as written (destroy implying scope notified) *)
Theorem C01_callback_annotations : forall anyn sl a,
  (is_callback_kind (sl_kind sl) = false ->
     fst (fst (apply_callback anyn sl a)) = sl /\ snd (apply_callback anyn sl a) = None
     /\ (has a "scope" = true -> In WScope (snd (fst (apply_callback anyn sl a))))
     /\ (has a "destroy" = true -> In WDestroy (snd (fst (apply_callback anyn sl a))))
     /\ (has a "closure" = true -> In WClosure (snd (fst (apply_callback anyn sl a)))))
  /\ (is_callback_kind (sl_kind sl) = true ->
      let r := fst (fst (apply_callback anyn sl a)) in
      (forall x, opt1 a "scope" = Some x -> opt1 a "destroy" = None -> sl_scope r = Some x)
      /\ (forall n, opt1 a "destroy" = Some n -> sl_destroy r = Some n /\ sl_scope r = Some (s "notified")
                                                /\ snd (apply_callback anyn sl a) = Some n)
      /\ (forall n, opt1 a "closure" = Some n -> sl_closure r = Some n
                                                /\ (is_in n anyn = true -> ~ In WClosure (snd (fst (apply_callback anyn sl a))))
                                                /\ (is_in n anyn = false -> In WClosure (snd (fst (apply_callback anyn sl a)))))).
Proof.
  intros anyn sl a. split.
  - exact (callback_annotations_invalid_inert anyn sl a).
  - exact (callback_annotations_reflected anyn sl a).
Qed.
Print Assumptions C01_callback_annotations.

(* The full statement "a valid scope/closure annotation reaches the GIR" is FALSE of the faithful
   model of the whole callable, and "an invalid closure annotation is inert" is false too: the
   witnesses below are the recorded findings C01-K1, C01-K2, C01-K4 (known-findings.json). *)
Theorem C01_explicit_closure_overridden_refuted :
  exists ds, let r := run_callable true env_cb false ds CVoid None in
             exists cb, nth_error (r_params r) 0 = Some cb
                        /\ opt1 (ann_of (d_ann (nth 0 ds (decl_of "" CVoid None)))) "closure" = Some (s "ctx")
                        /\ r_warn r = []
                        /\ b_closure (emit (r_params r) cb) = Some 2%nat
                        /\ slot_index (r_params r) (s "ctx") = Some 1%nat.
Proof. exact explicit_closure_overridden_refuted. Qed.
Print Assumptions C01_explicit_closure_overridden_refuted.

Theorem C01_explicit_scope_overridden_refuted :
  exists ds, let r := run_callable true env_cb false ds CVoid None in
             exists cb, nth_error (r_params r) 0 = Some cb
                        /\ opt1 (ann_of (d_ann (nth 0 ds (decl_of "" CVoid None)))) "scope" = Some (s "call")
                        /\ r_warn r = []
                        /\ b_scope (emit (r_params r) cb) = Some (s "notified").
Proof. exact explicit_scope_overridden_refuted. Qed.
Print Assumptions C01_explicit_scope_overridden_refuted.

Theorem C01_invalid_closure_kept_refuted :
  exists sl a, In WClosure (snd (apply_closure sl a)) /\ sl_closure (fst (apply_closure sl a)) <> sl_closure sl.
Proof. exact invalid_closure_kept_refuted. Qed.
Print Assumptions C01_invalid_closure_kept_refuted.
