(* C07 — GIR files survive a read/write cycle unchanged.
   Models: Gen/GirAttrs.v (attribute vocabularies regenerated from giscanner/girwriter.py and
   giscanner/girparser.py) and Model/C07.v (the encodings with defaults and the pairing of array
   length indices of structure members).  Tied to /repo by harness/c07.py: scanner-written GIRs of
   five generators and the shipped tests/scanner/*-expected.gir files are read and written three
   times in a row and must stay byte-identical. *)
From Coq Require Import List Arith NArith Bool String Ascii.
From GIV.Lib Require Import Regex Str.
From GIV.Gen Require Import GirAttrs.
From GIV.Model Require Import C02 C07.
From GIV.Proofs Require Import C07.
Import ListNotations.
Local Open Scope N_scope.

(* nothing the writer can write is ignored by the reader: every attribute name of the writer is
   read, or is derived from data that is read, or is XML syntax (finite, regenerated lists) *)
Theorem C07_attribute_contract : forall a, In a writer_attrs -> In a reader_attrs \/ In a derived_or_syntax.
Proof. exact attr_contract_in. Qed.
Print Assumptions C07_attribute_contract.

(* the encodings with defaults decode to what was encoded *)
Theorem C07_encodings : forall b d n o zt sz ln,
  read_flag_default_true (write_flag_default_true b) = b /\ read_flag_default_false (write_flag_default_false b) = b
  /\ read_null d (write_null d n o) = (n, o)
  /\ read_zero (write_zero zt sz ln) = zt
  /\ (forall ca, (d = DirIn -> ca = false) -> read_dir (write_dir d ca) = (d, ca)).
Proof.
  intros b d n o zt sz ln. destruct (flags_roundtrip b) as [A B]. repeat split; try assumption.
  - apply null_roundtrip.
  - apply zero_roundtrip.
  - intros ca H. apply dir_roundtrip. exact H.
Qed.
Print Assumptions C07_encodings.

(* array length indices of structure members come back on the member they were written for
   (repaired pairing); the pairing as found is refuted *)
Theorem C07_member_lengths : forall ms, read_lengths ms = map written_length ms.
Proof. exact lengths_roundtrip. Qed.
Print Assumptions C07_member_lengths.

Theorem C07_member_lengths_refuted_before_fix : exists ms, read_lengths_found ms <> map written_length ms.
Proof. exact lengths_found_refuted. Qed.
Print Assumptions C07_member_lengths_refuted_before_fix.

(* ---- the type sub-language (Model/C07T.v: GIRWriter._write_type, GIRParser._parse_type_simple/_parse_type/_parse_type_array_length,
   Namespace.type_from_name, GIRWriter._type_to_name).  For EVERY type the abstract syntax tree can hold - C arrays and GLib array
   kinds with any fixed size, length index and zero-termination, lists, hash tables, fundamental types, names of this and of other
   namespaces, unresolved C types, nested to any depth - what the reader makes of the written element is written as the same
   element again; and it is the same type unless a name of the own namespace is spelled like a fundamental type.
   Hypotheses: namespace names without '.', GI names of the form Namespace.Name, array kinds and list names the ones the syntax
   tree allows, no <varargs/> as element of a list or hash table, and no named type called GLib.List, GLib.SList or
   GLib.HashTable (those are containers to the reader). *)
From GIV.Model Require Import C07T.
From GIV.Proofs Require Import C07T.

Theorem C07_type_cycle : forall ns t, ~ In 46%N ns -> wf_ty ns t ->
  exists t', read_ty ns (write_ty ns t) = Some t' /\ write_ty ns t' = write_ty ns t.
Proof. exact type_cycle. Qed.
Print Assumptions C07_type_cycle.

Theorem C07_type_read_back : forall ns t, ~ In 46%N ns -> wf_ty ns t -> no_clash ns t ->
  read_ty ns (write_ty ns t) = Some t.
Proof. exact read_back. Qed.
Print Assumptions C07_type_read_back.

(* '%d' % n read by int() is n, for every n: fixed sizes and length indices of any magnitude *)
Theorem C07_numbers : forall n, undec (dec n) = Some n.
Proof. exact undec_dec. Qed.
Print Assumptions C07_numbers.

Example C07_type_nonvacuous :
  let ns := [70;111;111]%N in      (* Foo *)
  let t := AMap (Some [71;72;97;115;104;84;97;98;108;101;42]%N)
                (AFund [117;116;102;56]%N None)
                (AArray None (Some [70;111;111;66;97;114;42;42]%N) true (Some 12%N) (Some 2%N)
                        (AList s_gslist None (ANamed [70;111;111;46;66;97;114]%N (Some [70;111;111;66;97;114;42]%N)))) in
  ~ In 46%N ns /\ wf_ty ns t /\ no_clash ns t /\ read_ty ns (write_ty ns t) = Some t.
Proof.
  cbv zeta. split; [simpl; intuition discriminate|]. split.
  - cbn [wf_ty]. repeat split; try discriminate; try reflexivity; try (right; reflexivity).
    exists [70;111;111]%N, [66;97;114]%N. repeat split; simpl; intuition discriminate.
  - split; [cbn; repeat split; reflexivity|vm_compute; reflexivity].
Qed.

(* the clash the second theorem excludes: a type of namespace Foo that is called utf8 is written as name="utf8" and comes back
   as the fundamental type - another type, the same XML *)
Example C07_type_clash :
  let ns := [70;111;111]%N in
  let t := ANamed [70;111;111;46;117;116;102;56]%N None in
  read_ty ns (write_ty ns t) = Some (AFund [117;116;102;56]%N None) /\
  write_ty ns (AFund [117;116;102;56]%N None) = write_ty ns t.
Proof. vm_compute. split; reflexivity. Qed.
