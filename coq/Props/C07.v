(* C07 — GIR files survive a read/write cycle unchanged.
   Models: Gen/GirAttrs.v (attribute vocabularies regenerated from giscanner/girwriter.py and
   giscanner/girparser.py) and Model/C07.v (the encodings with defaults and the pairing of array
   length indices of structure members).  Tied to /repo by harness/c07.py: scanner-written GIRs of
   five generators and the shipped tests/scanner/*-expected.gir files are read and written three
   times in a row and must stay byte-identical. *)
From Coq Require Import List Arith NArith Bool String Ascii.
From GIV.Lib Require Import Regex Str.
From GIV.Gen Require Import GirAttrs.
From GIV.Model Require Import C02 C07.
From GIV.Proofs Require Import C07.
Import ListNotations.
Local Open Scope N_scope.

(* nothing the writer can write is ignored by the reader: every attribute name of the writer is
   read, or is derived from data that is read, or is XML syntax (finite, regenerated lists) *)
Theorem C07_attribute_contract : forall a, In a writer_attrs -> In a reader_attrs \/ In a derived_or_syntax.
Proof. exact attr_contract_in. Qed.
Print Assumptions C07_attribute_contract.

(* the encodings with defaults decode to what was encoded *)
Theorem C07_encodings : forall b d n o zt sz ln,
  read_flag_default_true (write_flag_default_true b) = b /\ read_flag_default_false (write_flag_default_false b) = b
  /\ read_null d (write_null d n o) = (n, o)
  /\ read_zero (write_zero zt sz ln) = zt
  /\ (forall ca, (d = DirIn -> ca = false) -> read_dir (write_dir d ca) = (d, ca)).
Proof.
  intros b d n o zt sz ln. destruct (flags_roundtrip b) as [A B]. repeat split; try assumption.
  - apply null_roundtrip.
  - apply zero_roundtrip.
  - intros ca H. apply dir_roundtrip. exact H.
Qed.
Print Assumptions C07_encodings.

(* array length indices of structure members come back on the member they were written for
   (repaired pairing); the pairing as found is refuted *)
Theorem C07_member_lengths : forall ms, read_lengths ms = map written_length ms.
Proof. exact lengths_roundtrip. Qed.
Print Assumptions C07_member_lengths.

Theorem C07_member_lengths_refuted_before_fix : exists ms, read_lengths_found ms <> map written_length ms.
Proof. exact lengths_found_refuted. Qed.
Print Assumptions C07_member_lengths_refuted_before_fix.
