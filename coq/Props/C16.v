(* C16 — scanner output is deterministic and independent of irrelevant order.
   Model: Model/C16.v (the places where unordered input becomes ordered output); tied to /repo by
   harness/c16.py: the real scanner pipeline in fresh processes under different hash seeds,
   comment-block orders, typedef/struct orders and cache states must give identical bytes, and the
   sibling order of the real output is checked against the model order inside Coq. *)
From Coq Require Import List NArith Bool Permutation Sorting.Sorted.
From GIV.Lib Require Import Regex Str.
From GIV.Model Require Import C16.
From GIV.Proofs Require Import C16.
Import ListNotations.
Local Open Scope N_scope.

(* whatever the order in which the members of a namespace (or of a class) were collected, the
   written sequence is the same: for every permutation of members with distinct (kind, name) *)
Theorem C16_members_perm_invariant : forall l l',
  Permutation l l' -> NoDup (map node_key l) -> write_members l = write_members l'.
Proof. exact members_perm_invariant. Qed.
Print Assumptions C16_members_perm_invariant.

(* the order of sibling elements is a fixed function of names and kinds: sorted by (alias first,
   name by code point), and nothing is lost or duplicated *)
Theorem C16_sibling_order : forall l,
  StronglySorted (fun a b => node_leb a b = true) (isort node_leb l) /\ Permutation (isort node_leb l) l.
Proof. exact members_sorted. Qed.
Print Assumptions C16_sibling_order.

Theorem C16_aliases_first : forall a b, n_alias a = true -> n_alias b = false -> node_leb a b = true.
Proof. exact alias_first. Qed.
Print Assumptions C16_aliases_first.

(* the source position of a node does not depend on the iteration order of its position set
   (repaired tree, fix 3ae31bf) and is a definition rather than a typedef whenever there is one *)
Theorem C16_main_position_perm : forall l l',
  Permutation l l' -> NoDup (map pos_id l) -> main_position l = main_position l'.
Proof. exact main_position_perm. Qed.
Print Assumptions C16_main_position_perm.

Theorem C16_main_position_prefers_definition : forall l p,
  main_position l = Some p -> (exists q, In q l /\ p_typedef q = false) -> p_typedef p = false.
Proof. exact main_position_prefers_definition. Qed.
Print Assumptions C16_main_position_prefers_definition.

(* the code as found: two iteration orders of the same set give different positions *)
Theorem C16_main_position_refuted_before_fix :
  Permutation [pA; pB] [pB; pA] /\ main_position_found [pA; pB] <> main_position_found [pB; pA].
Proof. exact main_position_found_refuted. Qed.
Print Assumptions C16_main_position_refuted_before_fix.

(* comment blocks with distinct identifiers: their order (and the order of the files they came
   from) does not matter *)
Theorem C16_blocks_perm_invariant : forall (B : Type) (blocks blocks' : list (str * B)) name,
  Permutation blocks blocks' -> NoDup (map fst blocks) ->
  blocks_lookup blocks name None = blocks_lookup blocks' name None.
Proof. intros B. exact (@blocks_perm_invariant B). Qed.
Print Assumptions C16_blocks_perm_invariant.

(* forward-declared and later-defined structures give the same record in either order *)
Theorem C16_typedef_struct_order : forall name fields p1 p2,
  match trun [TTypedef name p1; TStruct fields p2], trun [TStruct fields p2; TTypedef name p1] with
  | (Some a, []), (Some b, []) => same_record a b /\ r_name a = Some name /\ r_fields a = fields
  | _, _ => False
  end.
Proof. exact typedef_struct_order. Qed.
Print Assumptions C16_typedef_struct_order.

Theorem C16_forward_declaration_order : forall name fields p0 p1 p2,
  match trun [TStruct [] p0; TTypedef name p1; TStruct fields p2], trun [TTypedef name p1; TStruct fields p2; TStruct [] p0] with
  | (Some a, []), (Some b, []) => same_record a b
  | _, _ => False
  end.
Proof. exact forward_declaration_order. Qed.
Print Assumptions C16_forward_declaration_order.

Theorem C16_second_typedef_order : forall a b f0 fields p1 p2 p3,
  let f := f0 :: fields in
  Forall2 same_record (tfinal (trun [TTypedef a p1; TTypedef b p2; TStruct f p3])) (tfinal (trun [TTypedef a p1; TStruct f p3; TTypedef b p2]))
  /\ Forall2 same_record (tfinal (trun [TTypedef a p1; TTypedef b p2; TStruct f p3])) (tfinal (trun [TStruct f p3; TTypedef a p1; TTypedef b p2]))
  /\ map r_fields (tfinal (trun [TTypedef a p1; TTypedef b p2; TStruct f p3])) = [f; f].
Proof. exact second_typedef_order. Qed.
Print Assumptions C16_second_typedef_order.
