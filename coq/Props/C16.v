(* C16 — scanner output is deterministic and independent of irrelevant order.
   Model: Model/C16.v (the places where unordered input becomes ordered output); tied to /repo by
   harness/c16.py: the real scanner pipeline in fresh processes under different hash seeds,
   comment-block orders, typedef/struct orders and cache states must give identical bytes, and the
   sibling order of the real output is checked against the model order inside Coq. *)
From Coq Require Import List NArith ZArith Bool Permutation Sorting.Sorted.
From GIV.Lib Require Import Regex Str.
From GIV.Model Require Import C16 C16G.
From GIV.Proofs Require Import C16 C16G.
Import ListNotations.
Local Open Scope N_scope.

(* whatever the order in which the members of a namespace (or of a class) were collected, the
   written sequence is the same: for every permutation of members with distinct (kind, name) *)
Theorem C16_members_perm_invariant : forall l l',
  Permutation l l' -> NoDup (map node_key l) -> write_members l = write_members l'.
Proof. exact members_perm_invariant. Qed.
Print Assumptions C16_members_perm_invariant.

(* the order of sibling elements is a fixed function of names and kinds: sorted by (alias first,
   name by code point), and nothing is lost or duplicated *)
Theorem C16_sibling_order : forall l,
  StronglySorted (fun a b => node_leb a b = true) (isort node_leb l) /\ Permutation (isort node_leb l) l.
Proof. exact members_sorted. Qed.
Print Assumptions C16_sibling_order.

Theorem C16_aliases_first : forall a b, n_alias a = true -> n_alias b = false -> node_leb a b = true.
Proof. exact alias_first. Qed.
Print Assumptions C16_aliases_first.

(* the source position of a node does not depend on the iteration order of its position set
   (repaired tree, fix 3ae31bf) and is a definition rather than a typedef whenever there is one *)
Theorem C16_main_position_perm : forall l l',
  Permutation l l' -> NoDup (map pos_id l) -> main_position l = main_position l'.
Proof. exact main_position_perm. Qed.
Print Assumptions C16_main_position_perm.

Theorem C16_main_position_prefers_definition : forall l p,
  main_position l = Some p -> (exists q, In q l /\ p_typedef q = false) -> p_typedef p = false.
Proof. exact main_position_prefers_definition. Qed.
Print Assumptions C16_main_position_prefers_definition.

(* the code as found: two iteration orders of the same set give different positions *)
Theorem C16_main_position_refuted_before_fix :
  Permutation [pA; pB] [pB; pA] /\ main_position_found [pA; pB] <> main_position_found [pB; pA].
Proof. exact main_position_found_refuted. Qed.
Print Assumptions C16_main_position_refuted_before_fix.

(* comment blocks with distinct identifiers: their order (and the order of the files they came
   from) does not matter *)
Theorem C16_blocks_perm_invariant : forall (B : Type) (blocks blocks' : list (str * B)) name,
  Permutation blocks blocks' -> NoDup (map fst blocks) ->
  blocks_lookup blocks name None = blocks_lookup blocks' name None.
Proof. intros B. exact (@blocks_perm_invariant B). Qed.
Print Assumptions C16_blocks_perm_invariant.

(* forward-declared and later-defined structures give the same record in either order *)
Theorem C16_typedef_struct_order : forall name fields p1 p2,
  match trun [TTypedef name p1; TStruct fields p2], trun [TStruct fields p2; TTypedef name p1] with
  | (Some a, []), (Some b, []) => same_record a b /\ r_name a = Some name /\ r_fields a = fields
  | _, _ => False
  end.
Proof. exact typedef_struct_order. Qed.
Print Assumptions C16_typedef_struct_order.

Theorem C16_forward_declaration_order : forall name fields p0 p1 p2,
  match trun [TStruct [] p0; TTypedef name p1; TStruct fields p2], trun [TTypedef name p1; TStruct fields p2; TStruct [] p0] with
  | (Some a, []), (Some b, []) => same_record a b
  | _, _ => False
  end.
Proof. exact forward_declaration_order. Qed.
Print Assumptions C16_forward_declaration_order.

Theorem C16_second_typedef_order : forall a b f0 fields p1 p2 p3,
  let f := f0 :: fields in
  Forall2 same_record (tfinal (trun [TTypedef a p1; TTypedef b p2; TStruct f p3])) (tfinal (trun [TTypedef a p1; TStruct f p3; TTypedef b p2]))
  /\ Forall2 same_record (tfinal (trun [TTypedef a p1; TTypedef b p2; TStruct f p3])) (tfinal (trun [TStruct f p3; TTypedef a p1; TTypedef b p2]))
  /\ map r_fields (tfinal (trun [TTypedef a p1; TTypedef b p2; TStruct f p3])) = [f; f].
Proof. exact second_typedef_order. Qed.
Print Assumptions C16_second_typedef_order.

(* which method becomes the getter of a property (maintransformer.py _pair_property_accessors: get_<name> 50, is_<name> 25,
   <name> 10, an annotated getter 99) does not depend on the order in which the methods were declared, hence not on the order of
   the source files: it is the candidate of the highest priority among the methods of the class *)
Theorem C16_getter_order_independent : forall cands setter l l',
  cands_ok cands -> Permutation l l' -> elect cands setter l None = elect cands setter l' None.
Proof. exact elect_order_independent. Qed.
Print Assumptions C16_getter_order_independent.

Theorem C16_getter_is_best : forall cands setter methods,
  cands_ok cands -> best cands setter methods (elect cands setter methods None).
Proof. exact elect_best. Qed.
Print Assumptions C16_getter_is_best.

(* the table the code builds meets the hypothesis: priorities are not negative and no two names share one *)
Theorem C16_getter_candidates_ok : forall annotated readable writable is_bool name,
  cands_ok (getter_candidates annotated readable writable is_bool name).
Proof. exact getter_candidates_ok. Qed.
Print Assumptions C16_getter_candidates_ok.

(* reading the priority of the current getter once before the loop (instead of for every candidate) makes the result depend on
   the order: the last candidate wins *)
Theorem C16_getter_read_once_refuted :
  elect_once w_cands None [s_get_ ++ w_name; s_is_ ++ w_name] None <> elect_once w_cands None [s_is_ ++ w_name; s_get_ ++ w_name] None.
Proof. exact elect_once_order_dependent. Qed.
Print Assumptions C16_getter_read_once_refuted.

Example C16_getter_nonvacuous :
  elect w_cands None [s_is_ ++ w_name; s_get_ ++ w_name; w_name] None = Some (s_get_ ++ w_name)
  /\ elect w_cands None [s_get_ ++ w_name; s_is_ ++ w_name] None = Some (s_get_ ++ w_name)
  /\ elect (getter_candidates None true false true w_name) None [w_name; s_is_ ++ w_name] None = Some (s_is_ ++ w_name).
Proof. exact elect_nonvacuous. Qed.
