(* C03 — identifier-level annotations and tags land on the right GIR element.
   Model: Model/C03.v; tied to /repo by harness/c03.py (generated worlds with comment blocks through
   the real comment parser, MainTransformer, IntrospectablePass and GIRWriter, compared element by
   element inside Coq). *)
From Coq Require Import List NArith Bool String Ascii.
From GIV.Lib Require Import Regex Str.
From GIV.Model Require Import C02 C16 C03.
From GIV.Proofs Require Import C03.
Import ListNotations.
Local Open Scope N_scope.

(* a comment block documents only the element whose key it carries: a block with another key,
   wherever it stands, changes nothing about this element *)
Theorem C03_other_block_is_inert : forall blocks1 blocks2 key0 b0 k sk owner name,
  str_eqb key0 (block_key k owner name) = false ->
  element_meta (blocks1 ++ (key0, b0) :: blocks2) k sk owner name = element_meta (blocks1 ++ blocks2) k sk owner name.
Proof. exact other_block_is_inert. Qed.
Print Assumptions C03_other_block_is_inert.

(* ... its own block is the one used, and without one it carries no identifier-level data *)
Theorem C03_own_block : forall blocks k sk owner name,
  (forall key b, NoDup (map fst blocks) -> In (key, b) blocks -> key = block_key k owner name ->
     element_meta blocks k sk owner name = meta_of sk (Some b))
  /\ (~ In (block_key k owner name) (map fst blocks) -> element_meta blocks k sk owner name = no_meta).
Proof.
  intros blocks k sk owner name. split.
  - intros key b N Hin E. exact (own_block_is_used blocks key b k sk owner name N Hin E).
  - exact (no_block_no_data blocks k sk owner name).
Qed.
Print Assumptions C03_own_block.

(* Class:prop, Class::sig and Struct.field keys determine owner and member, and a property key is
   never a signal key *)
Theorem C03_keys_injective : forall k owner name owner' name',
  member_kind k = true ->
  (forall c, In c (sep k) -> ~ In c owner /\ ~ In c owner' /\ ~ In c name /\ ~ In c name') ->
  block_key k owner name = block_key k owner' name' -> owner = owner' /\ name = name'.
Proof. exact member_key_injective. Qed.
Print Assumptions C03_keys_injective.

Theorem C03_property_never_signal : forall owner name owner' name',
  ~ In 58 owner -> ~ In 58 owner' -> ~ In 58 name ->
  block_key EProperty owner name <> block_key ESignal owner' name'.
Proof. exact property_signal_keys_differ. Qed.
Print Assumptions C03_property_never_signal.

(* Since / Deprecated / Stability / skip / description become version, deprecation, stability,
   introspectable and doc of the documented element *)
Theorem C03_tags : forall sk b,
  let m := meta_of sk (Some b) in
  m_version m = tag_value (b_since b) /\ m_version_doc m = tag_desc (b_since b)
  /\ m_deprecated m = tag_value (b_deprecated b) /\ m_deprecated_doc m = tag_desc (b_deprecated b)
  /\ m_stability m = tag_value (b_stability b) /\ m_stability_doc m = tag_desc (b_stability b)
  /\ m_skip m = b_skip b /\ m_doc m = nonempty (b_desc b).
Proof. exact meta_of_tags. Qed.
Print Assumptions C03_tags.

(* the function annotations (finish/sync/async-func, set/get-property, ref/unref/..., copy/free,
   setter/getter/default-value, emitter, value) appear as the corresponding GIR attribute naming the
   given target, on the kinds of element they belong to and on no other *)
Theorem C03_target_annotations : forall sk b,
  (forall ann gir c v, In (ann, gir) (extra_map sk) -> ann_first (b_anns b) ann = Some (c :: v) ->
     In (s gir, c :: v) (m_extra (meta_of sk (Some b))))
  /\ (forall a v, In (a, v) (m_extra (meta_of sk (Some b))) ->
        exists ann gir, In (ann, gir) (extra_map sk) /\ a = s gir /\ ann_first (b_anns b) ann = Some v /\ v <> []).
Proof.
  intros sk b. split.
  - intros ann gir c v. exact (extra_complete sk b ann gir c v).
  - intros a v. exact (extra_sound sk b a v).
Qed.
Print Assumptions C03_target_annotations.

(* rename-to: after any sequence of rename-to requests on functions that start unpaired, every
   shadows has its shadowed-by and vice versa, in the data and in what the GIR shows (repaired
   tree, fix faa1326) *)
Theorem C03_rename_to_pairs : forall fs reqs,
  NoDup (map f_name fs) -> Forall (fun f => f_shadows f = None /\ f_shadowed_by f = None) fs ->
  let fs' := rename_all true fs reqs in
  paired fs'
  /\ forall a f, get fs' a = Some f ->
       (forall g, fst (shown f) = Some g -> exists p, get fs' g = Some p /\ snd (shown p) = Some a)
       /\ (forall g, snd (shown f) = Some g -> exists p, get fs' g = Some p /\ fst (shown p) = Some a).
Proof.
  intros fs reqs N F. destruct (rename_all_paired reqs fs N (fresh_paired fs F)) as [_ P].
  split; [exact P|]. intros a f G. exact (shown_pairs _ a f P G).
Qed.
Print Assumptions C03_rename_to_pairs.

Theorem C03_rename_to_refuted_before_fix :
  let fs := rename_all false [fresh "a"; fresh "b"; fresh "c"] [(s "c", s "foo_a"); (s "a", s "foo_b")] in
  exists fb fa, get fs (s "b") = Some fb /\ get fs (s "a") = Some fa
                /\ snd (shown fb) = Some (s "a") /\ fst (shown fa) = None.
Proof. exact rename_refuted_before_fix. Qed.
Print Assumptions C03_rename_to_refuted_before_fix.

(* a virtual method with a block of its own (Class::slot, keyed by the class structure) is documented by it; without one it
   carries exactly what its invoker's block says - version, deprecation, stability, documentation, attributes - and
   without invoker nothing at all *)
Theorem C03_virtual_method_blocks : forall blocks st v,
  (forall inv b, blocks_lookup blocks (block_key EVFunc st v) None = Some b -> vfunc_meta blocks st v inv = meta_of SFunction (Some b))
  /\ (forall sym, blocks_lookup blocks (block_key EVFunc st v) None = None ->
        vfunc_meta blocks st v (Some sym) = element_meta blocks EFunction SFunction [] sym)
  /\ (blocks_lookup blocks (block_key EVFunc st v) None = None -> vfunc_meta blocks st v None = no_meta).
Proof.
  intros blocks st v. split; [intros inv b; apply vfunc_own_block|]. split; [intros sym; apply vfunc_inherits|apply vfunc_bare].
Qed.
Print Assumptions C03_virtual_method_blocks.
