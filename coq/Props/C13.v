(* C13 — enumeration members and constants keep correct names, types and values.
   Model: Model/C13.v (transformer._enum_common_prefix/_create_enum/_create_const);
   the constant-wrap table is regenerated from the source (Gen/ConstWrap.v). *)
From Coq Require Import List NArith ZArith Bool.
From GIV.Lib Require Import Regex Str.
From GIV.Gen Require Import ConstWrap.
From GIV.Model Require Import C13 C13Spec.
From GIV.Proofs Require Import C13.
Import ListNotations.
Local Open Scope N_scope.

(* For members none of which is a word-prefix of another (words non-empty), the prefix
   cut from every member is exactly the shared whole words followed by '_'; with no
   shared word there is no such prefix. *)
Theorem C13_prefix_whole_words : forall first rest,
  rest <> [] -> Forall (member_ok (words first)) rest ->
  enum_common_prefix (first :: rest) =
  match lcp_all (map words (first :: rest)) with [] => None | l => Some (render_prefix l) end.
Proof. exact enum_prefix_spec. Qed.
Print Assumptions C13_prefix_whole_words.

(* ... so that each emitted name is the lower-cased rest of the member's words *)
Theorem C13_names_shared : forall prefixes unpref ms first rest L,
  map m_ident ms = first :: rest -> rest <> [] -> Forall (member_ok (words first)) rest ->
  lcp_all (map words (first :: rest)) = L -> L <> [] ->
  create_enum prefixes unpref ms =
  Some (map (fun m => (lower (skipn (length (render_prefix L)) (m_ident m)), m_value m, m_ident m))
            (filter (fun m => negb (m_private m)) ms)).
Proof. exact create_enum_shared. Qed.
Print Assumptions C13_names_shared.

Theorem C13_rest_of_words : forall L ident rest,
  L <> [] -> rest <> [] -> words ident = L ++ rest ->
  skipn (length (render_prefix L)) ident = join [95] rest.
Proof. exact member_after_prefix. Qed.
Print Assumptions C13_rest_of_words.

(* with no shared word, the namespace prefix is stripped instead *)
Theorem C13_names_unshared : forall prefixes unpref ms first rest,
  map m_ident ms = first :: rest -> rest <> [] -> Forall (member_ok (words first)) rest ->
  lcp_all (map words (first :: rest)) = [] ->
  create_enum prefixes unpref ms =
  opt_all (map (fun m => match strip_symbol prefixes unpref (m_ident m) with
                         | Some n => Some (lower n, m_value m, m_ident m) | None => None end)
               (filter (fun m => negb (m_private m)) ms)).
Proof. exact create_enum_unshared. Qed.
Print Assumptions C13_names_unshared.

(* all public members, in declaration order, exact values and identifiers — for every input *)
Theorem C13_order_and_values : forall prefixes unpref ms out,
  create_enum prefixes unpref ms = Some out ->
  map (fun t => (snd (fst t), snd t)) out =
  map (fun m => (m_value m, m_ident m)) (filter (fun m => negb (m_private m)) ms).
Proof. exact create_enum_order_values. Qed.
Print Assumptions C13_order_and_values.

(* constants of the fixed-width unsigned types lie in range and are congruent to the
   declared value; the table of moduli is the one in the current source *)
Theorem C13_const_in_range : forall fund k v,
  unsigned_width fund = Some k -> (0 <= const_value fund v < 2 ^ k)%Z.
Proof. exact const_in_range. Qed.
Print Assumptions C13_const_in_range.

Theorem C13_const_congruent : forall fund k v,
  unsigned_width fund = Some k -> ((const_value fund v - v) mod 2 ^ k = 0)%Z.
Proof. exact const_congruent. Qed.
Print Assumptions C13_const_congruent.

Theorem C13_const_as_written : forall fund v,
  wrap_lookup fund const_wrap_table = None -> const_value fund v = v.
Proof. exact const_other_types. Qed.
Print Assumptions C13_const_as_written.

(* non-vacuity: FOO_KIND_ALPHA / FOO_KIND_BETA_X satisfy the hypotheses and give alpha / beta_x *)
Example C13_nonvacuous :
  let a := [70;79;79;95;75;73;78;68;95;65;76;80;72;65] in
  let b := [70;79;79;95;75;73;78;68;95;66;69;84;65;95;88] in
  enum_hyp [a; b] = true /\
  create_enum [[102;111;111]] false
    [{| m_ident := a; m_value := 0; m_private := false |}; {| m_ident := b; m_value := (-1); m_private := false |}]
  = Some [([97;108;112;104;97], 0%Z, a); ([98;101;116;97;95;120], (-1)%Z, b)].
Proof. vm_compute. split; reflexivity. Qed.
