(* C14 — every typelib entry can be found by name, GType name and error domain.
   Model: Model/C14.v (gitypelib.c lookups, gthash.c search/builder, girmodule.c section size;
   ALIGN_VALUE and the width of required_size regenerated from source). *)
From Coq Require Import List NArith ZArith Bool.
From GIV.Lib Require Import Regex Str.
From GIV.Gen Require Import HashSizes.
From GIV.Model Require Import C14 C14R.
From GIV.Proofs Require Import C14 C14R.
Import ListNotations.
Local Open Scope N_scope.

(* whatever the hash function and the table contain, an entry returned through the index has
   exactly the probed name: an absent name is never answered with some other entry *)
Theorem C14_lookup_sound : forall h table dir name i e,
  lookup_hashed h table dir name = Some (i, e) ->
  e.(d_name) = name /\ exists k, i = S k /\ nth_error dir k = Some e.
Proof. exact lookup_hashed_sound. Qed.
Print Assumptions C14_lookup_sound.

Theorem C14_linear_sound : forall dir name i e,
  lookup_linear dir name 1 = Some (i, e) -> e.(d_name) = name /\ exists k, i = S k /\ nth_error dir k = Some e.
Proof. exact lookup_linear_sound. Qed.
Print Assumptions C14_linear_sound.

Theorem C14_absent : forall h table dir name,
  (forall e, In e dir -> e.(d_name) <> name) ->
  lookup_hashed h table dir name = None /\ lookup_linear dir name 1 = None.
Proof. intros; split; [apply lookup_hashed_absent|apply lookup_linear_absent]; assumption. Qed.
Print Assumptions C14_absent.

(* if the packed hash is injective on the names and stays below n (what CMPH promises and the
   check tests on every key set), every entry is found through the table the builder writes,
   and for distinct names both paths agree on every probe *)
Theorem C14_complete : forall h dir k e,
  perfect h (map d_name dir) -> nth_error dir k = Some e ->
  lookup_hashed h (build_table h (map d_name dir)) dir e.(d_name) = Some (S k, e).
Proof. exact lookup_hashed_complete. Qed.
Print Assumptions C14_complete.

Theorem C14_paths_agree : forall h dir name,
  perfect h (map d_name dir) -> NoDup (map d_name dir) ->
  lookup_hashed h (build_table h (map d_name dir)) dir name = lookup_linear dir name 1.
Proof. exact lookup_paths_agree. Qed.
Print Assumptions C14_paths_agree.

Theorem C14_gtype : forall dir g,
  match lookup_gtype dir g with
  | Some e => In e dir /\ e.(d_registered) = true /\ e.(d_gtype_name) = Some g
  | None => forall e, In e dir -> e.(d_registered) = true -> e.(d_gtype_name) <> Some g
  end.
Proof. exact lookup_gtype_spec. Qed.
Print Assumptions C14_gtype.

Theorem C14_error_domain : forall dir d,
  match lookup_domain dir d with
  | Some e => In e dir /\ e.(d_is_enum) = true /\ e.(d_error_domain) = Some d
  | None => forall e, In e dir -> e.(d_is_enum) = true -> e.(d_error_domain) <> Some d
  end.
Proof. exact lookup_domain_spec. Qed.
Print Assumptions C14_error_domain.

Theorem C14_find_by_gtype : forall libs g,
  match find_by_gtype libs g with
  | Some e => exists l, In l libs /\ In e l.(t_dir) /\ e.(d_registered) = true /\ e.(d_gtype_name) = Some g
  | None => forall l, In l libs -> ~ has_gtype l g
  end.
Proof. exact find_by_gtype_spec. Qed.
Print Assumptions C14_find_by_gtype.

(* the repository remembers what find-by-gtype found and what it did not find; typelibs are registered (eagerly or lazily)
   in between.  Whatever the history of registrations and lookups, every answer is right for the typelibs registered at that
   moment: a remembered miss never outlives the registration of the typelib that has the type *)
Theorem C14_find_by_gtype_history : forall ops, answers_ok r_empty ops.
Proof. exact repo_find_by_gtype_history. Qed.
Print Assumptions C14_find_by_gtype_history.

Theorem C14_miss_then_load : forall g (lazy : bool) l e,
  lookup_gtype l.(t_dir) g = Some e ->
  snd (rrun r_empty [RFind g; RLoad lazy l; RFind g]) = [Some None; None; Some (Some e)].
Proof. exact miss_then_load. Qed.
Print Assumptions C14_miss_then_load.

(* a repository that keeps its remembered misses across a lazy registration answers wrongly *)
Theorem C14_stale_miss_refuted :
  snd (rrun_gen false r_empty [RFind [68;84]; RLoad true w_lib; RFind [68;84]]) = [Some None; None; Some None]
  /\ has_gtype w_lib [68;84].
Proof. exact stale_unknown_refuted. Qed.
Print Assumptions C14_stale_miss_refuted.

(* the section the compiler reserves is large enough for the packed index, for every entry
   count: the width of `required_size` is read from the current source *)
Theorem C14_pack_arith : forall c n, (0 <= c -> 0 <= n -> align_value (packed_size c n) 4 < 2 ^ 32 ->
  dirmap_offset c mod 4 = 0 /\ 4 + c <= dirmap_offset c /\
  packed_size c n = dirmap_offset c + 2 * n /\
  packed_size c n <= required_size c n /\ required_size c n mod 4 = 0)%Z.
Proof. exact pack_arith. Qed.
Print Assumptions C14_pack_arith.

Example C14_nonvacuous :
  let dir := [ {| d_name := [97]; d_registered := false; d_gtype_name := None; d_is_enum := false; d_error_domain := None |};
               {| d_name := [98]; d_registered := true; d_gtype_name := Some [84;98;98]; d_is_enum := false; d_error_domain := None |} ] in
  let h := fun s => match s with [97] => 1 | _ => 0 end in
  perfect h (map d_name dir) /\ option_map fst (lookup_hashed h (build_table h (map d_name dir)) dir [98]) = Some 2%nat.
Proof. split; [split; [repeat constructor; simpl; intuition discriminate|intros s [<-|[<-|[]]]; simpl; auto]|reflexivity]. Qed.
