(* C09 — the repository API reports what the typelib contains (offset arithmetic part).
   The accessor expressions are regenerated from girepository/gi*info.c on every run
   (Gen/Accessors.v); the builder's layout (Model/C09.v) follows girnode.c. For ALL counts of
   interfaces, fields, embedded callbacks, properties, methods, signals, vfuncs, constants and
   values, and every index n, each accessor computes exactly the position where the builder
   put that member. *)
From Coq Require Import List ZArith Bool.
From GIV.Gen Require Import Accessors.
From GIV.Model Require Import C09.
From GIV.Proofs Require Import C09.
Import ListNotations.
Local Open Scope Z_scope.

Theorem C09_object_sections : forall e embedded, wf e embedded ->
  (forall k, w_obj_field e embedded k = a_obj_field e embedded k) /\
  (forall n, acc_g_object_info_get_property e n = w_obj_props e embedded + n * property_blob_size e) /\
  (forall n, acc_g_object_info_get_method e n = w_obj_methods e embedded + n * function_blob_size e) /\
  acc_g_object_info_find_method e 0 = w_obj_methods e embedded /\
  (forall n, acc_object_get_signal_offset e n = w_obj_signals e embedded + n * signal_blob_size e) /\
  (forall n, acc_g_object_info_get_vfunc e n = w_obj_vfuncs e embedded + n * vfunc_blob_size e) /\
  acc_g_object_info_find_vfunc e 0 = w_obj_vfuncs e embedded /\
  (forall n, acc_g_object_info_get_constant e n = w_obj_consts e embedded + n * constant_blob_size e).
Proof.
  intros e emb H. repeat split; intros.
  - apply obj_field; exact H. - apply obj_property; exact H. - apply obj_method; exact H.
  - apply obj_find_method; exact H. - apply obj_signal; exact H. - apply obj_vfunc; exact H.
  - apply obj_find_vfunc; exact H. - apply obj_constant; exact H.
Qed.
Print Assumptions C09_object_sections.

Theorem C09_interface_sections : forall e embedded, wf e embedded ->
  (forall n, acc_g_interface_info_get_property e n = w_if_props e + n * property_blob_size e) /\
  (forall n, acc_g_interface_info_get_method e n = w_if_methods e + n * function_blob_size e) /\
  acc_g_interface_info_find_method e 0 = w_if_methods e /\
  (forall n, acc_g_interface_info_get_signal e n = w_if_signals e + n * signal_blob_size e) /\
  (forall n, acc_g_interface_info_get_vfunc e n = w_if_vfuncs e + n * vfunc_blob_size e) /\
  acc_g_interface_info_find_vfunc e 0 = w_if_vfuncs e /\
  (forall n, acc_g_interface_info_get_constant e n = w_if_consts e + n * constant_blob_size e).
Proof.
  intros e emb H. repeat split; intros.
  - eapply if_property; exact H. - eapply if_method; exact H. - eapply if_find_method; exact H.
  - eapply if_signal; exact H. - eapply if_vfunc; exact H. - eapply if_find_vfunc; exact H.
  - eapply if_constant; exact H.
Qed.
Print Assumptions C09_interface_sections.

Theorem C09_struct_enum_sections : forall e embedded,
  (forall k, w_st_field e embedded k = a_st_field e embedded k) /\
  (forall n, acc_g_struct_info_get_method (a_st_field e embedded (length embedded)) e n
             = w_st_methods e embedded + n * function_blob_size e) /\
  (forall n, acc_g_enum_info_get_value e n = w_en_values e + n * value_blob_size e) /\
  (forall n, acc_g_enum_info_get_method e n = w_en_methods e + n * function_blob_size e).
Proof. intros; repeat split; reflexivity. Qed.
Print Assumptions C09_struct_enum_sections.

(* unions: only when no field embeds a callback (the accessor has no walk) *)
Theorem C09_union_sections : forall e embedded, wf e embedded -> count_true embedded = 0 ->
  (forall k, (k <= length embedded)%nat -> acc_g_union_info_get_field e (Z.of_nat k) = w_un_field e embedded k) /\
  (forall n, acc_g_union_info_get_method e n = w_un_methods e embedded + n * function_blob_size e).
Proof.
  intros e emb H H0. split; intros.
  - apply un_field; assumption.
  - apply un_method; assumption.
Qed.
Print Assumptions C09_union_sections.

(* the field walk, for every pattern of embedded callbacks *)
Theorem C09_field_walk : forall fsz cbsz emb pos k, (k <= length emb)%nat ->
  walk pos fsz cbsz emb k = pos + Z.of_nat k * fsz + count_true (firstn k emb) * cbsz.
Proof. exact walk_closed. Qed.
Print Assumptions C09_field_walk.

(* non-vacuity: the blob sizes of the current format with an odd interface count *)
Example C09_nonvacuous :
  let e := {| base := 400; callback_blob_size := 12; constant_blob_size := 24; enum_blob_size := 24;
              field_blob_size := 16; function_blob_size := 20; interface_blob_size := 40;
              n_field_callbacks := 1; n_fields := 2; n_functions := 0; n_interfaces := 3; n_methods := 2;
              n_prerequisites := 1; n_properties := 1; n_signals := 1; n_values := 0; n_vfuncs := 0;
              object_blob_size := 60; property_blob_size := 16; signal_blob_size := 16; struct_blob_size := 32;
              union_blob_size := 40; value_blob_size := 12; vfunc_blob_size := 20 |} in
  acc_g_object_info_get_method e 1 = 400 + 60 + 8 + 2 * 16 + 12 + 16 + 20.
Proof. vm_compute. reflexivity. Qed.

(* the element type of an array and the n-th type of a list or hash table: the offset g_type_info_get_param_type computes
   (expression recognised in gitypeinfo.c on every run) is the position of ArrayTypeBlob.type and of ParamTypeBlob.type[n]
   in the layout regenerated from gitypelib-internal.h, for every blob offset and every n; both blobs keep their types at the
   same distance, which is why one expression serves both *)
From GIV.Gen Require Import BlobLayout.
Theorem C09_param_type_offset : forall base n : Z,
  let sz := Z.of_N (snd ParamTypeBlob__type_at) in
  acc_g_type_info_get_param_type base (Z.of_N ParamTypeBlob_size) sz n
    = (base + Z.of_N (fst ParamTypeBlob__type_at) + n * sz)%Z /\
  acc_g_type_info_get_param_type base (Z.of_N ParamTypeBlob_size) sz 0
    = (base + Z.of_N (fst ArrayTypeBlob__type_at))%Z /\
  snd ArrayTypeBlob__type_at = snd ParamTypeBlob__type_at.
Proof. exact param_type_offset. Qed.
Print Assumptions C09_param_type_offset.

(* the dimensions of a C array: through the blob the compiler writes (Model/C06K.blob_carray, tied to the API's reports in C06)
   and the two accessors recognised in gitypeinfo.c, the API reports the length index the GIR gives, and the fixed size the GIR
   gives EXCEPT for an array that also has a length (known finding C09-K1: the blob has one dimension) and modulo 2^16 (the
   dimension is a guint16; a fixed size of 65536 or more is stored wrapped, known finding C09-K2) - never anything else;
   before fix b101e79 it reported the length index as the fixed size of such an array *)
From GIV.Model Require Import C06K.
Theorem C09_array_dimensions : forall a,
  api_dims true a = ((if ka_has_len a then Z.of_N (ka_len a mod 65536) else -1)%Z,
                     (if ka_has_size a && negb (ka_has_len a) then Z.of_N (ka_size a mod 65536) else -1)%Z).
Proof. exact array_dimensions. Qed.
Print Assumptions C09_array_dimensions.

Theorem C09_array_dimensions_refuted_before_fix : exists a,
  ka_has_len a = true /\ ka_has_size a = true /\ snd (api_dims false a) = Z.of_N (ka_len a) /\ ka_len a <> ka_size a.
Proof. exact array_dimensions_refuted_before_fix. Qed.
Print Assumptions C09_array_dimensions_refuted_before_fix.

Theorem C09_array_dimensions_exact : forall a, (ka_len a < 65536)%N -> (ka_size a < 65536)%N ->
  api_dims true a = ((if ka_has_len a then Z.of_N (ka_len a) else -1)%Z,
                     (if ka_has_size a && negb (ka_has_len a) then Z.of_N (ka_size a) else -1)%Z).
Proof. exact array_dimensions_exact. Qed.
Print Assumptions C09_array_dimensions_exact.

(* every accessor of a type tells a type blob from a basic type stored in place by one test (recognised in all ten places of
   gitypeinfo.c and gibaseinfo.c on every run): with the flag positions of the regenerated layout, EVERY offset below 2^24 is
   recognised as an offset - so in a typelib smaller than 16 MiB no type blob is ever taken for a basic type, wherever it lies
   (the boundary sweep of the harness moves blobs across 0x10000) - and the first offset that would be misread is 2^24 *)
Theorem C09_complex_types_recognised : forall o, (0 < o < 2 ^ 24)%Z ->
  acc_type_is_inline (word_field o SimpleTypeBlobFlags__reserved) (word_field o SimpleTypeBlobFlags__reserved2) = false.
Proof. exact complex_types_recognised. Qed.
Print Assumptions C09_complex_types_recognised.

Theorem C09_inline_misread_at_16MiB :
  acc_type_is_inline (word_field (2 ^ 24) SimpleTypeBlobFlags__reserved) (word_field (2 ^ 24) SimpleTypeBlobFlags__reserved2) = true.
Proof. exact inline_misread_at_16MiB. Qed.
Print Assumptions C09_inline_misread_at_16MiB.
