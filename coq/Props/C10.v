(* C10 — well-formed GTK-Doc comment blocks are parsed exactly.
   Model: Model/C10.v (the annotation fields: the character loop of _parse_annotations,
   _parse_annotation, option parsing, _parse_fields, and the writer's _serialize_annotations;
   annotation vocabulary regenerated from annotationparser.py).  Tied to /repo by harness/c10.py:
   field strings (valid, malformed, soup) through the real _parse_fields and serializer compared
   inside Coq; whole blocks in seven layouts through the real block parser and writer. *)
From Coq Require Import List Arith NArith Bool String Ascii.
From GIV.Lib Require Import Regex Str.
From GIV.Gen Require Import AnnNames.
From GIV.Model Require Import C02 C10 C10B C10BSpec.
From GIV.Proofs Require Import C10 C10L C10N.
Import ListNotations.
Local Open Scope N_scope.

(* layout independence of annotations: whatever runs of blanks stand before, between and after
   the parenthesised groups (none at all included), exactly the groups are recovered, in order *)
Theorem C10_annotation_layout : forall items tail,
  Forall (fun wb => forallb is_space (fst wb) = true /\ forallb plain (snd wb) = true /\ snd wb <> []) items ->
  forallb is_space tail = true ->
  exists e, parse_groups (render_groups items ++ tail) = GOk (map (fun wb => strip (snd wb)) items) e
            /\ (items <> [] -> e = List.length (render_groups items)).
Proof. exact parse_groups_layout. Qed.
Print Assumptions C10_annotation_layout.

(* the options of a list annotation come back in order *)
Theorem C10_list_options : forall opts,
  Forall (fun o => opt_ok o = true) opts -> opts <> [] -> parse_options_list (Some (join_sp opts)) = (opts, false).
Proof. exact options_list_roundtrip. Qed.
Print Assumptions C10_list_options.

Theorem C10_list_annotation : forall n opts,
  list_name_ok n -> Forall (fun o => opt_ok o = true) opts -> parse_annotation (body_of n opts) = (n, AList opts, false).
Proof. exact list_annotation_roundtrip. Qed.
Print Assumptions C10_list_annotation.

(* writing annotations with the project's own writer and parsing that again gives the same
   annotations: for every list of list annotations with distinct names and well-formed options *)
Theorem C10_write_parse_roundtrip : forall anns,
  Forall wf_ann anns -> NoDup (map fst anns) ->
  parse_fields (serialize_annotations (map (fun a => (fst a, AList (snd a))) anns))
  = Some (map (fun a => (fst a, AList (snd a))) anns, [], false).
Proof. exact fields_roundtrip. Qed.
Print Assumptions C10_write_parse_roundtrip.

(* non-vacuity: the hypotheses are met by real annotations *)
Example C10_roundtrip_instance :
  parse_fields (serialize_annotations [(s "transfer", AList [s "full"]); (s "element-type", AList [s "utf8"; s "gint"]); (s "skip", AList [])])
  = Some ([(s "transfer", AList [s "full"]); (s "element-type", AList [s "utf8"; s "gint"]); (s "skip", AList [])], [], false).
Proof. vm_compute. reflexivity. Qed.

(* a parameter or tag field without annotations is its description — also when the description
   begins with a colon ("::notify is emitted ...", refuted before fix 4782904) *)
Theorem C10_description_without_annotations : forall ws d,
  forallb is_space ws = true -> desc_ok d = true -> parse_fields (ws ++ d) = Some ([], d, false).
Proof. exact description_only. Qed.
Print Assumptions C10_description_without_annotations.

(* annotations, the separating colon and a description, as the project's writer lays them out:
   the same annotations come back, the description is what follows the colon, nothing is reported *)
Theorem C10_annotations_and_description : forall anns d,
  Forall wf_ann anns -> NoDup (map fst anns) -> anns <> [] -> desc_ok d = true ->
  parse_fields (serialize_annotations (map (fun a => (fst a, AList (snd a))) anns) ++ 58 :: sp :: d)
  = Some (map (fun a => (fst a, AList (snd a))) anns, sp :: d, false).
Proof. exact fields_with_description. Qed.
Print Assumptions C10_annotations_and_description.

Example C10_description_instance :
  desc_ok (s "::notify is emitted (always)") = true
  /\ parse_fields (s " ::notify is emitted (always)") = Some ([], s "::notify is emitted (always)", false)
  /\ parse_fields (s "(transfer full) (nullable): : the value") = Some ([(s "transfer", AList [s "full"]); (s "nullable", AList [])], s " : the value", false).
Proof. vm_compute. repeat split; reflexivity. Qed.

(* key=value options (array, attributes): every key comes back with its value, in order, for every
   list of distinct keys — a value may itself contain '=' *)
Theorem C10_dict_options : forall kvs,
  Forall (fun kv => kv_ok kv = true) kvs -> NoDup (map fst kvs) -> kvs <> [] ->
  parse_options_dict (Some (join_sp (map render_kv kvs))) = kvs.
Proof. exact options_dict_roundtrip. Qed.
Print Assumptions C10_dict_options.

Example C10_dict_instance :
  parse_options_dict (Some (s "length=n fixed-size=3 zero-terminated org.example.filter=name=foo"))
  = [(s "length", Some (s "n")); (s "fixed-size", Some (s "3")); (s "zero-terminated", None); (s "org.example.filter", Some (s "name=foo"))].
Proof. vm_compute. reflexivity. Qed.

(* ---- the block level (Model/C10B.v: parse_comment_block, tied to the real parser by harness/c10b.py)

   either line-ending convention: lines without CR and LF joined by LF, by CR LF or by CR are cut into exactly those lines ... *)
Theorem C10_line_endings : forall sep ls,
  sep_ok sep -> ls <> [] -> Forall plain_line ls -> split_breaks (join_lines sep ls) = ls.
Proof. exact split_breaks_join. Qed.
Print Assumptions C10_line_endings.

(* ... so the whole result of the block parser - block, indentation, diagnostics - is the same under all three *)
Theorem C10_block_line_endings : forall sep1 sep2 ls lineno,
  sep_ok sep1 -> sep_ok sep2 -> ls <> [] -> Forall plain_line ls ->
  parse_block (join_lines sep1 ls) lineno = parse_block (join_lines sep2 ls) lineno.
Proof. exact parse_block_line_endings. Qed.
Print Assumptions C10_block_line_endings.

(* "any indentation in front of the asterisks": the line loop arrives at the same block, the same part in progress and the same
   flags (everything but block.indentation, which records the blanks, and the diagnostics, which quote the lines) whatever blanks
   stand in front of each line's asterisk - they may differ from line to line.  By symbolic evaluation of COMMENT_ASTERISK_RE
   (Proofs/C10N.asterisk_match) and the fact that no function of the parser looks at the quoted line or the column it is given
   except to report. *)
Theorem C10_indentation_independent : forall cb ca bl rests inds1 inds2 ln st1 st2,
  List.length inds1 = List.length rests -> List.length inds2 = List.length rests ->
  Forall blanks inds1 -> Forall blanks inds2 -> Forall no_lf rests -> lst_c st1 = lst_c st2 ->
  lst_c (run_lines cb ca bl ln (asterisk_lines inds1 rests) st1) = lst_c (run_lines cb ca bl ln (asterisk_lines inds2 rests) st2).
Proof. exact run_lines_indent_independent. Qed.
Print Assumptions C10_indentation_independent.

(* what COMMENT_ASTERISK_RE does with  <blanks> * <text> : it matches, finds no stray text, and ends behind the asterisk and at most
   one blank *)
Theorem C10_asterisk_prefix : forall ind rest, Forall (fun x => cls_mem sp_cls x = true) ind ->
  Backtrack.bmatch BlockRegex.re_asterisk (ind ++ 42 :: rest)
  = Some [(0, (0, List.length ind + 1 + delta rest)); (BlockRegex.g_asterisk_comment, (List.length ind, List.length ind))]%nat.
Proof. exact asterisk_match. Qed.
Print Assumptions C10_asterisk_prefix.
