From GIV.Model Require Import C10.
