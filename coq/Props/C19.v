(* C19 — Library names resolve to the right shared objects or fail loudly.
   Statements only; proofs live in Proofs/C19.v.  The pattern [ldd_regex] is
   regenerated from giscanner/shlibs.py on every run (Gen/LddPattern.v). *)
From Coq Require Import List NArith Bool.
From GIV.Lib Require Import Regex Backtrack Str.
From GIV.Model Require Import C19.
From GIV.Proofs Require Import C19.
Import ListNotations.
Local Open Scope N_scope.

(* A word matches request [name] iff it is  [dir/]lib<name><c><rest>  with c not a
   library-name character and no '/' in rest — for every name and every word. *)
Theorem C19_pattern_spec : forall name w,
  ldd_match name w = true <->
  exists dir c rest,
    w = dir ++ lib ++ name ++ c :: rest /\
    (dir = [] \/ exists d, dir = d ++ [slash] /\ no_nl d) /\
    libname_char c = false /\ no_slash rest.
Proof. exact ldd_match_spec. Qed.
Print Assumptions C19_pattern_spec.

(* In the property's own words (base name). *)
Theorem C19_pattern_basename : forall name w, no_slash name -> no_nl w ->
  (ldd_match name w = true <->
   exists c rest, basename w = lib ++ name ++ c :: rest /\ libname_char c = false).
Proof. exact ldd_match_basename. Qed.
Print Assumptions C19_pattern_basename.

(* The loop: with distinct requests of which no listed word satisfies two, the call
   succeeds iff every request has a matching word; the words reported are exactly the
   first listed match of each request, in listing order; otherwise it fails naming
   exactly the unsatisfied requests.  Holds for any matcher m. *)
Theorem C19_resolve_first : forall (m : str -> str -> bool) ps ws,
  NoDup ps -> disjoint m ps ws ->
  match resolve_from_words m ps ws with
  | Ok found =>
      unresolved m ps ws = [] /\ subseq found ws /\ length found = length ps /\
      (forall w, In w found <-> exists p, In p ps /\ find (m p) ws = Some w)
  | Err names => names = unresolved m ps ws /\ names <> []
  end.
Proof. exact resolve_from_words_spec. Qed.
Print Assumptions C19_resolve_first.

Theorem C19_requests_distinct : forall isfile libs,
  NoDup (mk_patterns isfile libs) /\
  forall p, In p (mk_patterns isfile libs) <-> In p libs /\ isfile p = false.
Proof. exact (fun isfile libs => conj (mk_patterns_nodup isfile libs) (mk_patterns_in isfile libs)). Qed.
Print Assumptions C19_requests_distinct.

Theorem C19_headers_ignored : forall l1 h l2, header_line h = true ->
  words_of_lines (l1 ++ h :: l2) = words_of_lines (l1 ++ l2).
Proof. exact header_ignored. Qed.
Print Assumptions C19_headers_ignored.

Theorem C19_basename : forall s, Forall (fun x => x <> 47) (sanitize_shlib_path s).
Proof. exact sanitize_no_slash. Qed.
Print Assumptions C19_basename.

Theorem C19_dlname_substring : forall data n, extract_dlname data = Some n ->
  exists a b, (a <= b <= length data)%nat /\ n = slice data a b.
Proof. exact extract_dlname_substring. Qed.
Print Assumptions C19_dlname_substring.

(* non-vacuity: a two-request listing satisfying the hypotheses, fully resolved *)
Example C19_nonvacuous :
  resolve_from_ldd_output (fun _ => false)
    [[102;111;111]; [98;97;114]]
    [32;108;105;98;98;97;114;46;115;111;32;61;62;32;47;117;47;108;105;98;98;97;114;46;115;111;46;49;10;
     112;114;111;103;58;10; 47;108;47;108;105;98;102;111;111;46;115;111;46;50]
  = Ok [[108;105;98;98;97;114;46;115;111]; [47;108;47;108;105;98;102;111;111;46;115;111;46;50]].
Proof. vm_compute. reflexivity. Qed.
