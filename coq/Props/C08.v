(* C08 — record and union layout stored in typelibs equals the platform C ABI.
   Model: Model/C08.v (girepository/giroffsets.c); GI_ALIGN is translated from the macro
   text (Gen/Align.v), platform sizes come from a probe compiled against the current
   sources (Gen/Platform.v). *)
From Coq Require Import List ZArith Bool.
From GIV.Gen Require Import Align Platform.
From GIV.Model Require Import C08.
From GIV.Proofs Require Import C08.
Import ListNotations.
Local Open Scope Z_scope.

(* the macro as written in the source rounds up to a multiple, for every power of two *)
Theorem C08_gi_align : forall n k, 0 <= k -> gi_align n (2 ^ k) = ((n + 2 ^ k - 1) / 2 ^ k) * 2 ^ k.
Proof. exact gi_align_pow2. Qed.
Print Assumptions C08_gi_align.

(* structures: least admissible offsets, alignment = largest member alignment, size = least
   multiple of it that covers the members — for any number of members of known size *)
Theorem C08_struct_is_abi : forall ms l, all_known ms l ->
  let L := struct_layout ms in
  l_ok L = true /\ admissible 0 l (l_offsets L) /\
  (forall os2, admissible 0 l os2 -> le_list (l_offsets L) os2) /\
  l_align L = max_align 1 l /\
  l_size L mod l_align L = 0 /\ end_of 0 l (l_offsets L) <= l_size L /\
  (forall sz os2, admissible 0 l os2 -> end_of 0 l os2 <= sz -> sz mod l_align L = 0 -> l_size L <= sz).
Proof. exact struct_is_abi. Qed.
Print Assumptions C08_struct_is_abi.

Theorem C08_no_overlap : forall l off os, Forall (fun m => 0 <= fst m) l -> admissible off l os ->
  forall i j oi oj si sj ai aj, (i < j)%nat ->
    nth_error os i = Some oi -> nth_error os j = Some oj ->
    nth_error l i = Some (si, ai) -> nth_error l j = Some (sj, aj) -> oi + si <= oj.
Proof. exact admissible_no_overlap. Qed.
Print Assumptions C08_no_overlap.

Theorem C08_union_is_abi : forall ms l, all_known ms l ->
  let L := union_layout ms in
  l_ok L = true /\ Forall (fun o => o = 0) (l_offsets L) /\
  l_align L = max_align 1 l /\ l_size L mod l_align L = 0 /\
  (forall m, In m l -> fst m <= l_size L) /\
  (forall sz, (forall m, In m l -> fst m <= sz) -> 0 <= sz -> sz mod l_align L = 0 -> l_size L <= sz).
Proof. exact union_is_abi. Qed.
Print Assumptions C08_union_is_abi.

(* nested declarations use the same computation *)
Theorem C08_nested_struct : forall ms,
  sa (TStruct ms) = let '(_, size, align, err) := struct_go ms 0 1 false in
                    if err then (-1, -1, false) else (gi_align size align, align, true).
Proof. exact sa_struct. Qed.
Print Assumptions C08_nested_struct.

Theorem C08_unknown_propagates : forall pre t post,
  snd (sa t) = false ->
  let L := struct_layout (pre ++ MField t :: post) in
  l_ok L = false /\ l_size L = -1 /\ l_align L = -1 /\
  Forall (fun o => o = -1) (skipn (length (filter (fun m => match m with MField _ => true | _ => false end) pre))
                                  (l_offsets L)).
Proof. exact unknown_propagates. Qed.
Print Assumptions C08_unknown_propagates.

Theorem C08_enum_width_fits : forall values,
  Forall (fun v => - 2 ^ 63 <= v < 2 ^ 63) values ->
  let '(w, sg) := enum_storage values in
  (w = 1 \/ w = 2 \/ w = 4 \/ w = 8) /\
  Forall (fun v => if sg then - 2 ^ (8 * w - 1) <= v < 2 ^ (8 * w - 1) else 0 <= v < 2 ^ (8 * w)) values.
Proof. exact enum_storage_fits. Qed.
Print Assumptions C08_enum_width_fits.

(* non-vacuity: { gint8; gint32; gint16; gdouble; gint8 } *)
Example C08_nonvacuous :
  let ms := [MField (TScalar 1 1); MField (TScalar 4 4); MField (TScalar 2 2); MField (TScalar 8 8); MField (TScalar 1 1)] in
  struct_layout ms = {| l_offsets := [0; 4; 8; 16; 24]; l_size := 32; l_align := 8; l_ok := true |}.
Proof. vm_compute. reflexivity. Qed.
