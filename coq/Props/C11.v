(* C11 — comment parsing never aborts, and its diagnostics point at the source.
   Models: Model/C11.v (counting/suppression of diagnostics, line numbering of a block) and
   Model/C10.v (where the annotation-field errors are reported).  Tied to /repo by harness/c11.py:
   arbitrary and mutated comment texts through the real parse_comment_blocks (no exception, sibling
   blocks kept, malformed annotations not half-applied), every diagnostic's file/line/quoted
   line/caret checked against the source, counts with and without display compared. *)
From Coq Require Import List Arith NArith Bool String.
From GIV.Lib Require Import Regex Str.
From GIV.Lib Require Import Backtrack.
From GIV.Gen Require Import BlockRegex.
From GIV.Model Require Import C02 C10 C11 C10B C10BSpec C11B.
From GIV.Proofs Require Import C10 C11 C11B C11E C11H.
Import ListNotations.

(* every diagnostic is counted whether or not it is displayed, so a warnings-as-errors run fails
   exactly when something was diagnosed *)
Theorem C11_counted_even_when_suppressed : forall enabled ms, l_count (log_all enabled ms) = List.length ms.
Proof. exact counted_even_when_suppressed. Qed.
Print Assumptions C11_counted_even_when_suppressed.

Theorem C11_fails_iff_diagnosed : forall enabled ms, run_fails (log_all enabled ms) = true <-> ms <> [].
Proof. exact fails_iff_diagnosed. Qed.
Print Assumptions C11_fails_iff_diagnosed.

(* the k-th line after an opening token that stands alone on line L is line L + 1 + k (k from 0) *)
Theorem C11_block_line_numbers : forall opening lines k x,
  nth_error lines k = Some x -> nth_error (block_lines opening lines) k = Some ((opening + 1 + k)%nat, x).
Proof. exact block_line_numbers. Qed.
Print Assumptions C11_block_line_numbers.

(* an error found in an annotation field is reported at a character of that field: the caret,
   placed at the field's column plus this index, lies within the quoted line *)
Theorem C11_caret_within_field : forall fields e idx,
  parse_groups fields = GErr e idx -> fields <> [] -> (idx < List.length fields)%nat.
Proof. exact error_index_in_field. Qed.
Print Assumptions C11_caret_within_field.

(* ---- the block-level model (Model/C10B.v: parse_comment_block with its regular expressions translated from the source,
   tied to the real parser by harness/c10b.py)

   In a comment whose opening and closing tokens stand alone on their lines, EVERY diagnostic of the parse phase
   - names a line of the comment (lineno + k for a k below the number of lines), and
   - when it quotes a line, quotes exactly the k-th source line and keeps its caret within it,
   or stands on a line that carries a deprecated tag-style annotation (reported by diagnostic 13 on that same line), for which
   the property claims the line number only.  `placed` and `quoted_ok` are Model/C11B.v. *)
Theorem C11_diagnostics_placed : forall comment lineno,
  let lines := split_breaks comment in
  let o := parse_block comment lineno in
  (forall cs, bmatch re_start (hd [] lines) = Some cs -> nonempty (gtext g_start_comment (hd [] lines) cs) = false) ->
  (forall ce, bmatch re_end (last (tl lines) []) = Some ce -> nonempty (gtext g_end_comment (last (tl lines) []) ce) = false) ->
  Forall (placed lineno lines (o_diags o)) (o_diags o).
Proof. exact parse_block_diagnostics_placed. Qed.
Print Assumptions C11_diagnostics_placed.

(* the hypotheses are met and the conclusion says something: a comment with three diagnosed lines *)
Example C11_diagnostics_placed_nonvacuous :
  let comment := s "/**
 * foo_bar: (skip
 * @p: (out) no colon
 *
 * Returns: (transfer full) (transfer none): x
 */"%string in
  (forall cs, bmatch re_start (hd [] (split_breaks comment)) = Some cs ->
     nonempty (gtext g_start_comment (hd [] (split_breaks comment)) cs) = false)
  /\ (forall ce, bmatch re_end (last (tl (split_breaks comment)) []) = Some ce ->
        nonempty (gtext g_end_comment (last (tl (split_breaks comment)) []) ce) = false)
  /\ map (fun d => (dg_code d, dg_line d, dg_col d)) (o_diags (parse_block comment 10))
     = [(26, 11, Some 16); (28, 12, Some 12); (27, 14, Some 42)]%nat.
Proof.
  cbv zeta. split; [|split].
  - intros cs H. vm_compute in H. injection H as <-. vm_compute. reflexivity.
  - intros ce H. vm_compute in H. injection H as <-. vm_compute. reflexivity.
  - vm_compute. reflexivity.
Qed.

(* Nowhere does the parser dereference a failed match: the three patterns whose result it uses without a test (INDENTATION_RE on
   every line, TAG_VALUE_VERSION_RE and TAG_VALUE_STABILITY_RE on the text of Since/Deprecated/Stability tags) match every text
   that can reach them, so the model's "CPython would raise here" flag is never set - for every comment text whatsoever.
   (Proofs/C11E.v: total_on_lines is a verified sufficient condition, evaluated on the patterns as regenerated from the source;
   the correspondence compares the flag with exceptions actually raised.) *)
Theorem C11_model_never_raises : forall comment lineno, o_exc (parse_block comment lineno) = false.
Proof. exact parse_block_never_raises. Qed.
Print Assumptions C11_model_never_raises.

Theorem C11_unguarded_patterns_total : forall x, no_lf x ->
  bmatch re_indent x <> None /\ bmatch re_tagver x <> None /\ bmatch re_tagstab x <> None.
Proof. exact unguarded_patterns_total. Qed.
Print Assumptions C11_unguarded_patterns_total.

(* "a malformed annotation is ignored rather than half-applied": a failed _parse_annotations hands on no annotation at all ... *)
Theorem C11_failed_parse_is_empty : forall popt ln q column fields existing,
  po_success (parse_annotations_d popt ln q column fields existing) = false ->
  po_anns (parse_annotations_d popt ln q column fields existing) = [] /\ po_raws (parse_annotations_d popt ln q column fields existing) = [].
Proof. exact failed_parse_is_empty. Qed.
Print Assumptions C11_failed_parse_is_empty.

(* ... and a continuation line of a parameter whose annotations are malformed leaves that parameter's annotations (and their
   position), the annotations of the identifier and the tags exactly as they were, however many well-formed annotations stand in
   front of the malformed one on that line *)
Theorem C11_malformed_continuation_not_applied : forall cx b st k p,
  l_part st = Some PParams -> l_cur st = CurParam k -> part_get (bk_params b) k = Some p ->
  (let line := if is_empty_line (cx_line cx) then cx_line cx else rstrip (cx_line cx) in
   po_success (fst (parse_fields_d true true (cx_ln cx) (cx_orig cx) (cx_co cx) line (Some (pt_anns p, pt_apos p)))) = false) ->
  exists b' p', l_blk (step_cont cx b st) = Some b' /\ part_get (bk_params b') k = Some p'
                /\ pt_anns p' = pt_anns p /\ pt_apos p' = pt_apos p /\ bk_anns b' = bk_anns b /\ bk_tags b' = bk_tags b.
Proof. exact malformed_continuation_not_applied. Qed.
Print Assumptions C11_malformed_continuation_not_applied.
