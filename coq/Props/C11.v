(* C11 — comment parsing never aborts, and its diagnostics point at the source.
   Models: Model/C11.v (counting/suppression of diagnostics, line numbering of a block) and
   Model/C10.v (where the annotation-field errors are reported).  Tied to /repo by harness/c11.py:
   arbitrary and mutated comment texts through the real parse_comment_blocks (no exception, sibling
   blocks kept, malformed annotations not half-applied), every diagnostic's file/line/quoted
   line/caret checked against the source, counts with and without display compared. *)
From Coq Require Import List Arith NArith Bool.
From GIV.Lib Require Import Regex Str.
From GIV.Model Require Import C02 C10 C11.
From GIV.Proofs Require Import C10 C11.
Import ListNotations.

(* every diagnostic is counted whether or not it is displayed, so a warnings-as-errors run fails
   exactly when something was diagnosed *)
Theorem C11_counted_even_when_suppressed : forall enabled ms, l_count (log_all enabled ms) = List.length ms.
Proof. exact counted_even_when_suppressed. Qed.
Print Assumptions C11_counted_even_when_suppressed.

Theorem C11_fails_iff_diagnosed : forall enabled ms, run_fails (log_all enabled ms) = true <-> ms <> [].
Proof. exact fails_iff_diagnosed. Qed.
Print Assumptions C11_fails_iff_diagnosed.

(* the k-th line after an opening token that stands alone on line L is line L + 1 + k (k from 0) *)
Theorem C11_block_line_numbers : forall opening lines k x,
  nth_error lines k = Some x -> nth_error (block_lines opening lines) k = Some ((opening + 1 + k)%nat, x).
Proof. exact block_line_numbers. Qed.
Print Assumptions C11_block_line_numbers.

(* an error found in an annotation field is reported at a character of that field: the caret,
   placed at the field's column plus this index, lies within the quoted line *)
Theorem C11_caret_within_field : forall fields e idx,
  parse_groups fields = GErr e idx -> fields <> [] -> (idx < List.length fields)%nat.
Proof. exact error_index_in_field. Qed.
Print Assumptions C11_caret_within_field.
