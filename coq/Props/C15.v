(* C15 — whatever the scanner writes, the typelib compiler accepts.
   Model: Gen/GirVocab.v (element vocabularies regenerated from giscanner/girwriter.py and
   girepository/girparser.c) and Model/C15.v (the reader's interpretation of parameter and
   return attributes, composed with the writer model of C01); tied to /repo by harness/c15.py
   (scanner-written GIRs compiled by the real g-ir-compiler, validated, walked through the API). *)
From Coq Require Import List NArith Bool String Ascii.
From GIV.Lib Require Import Regex Str.
From GIV.Gen Require Import GirVocab.
From GIV.Model Require Import C02 C02Spec C01 C01Spec C15.
From GIV.Proofs Require Import C15.
Import ListNotations.
Local Open Scope N_scope.

(* every element name the GIR writer can emit is recognised by the compiler's reader (or is a
   "c:" element, which it skips silently): no "element ... is unknown, ignoring" can arise from
   the vocabulary.  Finite statement over the lists regenerated from the two sources. *)
Theorem C15_vocabulary_contract : forall e,
  In e writer_elements -> In e parser_elements \/ startswith (s "c:") e = true.
Proof. exact vocabulary_contract_in. Qed.
Print Assumptions C15_vocabulary_contract.

(* for every parameter the scanner can describe, the attributes it writes are read back by the
   compiler as the same direction, caller-allocation, nullability, optionality, skip and transfer *)
Theorem C15_parameter_flags_roundtrip : forall ps sl,
  sl_is_return sl = false -> (sl_direction sl = DInout -> sl_caller_allocates sl = false) ->
  let r := read_param true (emit ps sl) in
  rf_in r = dir_in (sl_direction sl) /\ rf_out r = dir_out (sl_direction sl)
  /\ rf_caller_allocates r = (sl_caller_allocates sl && dir_out (sl_direction sl))
  /\ rf_nullable r = (sl_nullable sl && negb (sl_not_nullable sl))
  /\ rf_optional r = sl_optional sl
  /\ rf_skip r = sl_skip sl
  /\ rf_transfer r = match sl_transfer sl with Some TNone => Some 0 | Some TContainer => Some 1 | Some TFull => Some 2
                                        | None => if sl_skip sl then Some 0 else None end.
Proof. exact roundtrip_param. Qed.
Print Assumptions C15_parameter_flags_roundtrip.

(* the reader as found (before fix e1eedbc) turned a nullable inout parameter into an optional one *)
Theorem C15_inout_nullable_refuted_before_fix :
  exists ps sl, sl_is_return sl = false /\ sl_optional sl = false
                /\ rf_optional (read_param false (emit ps sl)) = true.
Proof. exact inout_nullable_refuted_before_fix. Qed.
Print Assumptions C15_inout_nullable_refuted_before_fix.

(* return values: nullability, skip and transfer survive the hand-over *)
Theorem C15_return_flags_roundtrip : forall ps sl,
  sl_is_return sl = true ->
  read_return (emit ps sl)
  = (sl_nullable sl && negb (sl_not_nullable sl), sl_skip sl,
     match sl_transfer sl with Some TNone => Some 0 | Some TContainer => Some 1 | Some TFull => Some 2
                          | None => if sl_skip sl then Some 0 else None end).
Proof. exact roundtrip_return. Qed.
Print Assumptions C15_return_flags_roundtrip.

(* scope, closure and destroy of a callback parameter survive the hand-over *)
Theorem C15_callback_links_roundtrip : forall ps sl,
  sl_is_return sl = false ->
  let r := read_param true (emit ps sl) in
  rf_scope r = scope_code (sl_scope sl)
  /\ rf_closure r = match sl_closure sl with Some n => slot_index ps n | None => None end
  /\ rf_destroy r = match sl_destroy sl with Some n => slot_index ps n | None => None end.
Proof. exact roundtrip_callback_links. Qed.
Print Assumptions C15_callback_links_roundtrip.

(* arrays: what the scanner's writer (Model/C07T.write_ty, tied to GIRWriter._write_type) says about an array is what the
   compiler's reader (Model/C15T.c_read_array, girparser.c:start_type, tied to the typelibs of the run) takes from it - the
   kind, and for C arrays zero-termination, length index and fixed size, for EVERY combination and every magnitude *)
From GIV.Model Require Import C07T C15T.
From GIV.Proofs Require Import C15T.
Theorem C15_array_attributes_roundtrip : forall ns k c z s l e, array_kind_ok k = true ->
  c_read_array (attrs_of (write_ty ns (AArray k c z s l e))) =
  match k with
  | None => {| ca_kind := 0; ca_zero := z; ca_len := l; ca_size := s |}
  | Some n => {| ca_kind := if str_eqb n s_garray then 1 else if str_eqb n s_gbytearray then 3 else 2;
                 ca_zero := false; ca_len := None; ca_size := None |}
  end.
Proof. exact array_attributes_roundtrip. Qed.
Print Assumptions C15_array_attributes_roundtrip.
