(* C18 — the dependency-GIR cache never serves stale or torn data.
   Model: Model/C18.v, a small-step system of any number of scanner processes executing the
   system-call sequence of CacheStore.load / Transformer._parse_include / CacheStore.store on one
   cache entry, with source modifications, kills, unlinks and unreadable entries as environment
   events.  [run true] is the repaired protocol (now in /repo), [run false] the code as found. *)
From Coq Require Import List Arith Bool.
From GIV.Model Require Import C18.
From GIV.Proofs Require Import C18.
From GIV.Model Require C18V.
From GIV.Proofs Require C18V.
Import ListNotations.

(* For every schedule (any number of processes, any interleaving, any crash points, any history
   of source modifications): an operation that finishes returns the parse of a version of the
   source that was current at some moment during that operation. *)
Theorem C18_safe : forall evs pid r,
  result_of (run true evs) pid = Some r -> In r (seen_of (run true evs) pid).
Proof. exact safe. Qed.
Print Assumptions C18_safe.

(* every readable file ever published under the entry name is a complete parse whose stamp is
   not newer than the version it holds: an entry older than the source is never valid, and a
   partially written temporary is never visible *)
Theorem C18_published : forall evs i n,
  inodes (run true evs) i = Some n -> complete n = true ->
  stamp n <= payload n /\ payload n <= src (run true evs).
Proof. exact published_ok. Qed.
Print Assumptions C18_published.

Theorem C18_validated_entry : forall evs pid p i,
  procs (run true evs) pid = Some p -> p_pc p = Valid i ->
  exists n, inodes (run true evs) i = Some n /\ (complete n = true -> In (payload n) (p_seen p)).
Proof. exact never_older. Qed.
Print Assumptions C18_validated_entry.

(* the code as found violated the property: two schedules, replayed on the real CacheStore by
   the check before the fix *)
Theorem C18_stale_refuted_a : stale (run false witness_a) 1 = true.
Proof. exact refuted_a. Qed.
Print Assumptions C18_stale_refuted_a.
Theorem C18_stale_refuted_b : stale (run false witness_b) 1 = true.
Proof. exact refuted_b. Qed.
Print Assumptions C18_stale_refuted_b.

(* non-vacuity: under the repaired protocol the same schedule completes and is not stale *)
Example C18_nonvacuous :
  let evs := witness_a ++ [Step 1; Step 1; Step 1; Step 1; Step 1; Step 1; Step 1] in
  stale (run true evs) 1 = false /\ result_of (run true evs) 1 <> None.
Proof. exact repaired_a. Qed.

(* a change of scanner version discards all entries: whatever the interleaving of version checks
   (read .cache-version / list / unlink / write), stores, loads and kills of any number of
   scanner processes, and any number of upgrades made while no scanner runs, a load only ever
   returns an entry pickled by the scanner version that loads it (Model/C18V.v) *)
Theorem C18_version_change_safe : forall evs,
  Forall (fun pr => fst pr = snd pr) (C18V.served (C18V.vrun evs)).
Proof. exact C18V.version_safe. Qed.
Print Assumptions C18_version_change_safe.

(* ... and the order "purge, then record the version" is what makes it true *)
Theorem C18_version_first_refuted :
  exists evs, In (1, 0) (C18V.served (fold_left C18V.vstep_version_first evs C18V.vinit)).
Proof. exact C18V.version_first_refuted. Qed.
Print Assumptions C18_version_first_refuted.
