(* C12 — runtime GObject type data is merged faithfully into the GIR.
   Model: Model/C12.v; tied to /repo by harness/c12.py (generated worlds and dump XML through the
   real GDumpParser, MainTransformer, IntrospectablePass and GIRWriter, compared class by class,
   structure by structure and function by function inside Coq). *)
From Coq Require Import List NArith Bool String Ascii.
From GIV.Lib Require Import Regex Str.
From GIV.Model Require Import C02 C04 C16 C12 C12Q.
From GIV.Proofs Require Import C12 C12Q.
Import ListNotations.
Local Open Scope N_scope.

(* property flags: the four booleans are exactly the four low flag bits, for every flags word *)
Theorem C12_property_flags : forall p others f,
  decode_flags (encode_flags p others) = p /\ decode_flags f = decode_flags (f mod 16)
  /\ pf_readable (decode_flags f) = N.testbit f 0 /\ pf_writable (decode_flags f) = N.testbit f 1
  /\ pf_construct (decode_flags f) = N.testbit f 2 /\ pf_construct_only (decode_flags f) = N.testbit f 3.
Proof.
  intros p others f. split; [apply flags_roundtrip|]. split; [apply flags_low_bits|]. repeat split; reflexivity.
Qed.
Print Assumptions C12_property_flags.

(* the parent is the nearest ancestor that is actually known: every ancestor before it in the
   reported chain is unknown; no known ancestor at all gives no parent *)
Theorem C12_nearest_known_parent : forall k chain,
  (forall n, nearest_known k chain = Some n ->
     exists pre g post, chain = pre ++ g :: post /\ kfind k g = Some n /\ Forall (fun x => kfind k x = None) pre)
  /\ (nearest_known k chain = None <-> Forall (fun x => kfind k x = None) chain).
Proof. intros k chain. split; [intros n; apply nearest_known_spec | apply nearest_known_none]. Qed.
Print Assumptions C12_nearest_known_parent.

(* classes carry the reported type name, get-type function, flags and as many properties,
   signals and interfaces as reported; the symbol prefix is the get-type function minus the
   namespace prefix and the _get_type / _get_gtype suffix *)
Theorem C12_class_facts : forall ns k recs g gt parents ab fi ifaces props sigs c,
  merge_one ns k recs (DClass g gt parents ab fi ifaces props sigs) = Some c ->
  oc_parent c = nearest_known k parents /\ oc_gtype c = g /\ oc_get_type c = gt /\ oc_abstract c = ab /\ oc_final c = fi
  /\ oc_symbol_prefix c = symbol_prefix ns gt
  /\ List.length (oc_props c) = List.length props /\ List.length (oc_sigs c) = List.length sigs
  /\ List.length (oc_ifaces c) = List.length ifaces.
Proof. exact merge_class_facts. Qed.
Print Assumptions C12_class_facts.

Theorem C12_symbol_prefix : forall ns p,
  symbol_prefix ns (ns ++ p ++ s "_get_type") = Some p /\ symbol_prefix ns (ns ++ p ++ s "_get_gtype") = Some p.
Proof. intros ns p. split; [apply symbol_prefix_get_type | apply symbol_prefix_get_gtype]. Qed.
Print Assumptions C12_symbol_prefix.

Theorem C12_properties_complete : forall k ps p,
  In p ps ->
  In {| op_name := dp_name p; op_flags := decode_flags (dp_flags p); op_type := resolve_gtype k (dp_type p);
        op_default := match dp_default p with Some [] => None | x => x end |} (mk_props k ps).
Proof. exact mk_props_complete. Qed.
Print Assumptions C12_properties_complete.

Theorem C12_signals_complete : forall k ss x,
  In x ss ->
  exists o, In o (mk_sigs k ss) /\ os_name o = ds_name x
            /\ os_flags o = (ds_no_recurse x, ds_detailed x, ds_action x, ds_no_hooks x)
            /\ os_return o = resolve_gtype k (ds_return x)
            /\ map snd (os_params o) = map (resolve_gtype k) (ds_params x)
            /\ map fst (os_params o) = signal_param_names (List.length (ds_params x)).
Proof. exact mk_sigs_complete. Qed.
Print Assumptions C12_signals_complete.

Theorem C12_signal_param_names : forall n,
  List.length (signal_param_names n) = n
  /\ (forall i, (i < n)%nat -> nth_error (signal_param_names n) i = Some (signal_param_name i))
  /\ signal_param_name 0 = s "object"
  /\ (forall j, signal_param_name (S j) = 112 :: dec (N.of_nat j)).
Proof. exact signal_param_names_spec. Qed.
Print Assumptions C12_signal_param_names.

(* class and interface structures are linked to their type in both directions *)
Theorem C12_type_struct_link : forall ns recs dump d r,
  In d dump -> owns recs d (wr_name r) = true ->
  exists d', In d' dump /\ owns recs d' (wr_name r) = true
             /\ or_struct_for (merge_record ns recs dump r) = Some (local_of (dname d')).
Proof. exact type_struct_back_link. Qed.
Print Assumptions C12_type_struct_link.

Theorem C12_type_struct_names : forall recs is_class l t,
  type_struct recs is_class l = Some t ->
  existsb (fun r => str_eqb (wr_name r) t) recs = true
  /\ (if is_class then t = l ++ s "Class" else t = l ++ s "Iface" \/ t = l ++ s "Interface").
Proof. exact type_struct_named. Qed.
Print Assumptions C12_type_struct_names.

(* function-pointer members whose first parameter is the instance, and only those, become
   virtual methods *)
Theorem C12_virtual_methods : forall recs sn gi f r,
  find (fun r => str_eqb (wr_name r) sn) recs = Some r ->
  (In f (vfuncs recs (Some sn) gi) <-> exists first, In (f, Some first) (wr_cbs r) /\ str_eqb first gi = true).
Proof. exact vfuncs_spec. Qed.
Print Assumptions C12_virtual_methods.

(* get-type functions disappear from the function list, nothing else does *)
Theorem C12_get_type_functions_removed : forall funcs dump f,
  In f (remaining_functions funcs dump) <-> In f funcs /\ is_get_type dump f = false.
Proof. exact remaining_functions_spec. Qed.
Print Assumptions C12_get_type_functions_removed.

(* ---- error quarks (Model/C12Q.v) *)
(* an error-quark function gives its domain to the enumeration it belongs to — the one whose get-type symbol
   prefix, underscored name or name is the function's name without "_quark" — unless a later quark function
   of the same enumeration overwrites it; for every list of enumerations and quark functions *)
Theorem C12_error_domain_given : forall es pre q post j e,
  nth_error es j = Some e -> target es (q_short q) = Some j ->
  (forall q', In q' post -> target es (q_short q') <> Some j) ->
  option_map qe_domain (nth_error (fst (pair_all es (pre ++ q :: post))) j) = Some (Some (q_domain q)).
Proof. exact domain_given. Qed.
Print Assumptions C12_error_domain_given.

(* an enumeration that no quark function belongs to keeps what it had (none, for a scanned enumeration) *)
Theorem C12_error_domain_kept : forall es qs j e,
  nth_error es j = Some e -> (forall q, In q qs -> target es (q_short q) <> Some j) ->
  option_map qe_domain (nth_error (fst (pair_all es qs)) j) = Some (qe_domain e).
Proof. exact domain_kept. Qed.
Print Assumptions C12_error_domain_kept.

(* exactly the quark functions without enumeration are reported; no enumeration is renamed, added or lost *)
Theorem C12_unmatched_quarks_reported : forall es qs,
  snd (pair_all es qs) = map q_short (filter (fun q => match target es (q_short q) with None => true | Some _ => false end) qs)
  /\ map qe_name (fst (pair_all es qs)) = map qe_name es.
Proof. exact unmatched_reported. Qed.
Print Assumptions C12_unmatched_quarks_reported.

Theorem C12_registered_prefix_first : forall es short i,
  by_prefix es short = Some i -> target es short = Some i.
Proof. exact registered_prefix_first. Qed.
Print Assumptions C12_registered_prefix_first.

(* non-vacuity: foo_codec_2_error_quark is found through the get-type prefix, foo_web_error_quark through the
   underscored name, foo_orphan_quark has no enumeration *)
Example C12_quark_instance :
  let es := [{| qe_name := s "Codec2Error"; qe_prefix := Some (s "codec_2_error"); qe_domain := None |};
             {| qe_name := s "WebError"; qe_prefix := None; qe_domain := None |}] in
  let qs := [{| q_short := s "web_error"; q_domain := s "foo-web" |}; {| q_short := s "orphan"; q_domain := s "x" |};
             {| q_short := s "codec_2_error"; q_domain := s "foo-codec" |}] in
  map qe_domain (fst (pair_all es qs)) = [Some (s "foo-codec"); Some (s "foo-web")] /\ snd (pair_all es qs) = [s "orphan"].
Proof. vm_compute. split; reflexivity. Qed.
