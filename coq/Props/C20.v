(* C20 — the XML writer always produces well-formed, lossless XML.
   Model: Model/C20.v (giscanner/xmlwriter.py + saxutils.escape/quoteattr, byte-exact);
   reader side: Model/C20Spec.v.  Proofs: Proofs/C20.v. *)
From Coq Require Import List NArith ZArith Bool.
From GIV.Lib Require Import Regex Str.
From GIV.Model Require Import C20 C20Spec.
From GIV.Proofs Require Import C20.
Import ListNotations.
Local Open Scope N_scope.

(* text: escaping is inverted by reference decoding and leaves no markup character *)
Theorem C20_escape_inverse : forall s, unescape (escape s) = Some s.
Proof. exact unescape_escape. Qed.
Print Assumptions C20_escape_inverse.

Theorem C20_escape_no_markup : forall s, ~ In 60 (escape s) /\ ~ In 62 (escape s).
Proof. exact escape_no_markup. Qed.
Print Assumptions C20_escape_no_markup.

(* attribute values: quoted with a quote character that does not occur inside, no '<',
   no literal newline/CR/tab (so attribute-value normalisation cannot alter them), and
   decoding gives back the value *)
Theorem C20_quoteattr_inverse : forall v, exists q body,
  quoteattr v = q :: body ++ [q] /\ (q = 34 \/ q = 39) /\ ~ In q body /\ ~ In 60 body /\
  ~ In 10 body /\ ~ In 13 body /\ ~ In 9 body /\ unescape body = Some v.
Proof. exact quoteattr_shape. Qed.
Print Assumptions C20_quoteattr_inverse.

(* attribute lists: for every tag name, indentation and wrap decision (any line length),
   scanning the emitted text gives exactly the attributes that have a value, in order,
   with their exact values; valueless attributes are omitted *)
Theorem C20_attributes_roundtrip : forall tag attrs self_indent ichar indent,
  names_ok attrs -> forallb xml_ws ichar = true ->
  parse_attrs (collect_attributes tag attrs self_indent ichar indent) = Some (present attrs).
Proof. exact parse_collect. Qed.
Print Assumptions C20_attributes_roundtrip.

(* programs: whatever nesting of `with tagcontext` blocks, and wherever the body raises,
   the document is the rendering of an event list in which every opened element is
   closed in order *)
Theorem C20_balanced_on_abort : forall l, forallb ctx_only l = true ->
  let '(out, r) := run_program l in let '(evs, r') := events_list l in
  r = r' /\ out = xml_decl ++ fst (render 0 evs) /\ check evs [] = Some [].
Proof. exact run_program_spec. Qed.
Print Assumptions C20_balanced_on_abort.

(* non-vacuity: a nested program that aborts inside two open contexts *)
Example C20_nonvacuous :
  let p := [SCtx [97] [([120], Some [34;60]); ([121], None)]
              [SLeaf [98] [] (Some [38]); SCtx [99] [] [SRaise; SLeaf [100] [] None]]] in
  forallb ctx_only p = true /\ snd (run_program p) = true /\
  check (fst (events_list p)) [] = Some [] /\ length (fst (events_list p)) = 5%nat.
Proof. vm_compute. repeat split. Qed.
