(* C20 — the XML writer always produces well-formed, lossless XML.
   Model: Model/C20.v (giscanner/xmlwriter.py + saxutils.escape/quoteattr, byte-exact);
   reader side: Model/C20Spec.v (references, attribute lists) and Model/C20D.v (whole documents).
   Proofs: Proofs/C20.v, Proofs/C20D.v. *)
From Coq Require Import List NArith ZArith Bool.
From GIV.Lib Require Import Regex Str.
From GIV.Model Require Import C20 C20Spec C20D.
From GIV.Proofs Require Import C20 C20D.
Import ListNotations.
Local Open Scope N_scope.

(* text: escaping is inverted by reference decoding and leaves no markup character *)
Theorem C20_escape_inverse : forall s, unescape (escape s) = Some s.
Proof. exact unescape_escape. Qed.
Print Assumptions C20_escape_inverse.

Theorem C20_escape_no_markup : forall s, ~ In 60 (escape s) /\ ~ In 62 (escape s).
Proof. exact escape_no_markup. Qed.
Print Assumptions C20_escape_no_markup.

(* attribute values: quoted with a quote character that does not occur inside, no '<',
   no literal newline/CR/tab (so attribute-value normalisation cannot alter them), and
   decoding gives back the value *)
Theorem C20_quoteattr_inverse : forall v, exists q body,
  quoteattr v = q :: body ++ [q] /\ (q = 34 \/ q = 39) /\ ~ In q body /\ ~ In 60 body /\
  ~ In 10 body /\ ~ In 13 body /\ ~ In 9 body /\ unescape body = Some v.
Proof. exact quoteattr_shape. Qed.
Print Assumptions C20_quoteattr_inverse.

(* attribute lists: for every tag name, indentation and wrap decision (any line length),
   scanning the emitted text gives exactly the attributes that have a value, in order,
   with their exact values; valueless attributes are omitted *)
Theorem C20_attributes_roundtrip : forall tag attrs self_indent ichar indent,
  names_ok attrs -> forallb xml_ws ichar = true ->
  parse_attrs (collect_attributes tag attrs self_indent ichar indent) = Some (present attrs).
Proof. exact parse_collect. Qed.
Print Assumptions C20_attributes_roundtrip.

(* programs: whatever nesting of `with tagcontext` blocks, and wherever the body raises,
   the document is the rendering of an event list in which every opened element is
   closed in order *)
Theorem C20_balanced_on_abort : forall l, forallb ctx_only l = true ->
  let '(out, r) := run_program l in let '(evs, r') := events_list l in
  r = r' /\ out = xml_decl ++ fst (render 0 evs) /\ check evs [] = Some [].
Proof. exact run_program_spec. Qed.
Print Assumptions C20_balanced_on_abort.

(* non-vacuity: a nested program that aborts inside two open contexts *)
Example C20_nonvacuous :
  let p := [SCtx [97] [([120], Some [34;60]); ([121], None)]
              [SLeaf [98] [] (Some [38]); SCtx [99] [] [SRaise; SLeaf [100] [] None]]] in
  forallb ctx_only p = true /\ snd (run_program p) = true /\
  check (fst (events_list p)) [] = Some [] /\ length (fst (events_list p)) = 5%nat.
Proof. vm_compute. repeat split. Qed.

(* whole documents: for EVERY program of leaf elements, comments and `with tagcontext` blocks of any
   depth - element and attribute names being names (no blank, quote, '=', '<', '>', '/'; an element name
   not beginning with '!' or '?'), comment text free of the end mark "-->", attribute values and
   element text ARBITRARY strings - the reader of Model/C20D.v, written from XML 1.0, accepts the
   bytes the writer returns and reports exactly the elements in order and nesting, exactly the
   attributes that have a value with their exact values, exactly the text, and the writer's own
   line breaks and indentation as the character data they are (layout_doc states where). *)
Theorem C20_document_roundtrip : forall l, forallb pure l = true -> Forall wf l ->
  xml_parse (fst (run_program l)) = Some (layout_doc l).
Proof. exact document_roundtrip. Qed.
Print Assumptions C20_document_roundtrip.

(* the same with the reader's usual view, text made of blanks only being dropped: what comes back
   is the document the program describes (doc_of), nothing added and nothing lost - provided no
   element text consists of blanks only (such text cannot be told from indentation) *)
Theorem C20_document_meaning : forall l,
  forallb pure l = true -> Forall wf l -> forallb data_ok l = true ->
  exists d, xml_parse (fst (run_program l)) = Some d /\
            strip_all d = NPI decl_body :: flat_map doc_of l.
Proof. exact document_meaning. Qed.
Print Assumptions C20_document_meaning.

(* the hypothesis on comments follows from the plain statement "the text does not contain -->" *)
Theorem C20_comment_padding : forall x, no_cend x -> no_cend (32 :: x ++ [32]).
Proof. exact no_cend_padded. Qed.
Print Assumptions C20_comment_padding.

(* non-vacuity: a nested program with markup characters in values and text, a valueless attribute,
   a comment and an empty block satisfies the hypotheses, and its document has five elements *)
Example C20_document_nonvacuous :
  let p := [SCtx [97] [([120], Some [34;60;39;38;10]); ([121], None)]
              [SLeaf [98] [] (Some [38;60;62]); SComment [104;45;45;105];
               SCtx [99] [] [SLeaf [100] [([101], Some [49])] None]; SCtx [102] [] []]] in
  forallb pure p = true /\ Forall wf p /\ forallb data_ok p = true /\
  xml_parse (fst (run_program p)) = Some (layout_doc p) /\
  flat_map doc_of p =
    [NElem [97] [([120], [34;60;39;38;10])]
       [NElem [98] [] [NText [38;60;62]]; NComment [32;104;45;45;105;32];
        NElem [99] [] [NElem [100] [([101], [49])] []]; NElem [102] [] []]].
Proof.
  cbv zeta. split; [reflexivity|]. split.
  - repeat first [apply no_cend_dec; reflexivity | split | discriminate | reflexivity | constructor].
  - split; [reflexivity|]. split; [vm_compute; reflexivity|reflexivity].
Qed.

(* ... and when the writing code raises: the document is the one of the program cut at the first raise (every block entered so
   far closed by the `finally` of tagcontext), so it is still accepted by the reader and reports exactly what had been written *)
Theorem C20_document_roundtrip_abort : forall l, forallb ctx_only l = true -> Forall wf l ->
  xml_parse (fst (run_program l)) = Some (layout_doc (fst (cutl l))) /\ snd (run_program l) = snd (cutl l).
Proof. exact document_roundtrip_abort. Qed.
Print Assumptions C20_document_roundtrip_abort.

Example C20_abort_nonvacuous :
  let p := [SCtx [97] [([120], Some [34;60])]
              [SLeaf [98] [] (Some [38]); SCtx [99] [] [SLeaf [100] [] None; SRaise; SLeaf [101] [] None]; SLeaf [102] [] None]] in
  forallb ctx_only p = true /\ snd (run_program p) = true /\
  fst (cutl p) = [SCtx [97] [([120], Some [34;60])] [SLeaf [98] [] (Some [38]); SCtx [99] [] [SLeaf [100] [] None]]] /\
  xml_parse (fst (run_program p)) = Some (layout_doc (fst (cutl p))).
Proof. cbv zeta. repeat split; vm_compute; reflexivity. Qed.

(* lossless: two programs that make the writer return the same bytes describe the same document *)
Theorem C20_lossless : forall l1 l2,
  forallb pure l1 = true -> Forall wf l1 -> forallb data_ok l1 = true ->
  forallb pure l2 = true -> Forall wf l2 -> forallb data_ok l2 = true ->
  fst (run_program l1) = fst (run_program l2) -> flat_map doc_of l1 = flat_map doc_of l2.
Proof. exact same_bytes_same_document. Qed.
Print Assumptions C20_lossless.
