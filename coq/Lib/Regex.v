From Coq Require Import List NArith Bool Lia.
Import ListNotations.
Local Open Scope N_scope.

Definition str := list N.

Inductive cls :=
| CAny
| CChar (c : N)
| CRanges (l : list (N * N))
| CNot (c : cls)
| COr (a b : cls).

Fixpoint in_ranges (l : list (N * N)) (x : N) : bool :=
  match l with
  | [] => false
  | (lo, hi) :: t => if (lo <=? x) && (x <=? hi) then true else in_ranges t x      (* `if`: evaluated lazily by the VM *)
  end.

Fixpoint cls_mem (c : cls) (x : N) : bool :=
  match c with
  | CAny => true
  | CChar y => N.eqb x y
  | CRanges l => in_ranges l x
  | CNot c' => negb (cls_mem c' x)
  | COr a b => if cls_mem a x then true else cls_mem b x
  end.

Inductive re :=
| Empty | Eps
| Cls (c : cls)
| Cat (r1 r2 : re)
| Alt (r1 r2 : re)
| Star (r : re).

Fixpoint Lit (s : str) : re :=
  match s with
  | [] => Eps
  | c :: t => Cat (Cls (CChar c)) (Lit t)
  end.
Definition Opt (r : re) := Alt Eps r.

Inductive L : re -> str -> Prop :=
| LEps : L Eps []
| LCls c x : cls_mem c x = true -> L (Cls c) [x]
| LCat r1 r2 s1 s2 : L r1 s1 -> L r2 s2 -> L (Cat r1 r2) (s1 ++ s2)
| LAltL r1 r2 s : L r1 s -> L (Alt r1 r2) s
| LAltR r1 r2 s : L r2 s -> L (Alt r1 r2) s
| LStar0 r : L (Star r) []
| LStarS r s1 s2 : L r s1 -> L (Star r) s2 -> L (Star r) (s1 ++ s2).

Fixpoint nullable (r : re) : bool :=
  match r with
  | Empty => false | Eps => true | Cls _ => false
  | Cat a b => nullable a && nullable b
  | Alt a b => nullable a || nullable b
  | Star _ => true
  end.

Fixpoint deriv (x : N) (r : re) : re :=
  match r with
  | Empty => Empty | Eps => Empty
  | Cls c => if cls_mem c x then Eps else Empty
  | Cat a b => if nullable a then Alt (Cat (deriv x a) b) (deriv x b) else Cat (deriv x a) b
  | Alt a b => Alt (deriv x a) (deriv x b)
  | Star a => Cat (deriv x a) (Star a)
  end.

Fixpoint rmatch (r : re) (s : str) : bool :=
  match s with
  | [] => nullable r
  | x :: t => rmatch (deriv x r) t
  end.

Lemma L_cat_inv r1 r2 s : L (Cat r1 r2) s -> exists s1 s2, s = s1 ++ s2 /\ L r1 s1 /\ L r2 s2.
Proof. intro H; inversion H; subst; eauto. Qed.
Lemma L_alt_inv r1 r2 s : L (Alt r1 r2) s -> L r1 s \/ L r2 s.
Proof. intro H; inversion H; subst; auto. Qed.
Lemma L_cls_inv c s : L (Cls c) s -> exists x, s = [x] /\ cls_mem c x = true.
Proof. intro H; inversion H; subst; eauto. Qed.
Lemma L_eps_inv s : L Eps s -> s = [].
Proof. intro H; inversion H; reflexivity. Qed.
Lemma L_empty_inv s : L Empty s -> False.
Proof. intro H; inversion H. Qed.

Lemma nullable_spec r : nullable r = true <-> L r [].
Proof.
  induction r as [| |c|a IHa b IHb|a IHa b IHb|a IHa]; simpl; split; intro H;
    try discriminate; try (constructor; fail).
  - exfalso; eapply L_empty_inv; eauto.
  - apply L_cls_inv in H as (x & Hx & _). discriminate.
  - apply andb_true_iff in H as [Ha Hb].
    change (@nil N) with (@nil N ++ []). constructor; [apply IHa|apply IHb]; assumption.
  - apply L_cat_inv in H as (s1 & s2 & Heq & H1 & H2). symmetry in Heq.
    apply app_eq_nil in Heq as [-> ->]. apply andb_true_iff; split; [apply IHa|apply IHb]; assumption.
  - apply orb_true_iff in H as [Ha|Hb]; [apply LAltL, IHa|apply LAltR, IHb]; assumption.
  - apply L_alt_inv in H as [H|H]; apply orb_true_iff; [left; apply IHa|right; apply IHb]; assumption.
Qed.

Lemma star_cons r x s : L (Star r) (x :: s) ->
  exists s1 s2, s = s1 ++ s2 /\ L r (x :: s1) /\ L (Star r) s2.
Proof.
  intro H. remember (Star r) as r' eqn:Hr. remember (x :: s) as w eqn:Hw.
  revert x s Hw. induction H as [| | | | | |r0 s1 s2 H1 _ H2 IH2]; try discriminate; intros x s Hw.
  injection Hr as ->.
  destruct s1 as [|y s1'].
  - simpl in Hw. apply IH2; auto.
  - simpl in Hw. injection Hw as -> <-. exists s1', s2. auto.
Qed.

Lemma deriv_spec r : forall x s, L (deriv x r) s <-> L r (x :: s).
Proof.
  induction r as [| |c|a IHa b IHb|a IHa b IHb|a IHa]; intros x s; simpl.
  - split; intro H; exfalso; eapply L_empty_inv; eauto.
  - split; intro H; [exfalso; eapply L_empty_inv; eauto|apply L_eps_inv in H; discriminate].
  - destruct (cls_mem c x) eqn:E; split; intro H.
    + apply L_eps_inv in H as ->. constructor; assumption.
    + apply L_cls_inv in H as (y & Hy & _). injection Hy as -> ->. constructor.
    + exfalso; eapply L_empty_inv; eauto.
    + apply L_cls_inv in H as (y & Hy & Hm). injection Hy as -> ->. congruence.
  - destruct (nullable a) eqn:En; split; intro H.
    + apply L_alt_inv in H as [H|H].
      * apply L_cat_inv in H as (s1 & s2 & -> & Ha & Hb).
        change (x :: s1 ++ s2) with ((x :: s1) ++ s2). constructor; [apply IHa|]; assumption.
      * change (x :: s) with ([] ++ x :: s). constructor; [apply nullable_spec; assumption|apply IHb; assumption].
    + apply L_cat_inv in H as (s1 & s2 & Heq & Ha & Hb).
      destruct s1 as [|y s1'].
      * simpl in Heq. subst. apply LAltR. apply IHb. assumption.
      * simpl in Heq. injection Heq as <- ->. apply LAltL. constructor; [apply IHa|]; assumption.
    + apply L_cat_inv in H as (s1 & s2 & -> & Ha & Hb).
      change (x :: s1 ++ s2) with ((x :: s1) ++ s2). constructor; [apply IHa|]; assumption.
    + apply L_cat_inv in H as (s1 & s2 & Heq & Ha & Hb).
      destruct s1 as [|y s1'].
      * apply nullable_spec in Ha. congruence.
      * simpl in Heq. injection Heq as <- ->. constructor; [apply IHa|]; assumption.
  - split; intro H; apply L_alt_inv in H as [H|H]; [apply LAltL, IHa|apply LAltR, IHb|apply LAltL, IHa|apply LAltR, IHb]; assumption.
  - split; intro H.
    + apply L_cat_inv in H as (s1 & s2 & -> & Ha & Hb).
      change (x :: s1 ++ s2) with ((x :: s1) ++ s2). constructor; [apply IHa|]; assumption.
    + apply star_cons in H as (s1 & s2 & -> & H1 & H2). constructor; [apply IHa|]; assumption.
Qed.

Theorem rmatch_spec : forall s r, rmatch r s = true <-> L r s.
Proof.
  induction s as [|x t IH]; intro r; simpl.
  - apply nullable_spec.
  - rewrite IH. apply deriv_spec.
Qed.
