From Coq Require Import List NArith Bool Lia PeanoNat.
From GIV.Lib Require Import Regex.
From GIV.Gen Require Import Unicode.
Import ListNotations.
Local Open Scope N_scope.

(* Python `str` as a list of code points, with the edge cases of the CPython
   operations the scanner uses. Character tables come from Gen/Unicode.v, which is
   regenerated from the running interpreter. *)

Definition is_space (c : N) : bool := existsb (N.eqb c) py_space_points.
Definition is_linebreak (c : N) : bool := existsb (N.eqb c) py_linebreak_points.

Fixpoint str_eqb (a b : str) : bool :=
  match a, b with
  | [], [] => true
  | x :: a', y :: b' => N.eqb x y && str_eqb a' b'
  | _, _ => false
  end.

Lemma str_eqb_eq a b : str_eqb a b = true <-> a = b.
Proof.
  revert b; induction a as [|x a IH]; intros [|y b]; simpl; split; intro H; try discriminate; auto.
  - apply andb_true_iff in H as [H1 H2]. apply N.eqb_eq in H1. apply IH in H2. congruence.
  - injection H as -> ->. rewrite N.eqb_refl. simpl. apply IH. reflexivity.
Qed.
Lemma str_eqb_refl a : str_eqb a a = true.
Proof. apply str_eqb_eq. reflexivity. Qed.

(* str.split() with no argument *)
Fixpoint split_ws_aux (s : str) (cur : str) : list str :=
  match s with
  | [] => match cur with [] => [] | _ => [rev cur] end
  | c :: t =>
      if is_space c then
        match cur with [] => split_ws_aux t [] | _ => rev cur :: split_ws_aux t [] end
      else split_ws_aux t (c :: cur)
  end.
Definition split_ws (s : str) : list str := split_ws_aux s [].

(* str.splitlines() *)
Fixpoint splitlines_aux (s : str) (cur : str) (after_cr : bool) : list str :=
  match s with
  | [] => match cur with [] => [] | _ => [rev cur] end
  | c :: t =>
      if after_cr && N.eqb c 10 then splitlines_aux t cur false
      else if is_linebreak c then rev cur :: splitlines_aux t [] (N.eqb c 13)
      else splitlines_aux t (c :: cur) false
  end.
Definition splitlines (s : str) : list str := splitlines_aux s [] false.

Fixpoint startswith (p s : str) : bool :=
  match p, s with
  | [], _ => true
  | x :: p', y :: s' => N.eqb x y && startswith p' s'
  | _, [] => false
  end.
Definition endswith (p s : str) : bool := startswith (rev p) (rev s).

Definition last_char (s : str) : option N :=
  match rev s with [] => None | c :: _ => Some c end.

(* os.path.basename (posixpath): everything after the last '/' *)
Fixpoint basename_aux (s : str) (cur : str) : str :=
  match s with
  | [] => rev cur
  | c :: t => if N.eqb c 47 then basename_aux t [] else basename_aux t (c :: cur)
  end.
Definition basename (s : str) : str := basename_aux s [].

Fixpoint join (sep : str) (l : list str) : str :=
  match l with
  | [] => []
  | [x] => x
  | x :: t => x ++ sep ++ join sep t
  end.

Lemma startswith_app p s : startswith p (p ++ s) = true.
Proof. induction p as [|x p IH]; simpl; [reflexivity|]. rewrite N.eqb_refl. exact IH. Qed.
Lemma startswith_spec p s : startswith p s = true <-> exists r, s = p ++ r.
Proof.
  revert s; induction p as [|x p IH]; intro s; simpl.
  - split; [intros _; exists s; reflexivity|reflexivity].
  - destruct s as [|y s]; [split; [discriminate|intros (r & Hr); discriminate]|].
    rewrite andb_true_iff, N.eqb_eq, IH. split.
    + intros (-> & r & ->). exists r. reflexivity.
    + intros (r & Hr). injection Hr as -> ->. split; [reflexivity|exists r; reflexivity].
Qed.

Lemma basename_aux_no_slash s : forall cur, Forall (fun x => x <> 47) cur ->
  Forall (fun x => x <> 47) (basename_aux s cur).
Proof.
  induction s as [|c t IH]; intros cur H; simpl.
  - apply Forall_rev. exact H.
  - destruct (N.eqb c 47) eqn:E; [apply IH; constructor|].
    apply IH. constructor; [apply N.eqb_neq; exact E|exact H].
Qed.
Lemma basename_no_slash s : Forall (fun x => x <> 47) (basename s).
Proof. apply basename_aux_no_slash. constructor. Qed.

Lemma basename_aux_suffix s : forall cur, exists pre, rev cur ++ s = pre ++ basename_aux s cur.
Proof.
  induction s as [|c t IH]; intros cur; simpl.
  - exists []. rewrite app_nil_r. reflexivity.
  - destruct (N.eqb c 47).
    + destruct (IH []) as (pre & Hpre). simpl in Hpre. exists (rev cur ++ c :: pre).
      rewrite <- app_assoc. simpl. f_equal. f_equal. exact Hpre.
    + destruct (IH (c :: cur)) as (pre & Hpre). exists pre. rewrite <- Hpre. simpl.
      rewrite <- app_assoc. reflexivity.
Qed.
Lemma basename_suffix s : exists pre, s = pre ++ basename s.
Proof. destruct (basename_aux_suffix s []) as (pre & H). exists pre. exact H. Qed.
