From Coq Require Import List NArith Bool Lia.
From GIV.Lib Require Import Regex.
Import ListNotations.
Local Open Scope N_scope.

(* --- generic language lemmas --- *)
Lemma L_lit s w : L (Lit s) w <-> w = s.
Proof.
  revert w; induction s as [|c t IH]; intro w; simpl; split; intro H.
  - apply L_eps_inv in H; assumption.
  - subst; constructor.
  - apply L_cat_inv in H as (s1 & s2 & -> & H1 & H2).
    apply L_cls_inv in H1 as (x & -> & Hx). simpl in Hx. apply N.eqb_eq in Hx as ->.
    apply IH in H2 as ->. reflexivity.
  - subst. change (c :: t) with ([c] ++ t). constructor.
    + constructor. simpl. apply N.eqb_refl.
    + apply IH; reflexivity.
Qed.

Lemma L_star_cls c w : L (Star (Cls c)) w <-> Forall (fun x => cls_mem c x = true) w.
Proof.
  split.
  - intro H. remember (Star (Cls c)) as r eqn:Hr.
    induction H as [| | | | | |r0 s1 s2 H1 _ H2 IH2]; try discriminate.
    + constructor.
    + injection Hr as ->. apply L_cls_inv in H1 as (x & -> & Hx). simpl. constructor; auto.
  - induction 1 as [|x t Hx _ IH].
    + constructor.
    + change (x :: t) with ([x] ++ t). constructor; [constructor; assumption|assumption].
Qed.

Lemma L_opt r w : L (Opt r) w <-> w = [] \/ L r w.
Proof.
  unfold Opt; split; intro H.
  - apply L_alt_inv in H as [H|H]; [left; apply L_eps_inv; assumption|right; assumption].
  - destruct H as [->|H]; [apply LAltL; constructor|apply LAltR; assumption].
Qed.

Lemma L_cat r1 r2 w : L (Cat r1 r2) w <-> exists s1 s2, w = s1 ++ s2 /\ L r1 s1 /\ L r2 s2.
Proof. split; [apply L_cat_inv|intros (s1 & s2 & -> & H1 & H2); constructor; assumption]. Qed.

Lemma L_cls c w : L (Cls c) w <-> exists x, w = [x] /\ cls_mem c x = true.
Proof. split; [apply L_cls_inv|intros (x & -> & H); constructor; assumption]. Qed.

