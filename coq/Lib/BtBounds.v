From Coq Require Import List NArith Bool Lia PeanoNat.
From GIV.Lib Require Import Regex Backtrack.
Import ListNotations.

Definition caps_ok (total : nat) (cs : caps) : Prop :=
  Forall (fun e => fst (snd e) <= snd (snd e) /\ snd (snd e) <= total) cs.

(* continuation contract relative to the position it was created at *)
Definition K_ok (total pos : nat) (k : K) : Prop :=
  forall s' p' c' r', pos <= p' -> p' + length s' = total -> caps_ok total c' ->
    k s' p' c' = Some r' -> caps_ok total r'.

Lemma K_ok_mono total pos pos' k : pos <= pos' -> K_ok total pos k -> K_ok total pos' k.
Proof. intros Hle Hk s' p' c' r' Hp. apply Hk. lia. Qed.

Definition star_fix (ba : str -> nat -> caps -> K -> option caps) (g : bool) (k : K) :=
  fix star (n : nat) (s : str) (pos : nat) (cs : caps) {struct n} : option caps :=
    match n with
    | O => k s pos cs
    | S n' =>
        let again := ba s pos cs (fun s' p' c' => if Nat.eqb p' pos then None else star n' s' p' c') in
        if g then match again with Some c => Some c | None => k s pos cs end
        else match k s pos cs with Some c => Some c | None => again end
    end.

Lemma bm_star_unfold g a s pos cs k :
  bm (BStar g a) s pos cs k = star_fix (bm a) g k (S (length s)) s pos cs.
Proof. reflexivity. Qed.

Definition R_ok (total : nat) (f : str -> nat -> caps -> K -> option caps) : Prop :=
  forall k s pos cs res, pos + length s = total -> caps_ok total cs -> K_ok total pos k ->
    f s pos cs k = Some res -> caps_ok total res.

Lemma star_ok total ba g : R_ok total ba ->
  forall n k s pos cs res, pos + length s = total -> caps_ok total cs -> K_ok total pos k ->
    star_fix ba g k n s pos cs = Some res -> caps_ok total res.
Proof.
  intros Hba. induction n as [|n IHn]; intros k s pos cs res Hlen Hcs Hk H; simpl in H.
  - eapply Hk; eauto.
  - set (ag := ba s pos cs (fun s' p' c' => if Nat.eqb p' pos then None else star_fix ba g k n s' p' c')) in *.
    assert (Hag : forall r', ag = Some r' -> caps_ok total r').
    { intros r' Hr'. unfold ag in Hr'. eapply Hba; [exact Hlen|exact Hcs| |exact Hr'].
      intros s' p' c' r'' Hp Hl' Hc' H'. destruct (Nat.eqb p' pos); [discriminate|].
      eapply IHn; [exact Hl'|exact Hc'| |exact H']. eapply K_ok_mono; [|exact Hk]. exact Hp. }
    destruct g.
    + destruct ag as [r'|] eqn:E; [injection H as <-; apply Hag; reflexivity|eapply Hk; eauto].
    + destruct (k s pos cs) as [r'|] eqn:E; [injection H as <-; eapply Hk; eauto|apply Hag; assumption].
Qed.

Lemma bm_ok : forall (r : bre) total, R_ok total (bm r).
Proof.
  induction r as [|c|a IHa b IHb|a IHa b IHb|g a IHa|g a IHa|id a IHa| | |a IHa];
    intros total k s pos cs res Hlen Hcs Hk H.
  - simpl in H. eapply Hk; eauto.
  - simpl in H. destruct s as [|x t]; [discriminate|]. destruct (cls_mem c x); [|discriminate].
    eapply Hk; [| | |exact H]; simpl in *; [lia|lia|assumption].
  - simpl in H. eapply IHa; [exact Hlen|exact Hcs| |exact H].
    intros s' p' c' r' Hp Hl' Hc' H'. eapply IHb; [exact Hl'|exact Hc'| |exact H'].
    eapply K_ok_mono; [|exact Hk]. exact Hp.
  - simpl in H. destruct (bm a s pos cs k) eqn:E.
    + injection H as <-. eapply IHa; eauto.
    + eapply IHb; eauto.
  - rewrite bm_star_unfold in H. eapply star_ok; [apply IHa| | | |exact H]; assumption.
  - simpl in H. destruct g.
    + destruct (bm a s pos cs k) eqn:E; [injection H as <-; eapply IHa; eauto|eapply Hk; eauto].
    + destruct (k s pos cs) eqn:E; [injection H as <-; eapply Hk; eauto|eapply IHa; eauto].
  - simpl in H. eapply IHa; [exact Hlen|exact Hcs| |exact H].
    intros s' p' c' r' Hp Hl' Hc' H'. eapply Hk; [exact Hp|exact Hl'| |exact H'].
    constructor; [|assumption]. simpl. split; lia.
  - simpl in H. destruct (Nat.eqb pos 0); [eapply Hk; eauto|discriminate].
  - simpl in H. destruct s as [|x t]; [eapply Hk; eauto|].
    destruct (N.eqb x 10 && match t with [] => true | _ => false end)%bool; [eapply Hk; eauto|discriminate].
  - simpl in H. destruct (bm a s pos cs (fun _ _ c' => Some c')); [discriminate|eapply Hk; eauto].
Qed.

Theorem bmatch_at_caps_in_bounds r s pos res :
  bmatch_at r s pos = Some res ->
  Forall (fun e => fst (snd e) <= snd (snd e) /\ snd (snd e) <= pos + length s) res.
Proof.
  unfold bmatch_at. intro H.
  apply (bm_ok r (pos + length s) (fun _ p c => Some ((0, (pos, p)) :: c)) s pos [] res);
    [reflexivity|constructor| |exact H].
  intros s' p' c' r' Hp Hl Hc' H'. injection H' as <-. constructor; [simpl; lia|exact Hc'].
Qed.

Theorem bm_caps_in_bounds r s res :
  bmatch r s = Some res ->
  Forall (fun e => fst (snd e) <= snd (snd e) /\ snd (snd e) <= length s) res.
Proof. intro H. apply bmatch_at_caps_in_bounds in H. exact H. Qed.

Theorem bsearch_caps_in_bounds r : forall s pos res,
  bsearch_from r s pos = Some res ->
  Forall (fun e => fst (snd e) <= snd (snd e) /\ snd (snd e) <= pos + length s) res.
Proof.
  induction s as [|x t IH]; intros pos res H; simpl in H.
  - destruct (bmatch_at r [] pos) eqn:E; [|discriminate]. injection H as <-.
    apply bmatch_at_caps_in_bounds in E. exact E.
  - destruct (bmatch_at r (x :: t) pos) eqn:E.
    + injection H as <-. apply bmatch_at_caps_in_bounds in E. exact E.
    + apply IH in H. simpl. replace (pos + S (length t)) with (S pos + length t) by lia. exact H.
Qed.
