From Coq Require Import List NArith Bool Lia PeanoNat.
From GIV.Lib Require Import Regex.
Import ListNotations.

(* Backtracking matcher with CPython `re` priorities and capture groups.
   Captures: association list group-id -> (start, end), latest binding first.
   Positions are offsets into the whole subject; [s] is the remaining suffix. *)
Inductive bre :=
| BEps
| BCls (c : cls)
| BCat (a b : bre)
| BAlt (a b : bre)              (* ordered choice *)
| BStar (greedy : bool) (a : bre)
| BOpt (greedy : bool) (a : bre)
| BGroup (id : nat) (a : bre)
| BBol | BEol
| BNotAhead (a : bre).

Definition caps := list (nat * (nat * nat)).
Definition K := str -> nat -> caps -> option caps.

Fixpoint bm (r : bre) (s : str) (pos : nat) (cs : caps) (k : K) {struct r} : option caps :=
  match r with
  | BEps => k s pos cs
  | BCls c => match s with
              | x :: t => if cls_mem c x then k t (S pos) cs else None
              | [] => None
              end
  | BCat a b => bm a s pos cs (fun s' p' c' => bm b s' p' c' k)
  | BAlt a b => match bm a s pos cs k with
                | Some c => Some c
                | None => bm b s pos cs k
                end
  | BStar greedy a =>
      (fix star (n : nat) (s : str) (pos : nat) (cs : caps) {struct n} : option caps :=
         match n with
         | O => k s pos cs
         | S n' =>
             let again := bm a s pos cs (fun s' p' c' => if Nat.eqb p' pos then None else star n' s' p' c') in
             if greedy then
               match again with Some c => Some c | None => k s pos cs end
             else
               match k s pos cs with Some c => Some c | None => again end
         end) (S (length s)) s pos cs
  | BOpt greedy a =>
      if greedy then
        match bm a s pos cs k with Some c => Some c | None => k s pos cs end
      else
        match k s pos cs with Some c => Some c | None => bm a s pos cs k end
  | BGroup id a => bm a s pos cs (fun s' p' c' => k s' p' ((id, (pos, p')) :: c'))
  | BBol => if Nat.eqb pos 0 then k s pos cs else None
  | BEol => match s with
            | [] => k s pos cs
            | x :: t =>                (* `$` also matches just before a final newline *)
                if (N.eqb x 10 && match t with [] => true | _ => false end)%bool
                then k s pos cs else None
            end
  | BNotAhead a => match bm a s pos cs (fun _ _ c' => Some c') with
                   | Some _ => None
                   | None => k s pos cs
                   end
  end.

(* re.match: anchored at the start, group 0 = (0, end) *)
Definition bmatch_at (r : bre) (s : str) (pos : nat) : option caps :=
  bm r s pos [] (fun _ p c => Some ((0, (pos, p)) :: c)).
Definition bmatch (r : bre) (s : str) : option caps := bmatch_at r s 0.

(* re.search: leftmost start position *)
Fixpoint bsearch_from (r : bre) (s : str) (pos : nat) {struct s} : option caps :=
  match bmatch_at r s pos with
  | Some c => Some c
  | None => match s with
            | [] => None
            | _ :: t => bsearch_from r t (S pos)
            end
  end.
Definition bsearch (r : bre) (s : str) : option caps := bsearch_from r s 0.

Fixpoint lookup (id : nat) (cs : caps) : option (nat * nat) :=
  match cs with
  | [] => None
  | (i, se) :: t => if Nat.eqb i id then Some se else lookup id t
  end.

Definition slice (s : str) (a b : nat) : str := firstn (b - a) (skipn a s).
Definition group (id : nat) (s : str) (cs : caps) : option str :=
  match lookup id cs with Some (a, b) => Some (slice s a b) | None => None end.
