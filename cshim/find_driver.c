/* find_driver <typelib-file> <probes-file> [noindex]: loads the typelib from memory (with the
   directory-index section id patched away when `noindex` is given, which forces the linear
   path) and answers probes through the public API:
     N <name>    g_irepository_find_by_name         -> name of the info found, or -
     G <gtype>   g_irepository_find_by_gtype (the GType is registered on the fly as a boxed type)
     E <domain>  g_irepository_find_by_error_domain
     T <gtype>   g_typelib_get_dir_entry_by_gtype_name (typelib level)
   With `lazy` (may be combined: `lazynoindex`) every G and E probe is first asked of the still empty
   repository (all miss), the typelib is then loaded with G_IREPOSITORY_LOAD_FLAG_LAZY, and the probes
   are asked again: an earlier miss must not outlive the load.
   First prints the directory: D <i> <name> for every info. */
#include <girepository.h>
#include "gitypelib-internal.h"
#include <stdio.h>
#include <string.h>

static gpointer cp (gpointer p) { return p; }
static void fr (gpointer p) { }

int main (int argc, char **argv)
{
  gchar *data; gsize len; GError *err = NULL;
  setvbuf (stdout, NULL, _IONBF, 0);
  if (!g_file_get_contents (argv[1], &data, &len, NULL)) return 2;
  int lazy = argc > 3 && strstr (argv[3], "lazy") != NULL;
  if (argc > 3 && strstr (argv[3], "noindex") != NULL)
    {
      Header *h = (Header *) data;
      if (h->sections)
        for (Section *s = (Section *) &data[h->sections]; s->id != GI_SECTION_END; s++)
          if (s->id == GI_SECTION_DIRECTORY_INDEX) s->id = 0x7ffffffe;
    }
  GITypelib *t = g_typelib_new_from_memory ((guint8 *) data, len, &err);
  if (!t) { printf ("BAD %s\n", err->message); return 3; }
  { gchar *dir = g_path_get_dirname (argv[1]); g_irepository_prepend_search_path (dir); }   /* dependencies live beside it */
  gchar *pdata; gsize plen;
  if (!g_file_get_contents (argv[2], &pdata, &plen, NULL)) return 2;
  char **probes = g_strsplit (pdata, "\n", 0);
  if (lazy)
    for (char **p = probes; *p; p++)
      {
        const char *s = *p; if (!s[0]) continue;
        const char *arg = s + 2; GIBaseInfo *info = NULL;
        if (s[0] == 'G')
          { GType gt = g_type_from_name (arg); if (!gt) gt = g_boxed_type_register_static (g_strdup (arg), cp, fr);
            info = g_irepository_find_by_gtype (NULL, gt); }
        else if (s[0] == 'E') info = (GIBaseInfo *) g_irepository_find_by_error_domain (NULL, g_quark_from_string (arg));
        if (info) { printf ("BAD the empty repository found %s\n", arg); return 3; }
      }
  const char *ns = g_irepository_load_typelib (NULL, t, lazy ? G_IREPOSITORY_LOAD_FLAG_LAZY : 0, &err);
  if (!ns) { printf ("BAD %s\n", err->message); return 3; }
  int n = g_irepository_get_n_infos (NULL, ns);
  for (int i = 0; i < n; i++)
    { GIBaseInfo *info = g_irepository_get_info (NULL, ns, i); printf ("D %d %s\n", i, g_base_info_get_name (info)); g_base_info_unref (info); }
  for (char **p = probes; *p; p++)
    {
      const char *s = *p; if (!s[0]) continue;
      const char *arg = s + 2; GIBaseInfo *info = NULL;
      if (s[0] == 'N') info = g_irepository_find_by_name (NULL, ns, arg);
      else if (s[0] == 'G')
        { GType gt = g_type_from_name (arg); if (!gt) gt = g_boxed_type_register_static (g_strdup (arg), cp, fr);
          info = g_irepository_find_by_gtype (NULL, gt); }
      else if (s[0] == 'E') info = (GIBaseInfo *) g_irepository_find_by_error_domain (NULL, g_quark_from_string (arg));
      else if (s[0] == 'L')
        { DirEntry *e = g_typelib_get_dir_entry_by_name (t, arg);
          printf ("%c %s\n", s[0], e ? g_typelib_get_string (t, e->name) : "-"); continue; }
      else if (s[0] == 'T')
        { DirEntry *e = g_typelib_get_dir_entry_by_gtype_name (t, arg);
          printf ("%c %s\n", s[0], e ? g_typelib_get_string (t, e->name) : "-"); continue; }
      printf ("%c %s\n", s[0], info ? g_base_info_get_name (info) : "-");
    }
  return 0;
}
