/* Prints the platform constants giroffsets.c depends on: sizeof/signedness of its probe
   enums Enum1..Enum9 and the ffi size/alignment of every type tag. */
#include "girepository/giroffsets.c"
#include <stdio.h>
#define E(n) printf ("enum %d %d %d\n", n, (int) sizeof (Enum##n), (int) ((gint64)(Enum##n)(-1) < 0))
int main (void)
{
  E(1); E(2); E(3); E(4); E(5); E(6); E(7); E(8); E(9);
  for (int tag = 0; tag <= GI_TYPE_TAG_UNICHAR; tag++)
    {
      ffi_type *t = gi_type_tag_get_ffi_type (tag, FALSE);
      printf ("tag %d %s %d %d %d %d\n", tag, g_type_tag_to_string (tag), (int) t->size, (int) t->alignment,
              t == &ffi_type_void, t == &ffi_type_pointer);
    }
  printf ("pointer %d %d\n", (int) ffi_type_pointer.size, (int) ffi_type_pointer.alignment);
  printf ("limits %d %d %d %ld\n", G_MINSHORT, G_MAXSHORT, G_MAXUSHORT, (long) G_MAXINT);
  return 0;
}
