/* api_dump <dir> <namespace>: walks the whole public repository API over a compiled typelib
   and prints a canonical, line-based description (one line per fact, indentation = nesting).
   The same format is produced from the GIR model by harness/girgen.py. */
#include <girepository.h>
#include <stdio.h>
#include <string.h>

static void ind (int d) { for (int i = 0; i < d; i++) fputs ("  ", stdout); }
static const char *nz (const char *s) { return s ? s : "-"; }

static void dump_type (GITypeInfo *t)
{
  GITypeTag tag = g_type_info_get_tag (t);
  switch (tag)
    {
    case GI_TYPE_TAG_ARRAY:
      {
        GITypeInfo *p = g_type_info_get_param_type (t, 0);
        printf ("array[%d,zero=%d,len=%d,fixed=%d,ptr=%d](", (int) g_type_info_get_array_type (t),
                g_type_info_is_zero_terminated (t), g_type_info_get_array_length (t),
                g_type_info_get_array_fixed_size (t), g_type_info_is_pointer (t));
        if (p) { dump_type (p); g_base_info_unref (p); } else printf ("?");
        printf (")");
        break;
      }
    case GI_TYPE_TAG_INTERFACE:
      {
        GIBaseInfo *i = g_type_info_get_interface (t);
        printf ("iface(%s.%s,ptr=%d)", i ? nz (g_base_info_get_namespace (i)) : "?", i ? nz (g_base_info_get_name (i)) : "?",
                g_type_info_is_pointer (t));
        if (i) g_base_info_unref (i);
        break;
      }
    case GI_TYPE_TAG_GLIST: case GI_TYPE_TAG_GSLIST:
      {
        GITypeInfo *p = g_type_info_get_param_type (t, 0);
        printf ("%s(", g_type_tag_to_string (tag));
        if (p) { dump_type (p); g_base_info_unref (p); } else printf ("?");
        printf (")");
        break;
      }
    case GI_TYPE_TAG_GHASH:
      {
        GITypeInfo *k = g_type_info_get_param_type (t, 0), *v = g_type_info_get_param_type (t, 1);
        printf ("ghash(");
        if (k) { dump_type (k); g_base_info_unref (k); } else printf ("?");
        printf (",");
        if (v) { dump_type (v); g_base_info_unref (v); } else printf ("?");
        printf (")");
        break;
      }
    default:
      printf ("%s%s", g_type_tag_to_string (tag), g_type_info_is_pointer (t) ? "*" : "");
    }
}

static void dump_attrs (GIBaseInfo *info, int d)
{
  GIAttributeIter it = { 0, };
  char *k, *v;
  while (g_base_info_iterate_attributes (info, &it, &k, &v))
    {
      const char *again = g_base_info_get_attribute (info, k);
      ind (d); printf ("T %s=%s byname=%s\n", k, v, nz (again));
    }
}

static void dump_callable (GICallableInfo *c, int d)
{
  GITypeInfo *rt = g_callable_info_get_return_type (c);
  ind (d); printf ("R transfer=%d null=%d skip=%d throws=%d method=%d type=", (int) g_callable_info_get_caller_owns (c),
                   g_callable_info_may_return_null (c), g_callable_info_skip_return (c),
                   g_callable_info_can_throw_gerror (c), g_callable_info_is_method (c));
  dump_type (rt); printf ("\n");
  g_base_info_unref (rt);
  {
    /* attributes of the return value */
    GIAttributeIter it = { 0, };
    char *k, *v;
    while (g_callable_info_iterate_return_attributes (c, &it, &k, &v))
      {
        const char *again = g_callable_info_get_return_attribute (c, k);
        ind (d + 1); printf ("T %s=%s byname=%s\n", k, v, nz (again));
      }
  }
  int n = g_callable_info_get_n_args (c);
  for (int i = 0; i < n; i++)
    {
      GIArgInfo *a = g_callable_info_get_arg (c, i);
      GITypeInfo *t = g_arg_info_get_type (a);
      ind (d); printf ("A %s dir=%d transfer=%d null=%d opt=%d calleralloc=%d skip=%d ret=%d scope=%d closure=%d destroy=%d type=",
                       nz (g_base_info_get_name (a)), (int) g_arg_info_get_direction (a),
                       (int) g_arg_info_get_ownership_transfer (a), g_arg_info_may_be_null (a), g_arg_info_is_optional (a),
                       g_arg_info_is_caller_allocates (a), g_arg_info_is_skip (a), g_arg_info_is_return_value (a),
                       (int) g_arg_info_get_scope (a), g_arg_info_get_closure (a), g_arg_info_get_destroy (a));
      dump_type (t); printf ("\n");
      dump_attrs (a, d + 1);
      g_base_info_unref (t); g_base_info_unref (a);
    }
}

static void dump_info (GIBaseInfo *info, int d);

static void dump_field (GIFieldInfo *f, int d)
{
  GITypeInfo *t = g_field_info_get_type (f);
  ind (d); printf ("F %s flags=%d offset=%d size=%d type=", nz (g_base_info_get_name (f)), (int) g_field_info_get_flags (f),
                   g_field_info_get_offset (f), g_field_info_get_size (f));
  dump_type (t); printf ("\n");
  if (g_type_info_get_tag (t) == GI_TYPE_TAG_INTERFACE)
    {
      GIBaseInfo *i = g_type_info_get_interface (t);
      /* an embedded callback (stored right after the FieldBlob) has the type info as container */
      if (i && g_base_info_get_type (i) == GI_INFO_TYPE_CALLBACK && g_base_info_get_container (i) != NULL
          && g_base_info_get_type (g_base_info_get_container (i)) == GI_INFO_TYPE_TYPE)
        dump_info (i, d + 1);
      if (i) g_base_info_unref (i);
    }
  dump_attrs (f, d + 1);
  g_base_info_unref (t);
}

static void dump_registered (GIBaseInfo *info)
{
  printf (" gtype=%s init=%s", nz (g_registered_type_info_get_type_name (info)), nz (g_registered_type_info_get_type_init (info)));
}

#define EACH(N, GET, BODY) do { int _n = N; for (int i = 0; i < _n; i++) { GIBaseInfo *m = (GIBaseInfo *) GET; BODY; g_base_info_unref (m); } } while (0)

static void dump_info (GIBaseInfo *info, int d)
{
  GIInfoType t = g_base_info_get_type (info);
  ind (d); printf ("E %s %s dep=%d", g_info_type_to_string (t), nz (g_base_info_get_name (info)), g_base_info_is_deprecated (info));
  switch (t)
    {
    case GI_INFO_TYPE_FUNCTION:
      {
        GIFunctionInfoFlags ff = g_function_info_get_flags ((GIFunctionInfo *) info);
        /* documented preconditions: property only for getters/setters, vfunc only for wrappers */
        GIPropertyInfo *p = (ff & (GI_FUNCTION_IS_GETTER | GI_FUNCTION_IS_SETTER)) ? g_function_info_get_property ((GIFunctionInfo *) info) : NULL;
        GIVFuncInfo *v = (ff & GI_FUNCTION_WRAPS_VFUNC) ? g_function_info_get_vfunc ((GIFunctionInfo *) info) : NULL;
        printf (" sym=%s flags=%d prop=%s vfunc=%s\n", nz (g_function_info_get_symbol ((GIFunctionInfo *) info)),
                (int) g_function_info_get_flags ((GIFunctionInfo *) info), p ? g_base_info_get_name (p) : "-",
                v ? g_base_info_get_name (v) : "-");
        if (p) g_base_info_unref (p);
        if (v) g_base_info_unref (v);
        dump_callable ((GICallableInfo *) info, d + 1);
        break;
      }
    case GI_INFO_TYPE_CALLBACK:
      printf ("\n");
      dump_callable ((GICallableInfo *) info, d + 1);
      break;
    case GI_INFO_TYPE_SIGNAL:
      {
        GIVFuncInfo *v = g_signal_info_get_class_closure ((GISignalInfo *) info);
        printf (" flags=%d stops=%d clos=%s\n", (int) g_signal_info_get_flags ((GISignalInfo *) info),
                g_signal_info_true_stops_emit ((GISignalInfo *) info), v ? g_base_info_get_name (v) : "-");
        if (v) g_base_info_unref (v);
        dump_callable ((GICallableInfo *) info, d + 1);
        break;
      }
    case GI_INFO_TYPE_VFUNC:
      {
        GIFunctionInfo *inv = g_vfunc_info_get_invoker ((GIVFuncInfo *) info);
        GISignalInfo *s = g_vfunc_info_get_signal ((GIVFuncInfo *) info);
        printf (" flags=%d offset=%d invoker=%s signal=%s\n", (int) g_vfunc_info_get_flags ((GIVFuncInfo *) info),
                g_vfunc_info_get_offset ((GIVFuncInfo *) info), inv ? g_base_info_get_name (inv) : "-",
                s ? g_base_info_get_name (s) : "-");
        if (inv) g_base_info_unref (inv);
        if (s) g_base_info_unref (s);
        dump_callable ((GICallableInfo *) info, d + 1);
        break;
      }
    case GI_INFO_TYPE_STRUCT: case GI_INFO_TYPE_BOXED:
      dump_registered (info);
      printf (" isgts=%d foreign=%d size=%lu align=%lu copy=%s free=%s\n", g_struct_info_is_gtype_struct ((GIStructInfo *) info),
              g_struct_info_is_foreign ((GIStructInfo *) info), (unsigned long) g_struct_info_get_size ((GIStructInfo *) info),
              (unsigned long) g_struct_info_get_alignment ((GIStructInfo *) info),
              nz (g_struct_info_get_copy_function ((GIStructInfo *) info)), nz (g_struct_info_get_free_function ((GIStructInfo *) info)));
      EACH (g_struct_info_get_n_fields ((GIStructInfo *) info), g_struct_info_get_field ((GIStructInfo *) info, i), dump_field ((GIFieldInfo *) m, d + 1));
      EACH (g_struct_info_get_n_methods ((GIStructInfo *) info), g_struct_info_get_method ((GIStructInfo *) info, i), dump_info (m, d + 1));
      break;
    case GI_INFO_TYPE_UNION:
      dump_registered (info);
      printf (" size=%lu align=%lu copy=%s free=%s\n", (unsigned long) g_union_info_get_size ((GIUnionInfo *) info),
              (unsigned long) g_union_info_get_alignment ((GIUnionInfo *) info),
              nz (g_union_info_get_copy_function ((GIUnionInfo *) info)), nz (g_union_info_get_free_function ((GIUnionInfo *) info)));
      EACH (g_union_info_get_n_fields ((GIUnionInfo *) info), g_union_info_get_field ((GIUnionInfo *) info, i), dump_field ((GIFieldInfo *) m, d + 1));
      EACH (g_union_info_get_n_methods ((GIUnionInfo *) info), g_union_info_get_method ((GIUnionInfo *) info, i), dump_info (m, d + 1));
      break;
    case GI_INFO_TYPE_ENUM: case GI_INFO_TYPE_FLAGS:
      dump_registered (info);
      printf (" storage=%s domain=%s\n", g_type_tag_to_string (g_enum_info_get_storage_type ((GIEnumInfo *) info)),
              nz (g_enum_info_get_error_domain ((GIEnumInfo *) info)));
      EACH (g_enum_info_get_n_values ((GIEnumInfo *) info), g_enum_info_get_value ((GIEnumInfo *) info, i),
            { ind (d + 1); printf ("V %s %ld dep=%d\n", nz (g_base_info_get_name (m)), (long) g_value_info_get_value ((GIValueInfo *) m), g_base_info_is_deprecated (m)); dump_attrs (m, d + 2); });
      EACH (g_enum_info_get_n_methods ((GIEnumInfo *) info), g_enum_info_get_method ((GIEnumInfo *) info, i), dump_info (m, d + 1));
      break;
    case GI_INFO_TYPE_OBJECT:
      {
        GIObjectInfo *o = (GIObjectInfo *) info;
        GIObjectInfo *p = g_object_info_get_parent (o);
        GIStructInfo *cs = g_object_info_get_class_struct (o);
        dump_registered (info);
        printf (" parent=%s.%s abstract=%d fundamental=%d final=%d cls=%s ref=%s unref=%s setv=%s getv=%s\n",
                p ? nz (g_base_info_get_namespace (p)) : "-", p ? nz (g_base_info_get_name (p)) : "-", g_object_info_get_abstract (o),
                g_object_info_get_fundamental (o), g_object_info_get_final (o), cs ? g_base_info_get_name (cs) : "-",
                nz (g_object_info_get_ref_function (o)), nz (g_object_info_get_unref_function (o)),
                nz (g_object_info_get_set_value_function (o)), nz (g_object_info_get_get_value_function (o)));
        if (p) g_base_info_unref (p);
        if (cs) g_base_info_unref (cs);
        EACH (g_object_info_get_n_interfaces (o), g_object_info_get_interface (o, i), { ind (d + 1); printf ("I %s.%s\n", nz (g_base_info_get_namespace (m)), nz (g_base_info_get_name (m))); });
        EACH (g_object_info_get_n_fields (o), g_object_info_get_field (o, i), dump_field ((GIFieldInfo *) m, d + 1));
        EACH (g_object_info_get_n_properties (o), g_object_info_get_property (o, i), dump_info (m, d + 1));
        EACH (g_object_info_get_n_methods (o), g_object_info_get_method (o, i), dump_info (m, d + 1));
        EACH (g_object_info_get_n_signals (o), g_object_info_get_signal (o, i), dump_info (m, d + 1));
        EACH (g_object_info_get_n_vfuncs (o), g_object_info_get_vfunc (o, i), dump_info (m, d + 1));
        EACH (g_object_info_get_n_constants (o), g_object_info_get_constant (o, i), dump_info (m, d + 1));
        break;
      }
    case GI_INFO_TYPE_INTERFACE:
      {
        GIInterfaceInfo *o = (GIInterfaceInfo *) info;
        GIStructInfo *cs = g_interface_info_get_iface_struct (o);
        dump_registered (info);
        printf (" cls=%s\n", cs ? g_base_info_get_name (cs) : "-");
        if (cs) g_base_info_unref (cs);
        EACH (g_interface_info_get_n_prerequisites (o), g_interface_info_get_prerequisite (o, i), { ind (d + 1); printf ("I %s.%s\n", nz (g_base_info_get_namespace (m)), nz (g_base_info_get_name (m))); });
        EACH (g_interface_info_get_n_properties (o), g_interface_info_get_property (o, i), dump_info (m, d + 1));
        EACH (g_interface_info_get_n_methods (o), g_interface_info_get_method (o, i), dump_info (m, d + 1));
        EACH (g_interface_info_get_n_signals (o), g_interface_info_get_signal (o, i), dump_info (m, d + 1));
        EACH (g_interface_info_get_n_vfuncs (o), g_interface_info_get_vfunc (o, i), dump_info (m, d + 1));
        EACH (g_interface_info_get_n_constants (o), g_interface_info_get_constant (o, i), dump_info (m, d + 1));
        break;
      }
    case GI_INFO_TYPE_PROPERTY:
      {
        GIPropertyInfo *p = (GIPropertyInfo *) info;
        GITypeInfo *ty = g_property_info_get_type (p);
        GIFunctionInfo *s = g_property_info_get_setter (p), *g = g_property_info_get_getter (p);
        printf (" flags=%d transfer=%d setter=%s getter=%s type=", (int) g_property_info_get_flags (p),
                (int) g_property_info_get_ownership_transfer (p), s ? g_base_info_get_name (s) : "-", g ? g_base_info_get_name (g) : "-");
        dump_type (ty); printf ("\n");
        if (s) g_base_info_unref (s);
        if (g) g_base_info_unref (g);
        g_base_info_unref (ty);
        break;
      }
    case GI_INFO_TYPE_CONSTANT:
      {
        GIConstantInfo *c = (GIConstantInfo *) info;
        GITypeInfo *ty = g_constant_info_get_type (c);
        GIArgument v; memset (&v, 0, sizeof v);
        GITypeTag tag = g_type_info_get_tag (ty);
        printf (" type="); dump_type (ty);
        if (tag == GI_TYPE_TAG_GTYPE || tag == GI_TYPE_TAG_UNICHAR || tag == GI_TYPE_TAG_VOID)
          printf (" value=?unsupported");
        else
          {
            g_constant_info_get_value (c, &v);
            switch (tag)
              {
              case GI_TYPE_TAG_BOOLEAN: printf (" value=%d", v.v_boolean ? 1 : 0); break;
              case GI_TYPE_TAG_INT8: printf (" value=%d", (int) v.v_int8); break;
              case GI_TYPE_TAG_UINT8: printf (" value=%u", (unsigned) v.v_uint8); break;
              case GI_TYPE_TAG_INT16: printf (" value=%d", (int) v.v_int16); break;
              case GI_TYPE_TAG_UINT16: printf (" value=%u", (unsigned) v.v_uint16); break;
              case GI_TYPE_TAG_INT32: printf (" value=%d", (int) v.v_int32); break;
              case GI_TYPE_TAG_UINT32: printf (" value=%u", (unsigned) v.v_uint32); break;
              case GI_TYPE_TAG_INT64: printf (" value=%ld", (long) v.v_int64); break;
              case GI_TYPE_TAG_UINT64: printf (" value=%lu", (unsigned long) v.v_uint64); break;
              case GI_TYPE_TAG_FLOAT: { guint32 b; memcpy (&b, &v.v_float, 4); printf (" value=f%08x", b); break; }
              case GI_TYPE_TAG_DOUBLE: { guint64 b; memcpy (&b, &v.v_double, 8); printf (" value=d%016lx", (unsigned long) b); break; }
              case GI_TYPE_TAG_UTF8: case GI_TYPE_TAG_FILENAME: printf (" value=<%s>", nz (v.v_string)); break;
              default: printf (" value=?"); break;
              }
            g_constant_info_free_value (c, &v);
          }
        printf ("\n");
        g_base_info_unref (ty);
        break;
      }
    default:
      printf ("\n");
    }
  dump_attrs (info, d + 1);
}

int main (int argc, char **argv)
{
  GError *err = NULL;
  g_irepository_prepend_search_path (argv[1]);
  if (!g_irepository_require (NULL, argv[2], NULL, 0, &err))
    { printf ("ERR %s\n", err->message); return 2; }
  printf ("NS %s version=%s shlib=%s cprefix=%s\n", argv[2], nz (g_irepository_get_version (NULL, argv[2])),
          nz (g_irepository_get_shared_library (NULL, argv[2])), nz (g_irepository_get_c_prefix (NULL, argv[2])));
  char **deps = g_irepository_get_immediate_dependencies (NULL, argv[2]);
  for (char **p = deps; p && *p; p++) printf ("DEP %s\n", *p);
  int n = g_irepository_get_n_infos (NULL, argv[2]);
  for (int i = 0; i < n; i++)
    {
      GIBaseInfo *info = g_irepository_get_info (NULL, argv[2], i);
      dump_info (info, 0);
      g_base_info_unref (info);
    }
  return 0;
}
