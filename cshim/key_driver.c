/* key_driver: reads lines "elemtag elemptr has_len len has_size size zero ptr" and prints the key of the element type, a tab, and the key under which
   girnode.c:serialize_type shares the type blob of the C array of that basic element type (static function reached by
   including the source file). */
#include <stdio.h>
#include <string.h>
#include <glib.h>
#include "girnode.c"

int main (void)
{
  int etag, eptr, hl, len, hs, size, zero, ptr;
  while (scanf ("%d %d %d %d %d %d %d %d", &etag, &eptr, &hl, &len, &hs, &size, &zero, &ptr) == 8)
    {
      GIrNodeType elem, arr;
      GString *s = g_string_new ("");
      memset (&elem, 0, sizeof elem); memset (&arr, 0, sizeof arr);
      elem.tag = etag; elem.is_pointer = eptr;
      arr.tag = GI_TYPE_TAG_ARRAY; arr.array_type = GI_ARRAY_TYPE_C; arr.is_array = TRUE;
      arr.parameter_type1 = &elem;
      arr.has_length = hl; arr.length = len; arr.has_size = hs; arr.size = size;
      arr.zero_terminated = zero; arr.is_pointer = ptr;
      serialize_type (NULL, &elem, s);
      g_string_append_c (s, '\t');
      serialize_type (NULL, &arr, s);
      printf ("%s\n", s->str);
      g_string_free (s, TRUE);
    }
  return 0;
}
