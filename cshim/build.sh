#!/bin/bash
# Build g-ir-compiler, g-ir-generate and libgirepository objects from /repo's current
# working tree against the miniglib header shim (no GLib headers are installed) and the
# system GLib 2.74 runtime libraries. Incremental: objects are rebuilt when the source or
# any header of girepository/ changed (make-style timestamp check by content hash).
set -e
HERE="$(cd "$(dirname "$0")" && pwd)"
REPO="${GIV_REPO:-/repo}"
OUT="${GIV_CBUILD:-$HERE/../build/c}"
mkdir -p "$OUT/obj"
LIBDIR=/usr/lib/x86_64-linux-gnu
LIBS="$LIBDIR/libgio-2.0.so.0 $LIBDIR/libgobject-2.0.so.0 $LIBDIR/libgmodule-2.0.so.0 $LIBDIR/libglib-2.0.so.0 -lffi -lm -ldl"
CFLAGS="-O1 -g -w -DHAVE_CONFIG_H -DGI_COMPILATION -DG_IREPOSITORY_COMPILATION -DG_LOG_DOMAIN=\"GLib-GIRepository\" -I$HERE/inc -I$REPO -I$REPO/girepository -I$REPO/girepository/cmph"
# one hash over all headers + flags: a header change rebuilds everything
HH=$( (cat "$REPO"/girepository/*.h "$REPO"/girepository/cmph/*.h "$HERE"/inc/*.h "$HERE"/inc/*/*.h; echo "$CFLAGS") | sha1sum | cut -c1-16)
GIR="giarginfo gibaseinfo gicallableinfo giconstantinfo gienuminfo gifieldinfo gifunctioninfo giinterfaceinfo ginvoke giobjectinfo gipropertyinfo giregisteredtypeinfo girepository girffi girmodule girnode giroffsets girparser girwriter gisignalinfo gistructinfo gitypeinfo gitypelib giunioninfo giversion givfuncinfo gthash gdump"
CMPH="bdz bdz_ph bmz bmz8 brz buffer_entry buffer_manager chd chd_ph chm cmph cmph_structs compressed_rank compressed_seq fch fch_buckets graph hash jenkins_hash miller_rabin select vqueue vstack"
compile() { # src obj
  local src="$1" obj="$2" stamp
  stamp="$(sha1sum < "$src" | cut -c1-16)-$HH"
  if [ ! -f "$obj" ] || [ "$(cat "$obj.stamp" 2>/dev/null)" != "$stamp" ]; then
    gcc $CFLAGS -c "$src" -o "$obj" 2> "$obj.err" || { cat "$obj.err" >&2; echo "FAILED: $src" >&2; return 1; }
    echo "$stamp" > "$obj.stamp"
  fi
}
pids=()
fail=0
for f in $GIR; do compile "$REPO/girepository/$f.c" "$OUT/obj/$f.o" & pids+=($!); done
for f in $CMPH; do compile "$REPO/girepository/cmph/$f.c" "$OUT/obj/cmph_$f.o" & pids+=($!); done
compile "$REPO/tools/compiler.c" "$OUT/obj/tool_compiler.o" & pids+=($!)
compile "$REPO/tools/generate.c" "$OUT/obj/tool_generate.o" & pids+=($!)
for p in "${pids[@]}"; do wait "$p" || fail=1; done
[ $fail = 0 ] || exit 1
CMPHO=$(for f in $CMPH; do echo "$OUT/obj/cmph_$f.o"; done)
# library objects without girparser (needs compiler.c's logged_levels) and without gdump
LIBO=$(for f in $GIR; do case $f in girparser) ;; *) echo "$OUT/obj/$f.o";; esac; done)
rm -f "$OUT/libgirepo.a"; ar rcs "$OUT/libgirepo.a" $LIBO $CMPHO
gcc -o "$OUT/g-ir-compiler" "$OUT/obj/tool_compiler.o" "$OUT/obj/girparser.o" "$OUT/libgirepo.a" $LIBS
gcc -o "$OUT/g-ir-generate" "$OUT/obj/tool_generate.o" "$OUT/libgirepo.a" $LIBS
echo "C build ok: $OUT"
