/* layout_dump <dir> <namespace>: prints, through the public repository API, the stored
   size/alignment/field offsets of every record and union and the storage type of every
   enumeration of a compiled typelib. */
#include <girepository.h>
#include <stdio.h>
int main (int argc, char **argv)
{
  GError *err = NULL;
  g_irepository_prepend_search_path (argv[1]);
  if (!g_irepository_require (NULL, argv[2], NULL, 0, &err))
    { printf ("ERR %s\n", err->message); return 2; }
  int n = g_irepository_get_n_infos (NULL, argv[2]);
  for (int i = 0; i < n; i++)
    {
      GIBaseInfo *info = g_irepository_get_info (NULL, argv[2], i);
      GIInfoType t = g_base_info_get_type (info);
      if (t == GI_INFO_TYPE_STRUCT)
        {
          int nf = g_struct_info_get_n_fields ((GIStructInfo *) info);
          printf ("S %s %lu %lu %d", g_base_info_get_name (info), (unsigned long) g_struct_info_get_size ((GIStructInfo *) info),
                  (unsigned long) g_struct_info_get_alignment ((GIStructInfo *) info), nf);
          for (int k = 0; k < nf; k++)
            { GIFieldInfo *f = g_struct_info_get_field ((GIStructInfo *) info, k);
              printf (" %d", g_field_info_get_offset (f)); g_base_info_unref (f); }
          printf ("\n");
        }
      else if (t == GI_INFO_TYPE_UNION)
        {
          int nf = g_union_info_get_n_fields ((GIUnionInfo *) info);
          printf ("U %s %lu %lu %d", g_base_info_get_name (info), (unsigned long) g_union_info_get_size ((GIUnionInfo *) info),
                  (unsigned long) g_union_info_get_alignment ((GIUnionInfo *) info), nf);
          for (int k = 0; k < nf; k++)
            { GIFieldInfo *f = g_union_info_get_field ((GIUnionInfo *) info, k);
              printf (" %d", g_field_info_get_offset (f)); g_base_info_unref (f); }
          printf ("\n");
        }
      else if (t == GI_INFO_TYPE_ENUM || t == GI_INFO_TYPE_FLAGS)
        printf ("E %s %s\n", g_base_info_get_name (info),
                g_type_tag_to_string (g_enum_info_get_storage_type ((GIEnumInfo *) info)));
      g_base_info_unref (info);
    }
  return 0;
}
