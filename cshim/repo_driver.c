/* repo_driver: executes a script of repository operations (one per line on stdin) against
   girepository.c of the working tree and prints one result line per operation.
     P <dir>                 g_irepository_prepend_search_path
     R <ns> <ver|-> <flags>  g_irepository_require
     V <dir> <ns> <ver|->    g_irepository_require_private
     L <file>                g_irepository_load_typelib (from memory)
     I <file>                print header namespace/version/dependencies of a typelib file
     X <v>                   parse_version
     C <v1> <v2>             compare_version (both must parse)
     Q                       report loaded namespaces, versions, paths, dependencies
   girepository.c is included so that the static functions are reachable. */
#include "girepository/girepository.c"
#include <stdio.h>

static int cmpstr (const void *a, const void *b) { return strcmp (*(char **) a, *(char **) b); }

static void report_err (GError *err)
{
  printf ("ERR %d\n", err->code);
  g_clear_error (&err);
}

static GITypelib *typelib_from_file (const char *path)
{
  gchar *data; gsize len; GError *err = NULL;
  if (!g_file_get_contents (path, &data, &len, NULL)) return NULL;
  GITypelib *t = g_typelib_new_from_memory ((guint8 *) data, len, &err);
  if (!t) { g_clear_error (&err); return NULL; }
  return t;
}

int main (void)
{
  char line[4096];
  while (fgets (line, sizeof line, stdin))
    {
      char a[1024], b[1024], c[1024];
      int flags = 0;
      GError *err = NULL;
      line[strcspn (line, "\n")] = 0;
      if (line[0] == 'P' && sscanf (line, "P %1023s", a) == 1)
        { g_irepository_prepend_search_path (a); printf ("OK\n"); }
      else if (line[0] == 'R' && sscanf (line, "R %1023s %1023s %d", a, b, &flags) == 3)
        {
          GITypelib *t = g_irepository_require (NULL, a, strcmp (b, "-") ? b : NULL, flags, &err);
          if (t) printf ("OK %s\n", g_irepository_get_version (NULL, a)); else report_err (err);
        }
      else if (line[0] == 'V' && sscanf (line, "V %1023s %1023s %1023s", a, b, c) == 3)
        {
          GITypelib *t = g_irepository_require_private (NULL, a, b, strcmp (c, "-") ? c : NULL, 0, &err);
          if (t) printf ("OK %s\n", g_irepository_get_version (NULL, b)); else report_err (err);
        }
      else if (line[0] == 'L' && sscanf (line, "L %1023s", a) == 1)
        {
          GITypelib *t = typelib_from_file (a);
          if (!t) { printf ("BADFILE\n"); continue; }
          const char *ns = g_irepository_load_typelib (NULL, t, 0, &err);
          if (ns) printf ("OK %s\n", ns); else report_err (err);
        }
      else if (line[0] == 'I' && line[1] == ' ' && line[2])
        {
          /* the rest of the line is the path: file names may contain blanks ("Nab- 2.0.typelib") */
          GITypelib *t = typelib_from_file (line + 2);
          if (!t) { printf ("BADFILE\n"); continue; }
          Header *h = (Header *) t->data;
          printf ("INFO %s %s [%s]\n", g_typelib_get_string (t, h->namespace), g_typelib_get_string (t, h->nsversion),
                  h->dependencies ? g_typelib_get_string (t, h->dependencies) : "");
        }
      else if (line[0] == 'X')
        {
          int major = 0, minor = 0;
          gboolean ok = parse_version (line + 2, &major, &minor);
          printf ("PV %d %d %d\n", ok, major, minor);
        }
      else if (line[0] == 'C')
        {
          char *sp = strchr (line + 2, '\t');
          *sp = 0;
          printf ("CV %d\n", compare_version (line + 2, sp + 1));
        }
      else if (line[0] == 'Q')
        {
          char **ns = g_irepository_get_loaded_namespaces (NULL);
          int n = g_strv_length (ns);
          qsort (ns, n, sizeof (char *), cmpstr);
          for (int i = 0; i < n; i++)
            {
              char **imm = g_irepository_get_immediate_dependencies (NULL, ns[i]);
              char **all = g_irepository_get_dependencies (NULL, ns[i]);
              qsort (all, g_strv_length (all), sizeof (char *), cmpstr);
              char *s1 = g_strjoinv (",", imm), *s2 = g_strjoinv (",", all);
              printf ("NS %s %s %s [%s] [%s]\n", ns[i], g_irepository_get_version (NULL, ns[i]),
                      g_irepository_get_typelib_path (NULL, ns[i]), s1, s2);
            }
          printf ("END\n");
        }
      else
        printf ("BADOP %s\n", line);
      fflush (stdout);
    }
  return 0;
}
