/* validate_driver <typelib-file>: the project's own typelib validation (gitypelib.c g_typelib_validate) */
#include <stdio.h>
#include <glib.h>
#include "girepository.h"
#include "gitypelib-internal.h"

int main (int argc, char **argv)
{
  gchar *data; gsize len; GError *err = NULL;
  if (!g_file_get_contents (argv[1], &data, &len, NULL)) { printf ("UNREADABLE\n"); return 2; }
  GITypelib *t = g_typelib_new_from_memory ((guint8 *) data, len, &err);
  if (!t) { printf ("BAD %s\n", err->message); return 3; }
  if (!g_typelib_validate (t, &err)) { printf ("INVALID %s\n", err->message); return 1; }
  printf ("VALID\n");
  return 0;
}
