/* hash_driver <keys-file> <probes-file>: builds the directory index of gthash.c for the keys
   (value = line number), packs it, and prints
     SIZE <n> <cmph_packed> <dirmap_offset> <packed_size>
     K <i> <raw cmph hash> <table index returned by _gi_typelib_hash_search>     per key
     P <table index>                                                           per probe
   gthash.c is included so that the builder's fields are visible. */
#include "girepository/gthash.c"
#include <stdio.h>
#include <stdlib.h>

static char **read_lines (const char *path, int *n)
{
  gchar *data; gsize len;
  if (!g_file_get_contents (path, &data, &len, NULL)) { *n = 0; return NULL; }
  char **l = g_strsplit (data, "\n", 0);
  int k = g_strv_length (l);
  if (k > 0 && l[k - 1][0] == 0) k--;
  *n = k; return l;
}

int main (int argc, char **argv)
{
  int n, np;
  char **keys = read_lines (argv[1], &n);
  char **probes = read_lines (argv[2], &np);
  GITypelibHashBuilder *b = _gi_typelib_hash_builder_new ();
  for (int i = 0; i < n; i++)
    _gi_typelib_hash_builder_add_string (b, keys[i], (guint16) i);
  if (!_gi_typelib_hash_builder_prepare (b))
    { printf ("UNBUILDABLE\n"); return 0; }
  guint32 size = _gi_typelib_hash_builder_get_buffer_size (b);
  printf ("SIZE %d %u %u %u\n", n, (unsigned) cmph_packed_size (b->c), b->dirmap_offset, b->packed_size);
  guint32 alloc = (size + 3) & ~3u;
  guint8 *mem = g_malloc0 (alloc + 8);
  _gi_typelib_hash_builder_pack (b, mem, alloc);
  for (int i = 0; i < n; i++)
    printf ("K %d %u %u\n", i, (unsigned) cmph_search_packed (mem + 4, keys[i], strlen (keys[i])),
            (unsigned) _gi_typelib_hash_search (mem, keys[i], n));
  for (int i = 0; i < np; i++)
    printf ("P %u\n", (unsigned) _gi_typelib_hash_search (mem, probes[i], n));
  return 0;
}
