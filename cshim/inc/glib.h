/* miniglib: hand-written declarations of the subset of GLib 2.74 API used by
   gobject-introspection's girepository/ and tools/, for linking against the
   system libglib-2.0.so.0 / libgobject-2.0.so.0 / libgmodule-2.0.so.0. */
#ifndef __MINI_GLIB_H__
#define __MINI_GLIB_H__
#include <stddef.h>
#include <stdarg.h>
#include <stdint.h>
#include <limits.h>
#include <float.h>
#include <string.h>
#include <stdio.h>
#include <time.h>
#include <errno.h>

#define G_BEGIN_DECLS
#define GLIB_SIZEOF_SIZE_T 8
#define GLIB_SIZEOF_SSIZE_T 8
#define GLIB_SIZEOF_LONG 8
#define GLIB_SIZEOF_VOID_P 8
#define G_END_DECLS
#define G_OS_UNIX 1
#define GLIB_MAJOR_VERSION 2
#define GLIB_MINOR_VERSION 74
#define GLIB_MICRO_VERSION 6
#define GLIB_CHECK_VERSION(major,minor,micro) \
  (GLIB_MAJOR_VERSION > (major) || (GLIB_MAJOR_VERSION == (major) && GLIB_MINOR_VERSION > (minor)) || \
   (GLIB_MAJOR_VERSION == (major) && GLIB_MINOR_VERSION == (minor) && GLIB_MICRO_VERSION >= (micro)))
#define GLIB_VERSION_2_26 0
#define GLIB_VERSION_MIN_REQUIRED 0

typedef char gchar;
typedef short gshort;
typedef long glong;
typedef int gint;
typedef gint gboolean;
typedef unsigned char guchar;
typedef unsigned short gushort;
typedef unsigned long gulong;
typedef unsigned int guint;
typedef float gfloat;
typedef double gdouble;
typedef void *gpointer;
typedef const void *gconstpointer;
typedef signed char gint8;
typedef unsigned char guint8;
typedef signed short gint16;
typedef unsigned short guint16;
typedef signed int gint32;
typedef unsigned int guint32;
typedef signed long gint64;
typedef unsigned long guint64;
typedef signed long gssize;
typedef unsigned long gsize;
typedef gint64 goffset;
typedef signed long gintptr;
typedef unsigned long guintptr;
typedef guint32 gunichar;
typedef guint16 gunichar2;
typedef guint32 GQuark;
typedef int GPid;

#define G_GINT16_FORMAT "hi"
#define G_GUINT16_FORMAT "hu"
#define G_GINT32_FORMAT "i"
#define G_GUINT32_FORMAT "u"
#define G_GINT64_FORMAT "li"
#define G_GUINT64_FORMAT "lu"
#define G_GSIZE_FORMAT "lu"
#define G_GSSIZE_FORMAT "li"
#define G_GINT64_CONSTANT(val) (val##L)
#define G_GUINT64_CONSTANT(val) (val##UL)

#define G_MININT8 ((gint8) (-G_MAXINT8 - 1))
#define G_MAXINT8 ((gint8) 0x7f)
#define G_MAXUINT8 ((guint8) 0xff)
#define G_MININT16 ((gint16) (-G_MAXINT16 - 1))
#define G_MAXINT16 ((gint16) 0x7fff)
#define G_MAXUINT16 ((guint16) 0xffff)
#define G_MININT32 ((gint32) (-G_MAXINT32 - 1))
#define G_MAXINT32 ((gint32) 0x7fffffff)
#define G_MAXUINT32 ((guint32) 0xffffffff)
#define G_MININT64 ((gint64) (-G_MAXINT64 - G_GINT64_CONSTANT(1)))
#define G_MAXINT64 G_GINT64_CONSTANT(0x7fffffffffffffff)
#define G_MAXUINT64 G_GUINT64_CONSTANT(0xffffffffffffffff)
#define G_MINSHORT SHRT_MIN
#define G_MAXSHORT SHRT_MAX
#define G_MAXUSHORT USHRT_MAX
#define G_MININT INT_MIN
#define G_MAXINT INT_MAX
#define G_MAXUINT UINT_MAX
#define G_MINLONG LONG_MIN
#define G_MAXLONG LONG_MAX
#define G_MAXULONG ULONG_MAX
#define G_MAXSIZE G_MAXUINT64
#define G_MINFLOAT FLT_MIN
#define G_MAXFLOAT FLT_MAX
#define G_MINDOUBLE DBL_MIN
#define G_MAXDOUBLE DBL_MAX

#ifndef TRUE
#define TRUE 1
#define FALSE 0
#endif
#ifndef NULL
#define NULL ((void*)0)
#endif
#undef MAX
#define MAX(a, b)  (((a) > (b)) ? (a) : (b))
#undef MIN
#define MIN(a, b)  (((a) < (b)) ? (a) : (b))
#undef ABS
#define ABS(a)	   (((a) < 0) ? -(a) : (a))
#undef CLAMP
#define CLAMP(x, low, high)  (((x) > (high)) ? (high) : (((x) < (low)) ? (low) : (x)))

#define G_STRINGIFY(macro_or_string)	G_STRINGIFY_ARG (macro_or_string)
#define	G_STRINGIFY_ARG(contents)	#contents
#define G_PASTE_ARGS(identifier1,identifier2) identifier1 ## identifier2
#define G_PASTE(identifier1,identifier2)      G_PASTE_ARGS (identifier1, identifier2)
#define G_STATIC_ASSERT(expr) _Static_assert (expr, "Expression evaluates to false")
#define G_N_ELEMENTS(arr)		(sizeof (arr) / sizeof ((arr)[0]))
#define GPOINTER_TO_SIZE(p)	((gsize) (p))
#define GSIZE_TO_POINTER(s)	((gpointer) (gsize) (s))
#define GPOINTER_TO_INT(p)	((gint)  (glong) (p))
#define GPOINTER_TO_UINT(p)	((guint) (gulong) (p))
#define GINT_TO_POINTER(i)	((gpointer) (glong) (i))
#define GUINT_TO_POINTER(u)	((gpointer) (gulong) (u))
#define G_STRUCT_OFFSET(struct_type, member) ((glong) offsetof (struct_type, member))
#define G_STRUCT_MEMBER_P(struct_p, struct_offset) ((gpointer) ((guint8*) (struct_p) + (glong) (struct_offset)))
#define G_STRUCT_MEMBER(member_type, struct_p, struct_offset) (*(member_type*) G_STRUCT_MEMBER_P ((struct_p), (struct_offset)))
#define G_GNUC_PRINTF( format_idx, arg_idx ) __attribute__((__format__ (__printf__, format_idx, arg_idx)))
#define G_GNUC_UNUSED __attribute__ ((__unused__))
#define G_GNUC_NORETURN __attribute__ ((__noreturn__))
#define G_GNUC_CONST __attribute__ ((__const__))
#define G_GNUC_PURE __attribute__((__pure__))
#define G_GNUC_MALLOC __attribute__ ((__malloc__))
#define G_GNUC_NULL_TERMINATED __attribute__((__sentinel__))
#define G_GNUC_WARN_UNUSED_RESULT __attribute__((warn_unused_result))
#define G_GNUC_INTERNAL __attribute__((visibility("hidden")))
#define G_GNUC_BEGIN_IGNORE_DEPRECATIONS
#define G_GNUC_END_IGNORE_DEPRECATIONS
#define G_GNUC_EXTENSION __extension__
#define G_DEPRECATED __attribute__((__deprecated__))
#define G_DEPRECATED_FOR(f) __attribute__((__deprecated__("Use '" #f "' instead")))
#define G_UNAVAILABLE(maj,min) __attribute__((deprecated("Not available before " #maj "." #min)))
#define G_LIKELY(expr) (__builtin_expect (!!(expr), 1))
#define G_UNLIKELY(expr) (__builtin_expect (!!(expr), 0))
#define G_STRLOC	__FILE__ ":" G_STRINGIFY (__LINE__)
#define G_STRFUNC     ((const char*) (__func__))
#define G_ALWAYS_INLINE __attribute__ ((__always_inline__))
#define G_INLINE_FUNC static inline
#define G_CAN_INLINE 1
#define G_DIR_SEPARATOR '/'
#define G_DIR_SEPARATOR_S "/"
#define G_SEARCHPATH_SEPARATOR ':'
#define G_SEARCHPATH_SEPARATOR_S ":"
#define G_MODULE_SUFFIX "so"
#define G_CSET_A_2_Z	"ABCDEFGHIJKLMNOPQRSTUVWXYZ"
#define G_CSET_a_2_z	"abcdefghijklmnopqrstuvwxyz"
#define G_CSET_DIGITS	"0123456789"
#define g_alloca(size) __builtin_alloca (size)
#define G_LITTLE_ENDIAN 1234
#define G_BIG_ENDIAN    4321
#define G_BYTE_ORDER G_LITTLE_ENDIAN
#define GUINT16_FROM_LE(v) (v)
#define GUINT32_FROM_LE(v) (v)

typedef gint            (*GCompareFunc)         (gconstpointer  a, gconstpointer  b);
typedef gint            (*GCompareDataFunc)     (gconstpointer  a, gconstpointer  b, gpointer user_data);
typedef gboolean        (*GEqualFunc)           (gconstpointer  a, gconstpointer  b);
typedef void            (*GDestroyNotify)       (gpointer       data);
typedef void            (*GFunc)                (gpointer       data, gpointer user_data);
typedef guint           (*GHashFunc)            (gconstpointer  key);
typedef void            (*GHFunc)               (gpointer key, gpointer value, gpointer user_data);
typedef gboolean        (*GHRFunc)              (gpointer key, gpointer value, gpointer user_data);
typedef void            (*GFreeFunc)            (gpointer       data);
typedef gpointer        (*GCopyFunc)            (gconstpointer src, gpointer data);

/* memory */
gpointer g_malloc (gsize n_bytes);
gpointer g_malloc0 (gsize n_bytes);
gpointer g_realloc (gpointer mem, gsize n_bytes);
void g_free (gpointer mem);
gpointer g_malloc_n (gsize n_blocks, gsize n_block_bytes);
gpointer g_malloc0_n (gsize n_blocks, gsize n_block_bytes);
gpointer g_realloc_n (gpointer mem, gsize n_blocks, gsize n_block_bytes);
gpointer g_memdup (gconstpointer mem, guint byte_size);
gpointer g_memdup2 (gconstpointer mem, gsize byte_size);
gpointer g_slice_alloc (gsize block_size);
gpointer g_slice_alloc0 (gsize block_size);
void g_slice_free1 (gsize block_size, gpointer mem_block);
#define g_new(struct_type, n_structs) ((struct_type *) g_malloc_n ((n_structs), sizeof (struct_type)))
#define g_new0(struct_type, n_structs) ((struct_type *) g_malloc0_n ((n_structs), sizeof (struct_type)))
#define g_renew(struct_type, mem, n_structs) ((struct_type *) g_realloc_n (mem, (n_structs), sizeof (struct_type)))
#define g_slice_new(type) ((type*) g_slice_alloc (sizeof (type)))
#define g_slice_new0(type) ((type*) g_slice_alloc0 (sizeof (type)))
#define g_slice_free(type, mem) g_slice_free1 (sizeof (type), (mem))
#define g_clear_pointer(pp, destroy) \
  do { __typeof__(*(pp)) _ptr = *(pp); *(pp) = NULL; if (_ptr) (destroy) (_ptr); } while (0)
static inline gpointer g_steal_pointer_impl (gpointer pp) { gpointer *ptr = (gpointer *) pp; gpointer ref = *ptr; *ptr = NULL; return ref; }
#define g_steal_pointer(pp) ((__typeof__ (*pp)) (g_steal_pointer_impl) (pp))

/* atomics */
#define g_atomic_int_inc(atomic) ((void) __atomic_fetch_add ((atomic), 1, __ATOMIC_SEQ_CST))
#define g_atomic_int_dec_and_test(atomic) (__atomic_fetch_sub ((atomic), 1, __ATOMIC_SEQ_CST) == 1)
#define g_atomic_int_get(atomic) (__atomic_load_n ((atomic), __ATOMIC_SEQ_CST))
gboolean g_once_init_enter (volatile void *location);
void g_once_init_leave (volatile void *location, gsize result);

/* quark / error */
GQuark g_quark_from_static_string (const gchar *string);
GQuark g_quark_from_string (const gchar *string);
const gchar *g_quark_to_string (GQuark quark);
typedef struct _GError GError;
struct _GError { GQuark domain; gint code; gchar *message; };
GError *g_error_new (GQuark domain, gint code, const gchar *format, ...) G_GNUC_PRINTF (3, 4);
GError *g_error_new_literal (GQuark domain, gint code, const gchar *message);
void g_error_free (GError *error);
GError *g_error_copy (const GError *error);
gboolean g_error_matches (const GError *error, GQuark domain, gint code);
void g_set_error (GError **err, GQuark domain, gint code, const gchar *format, ...) G_GNUC_PRINTF (4, 5);
void g_set_error_literal (GError **err, GQuark domain, gint code, const gchar *message);
void g_propagate_error (GError **dest, GError *src);
void g_clear_error (GError **err);
void g_prefix_error (GError **err, const gchar *format, ...) G_GNUC_PRINTF (2, 3);

/* messages */
typedef enum {
  G_LOG_FLAG_RECURSION = 1 << 0, G_LOG_FLAG_FATAL = 1 << 1,
  G_LOG_LEVEL_ERROR = 1 << 2, G_LOG_LEVEL_CRITICAL = 1 << 3, G_LOG_LEVEL_WARNING = 1 << 4,
  G_LOG_LEVEL_MESSAGE = 1 << 5, G_LOG_LEVEL_INFO = 1 << 6, G_LOG_LEVEL_DEBUG = 1 << 7,
  G_LOG_LEVEL_MASK = ~(G_LOG_FLAG_RECURSION | G_LOG_FLAG_FATAL)
} GLogLevelFlags;
typedef void (*GLogFunc) (const gchar *log_domain, GLogLevelFlags log_level, const gchar *message, gpointer user_data);
void g_log (const gchar *log_domain, GLogLevelFlags log_level, const gchar *format, ...) G_GNUC_PRINTF (3, 4);
void g_logv (const gchar *log_domain, GLogLevelFlags log_level, const gchar *format, va_list args);
GLogFunc g_log_set_default_handler (GLogFunc log_func, gpointer user_data);
void g_log_default_handler (const gchar *log_domain, GLogLevelFlags log_level, const gchar *message, gpointer unused_data);
GLogLevelFlags g_log_set_always_fatal (GLogLevelFlags fatal_mask);
void g_return_if_fail_warning (const char *log_domain, const char *pretty_function, const char *expression);
void g_assertion_message_expr (const char *domain, const char *file, int line, const char *func, const char *expr) G_GNUC_NORETURN;
void g_assertion_message_cmpstr (const char *domain, const char *file, int line, const char *func, const char *expr, const char *arg1, const char *cmp, const char *arg2) G_GNUC_NORETURN;
void g_print (const gchar *format, ...) G_GNUC_PRINTF (1, 2);
void g_printerr (const gchar *format, ...) G_GNUC_PRINTF (1, 2);
#ifndef G_LOG_DOMAIN
#define G_LOG_DOMAIN ((gchar*) 0)
#endif
#define g_error(...) do { g_log (G_LOG_DOMAIN, G_LOG_LEVEL_ERROR, __VA_ARGS__); for (;;) ; } while (0)
#define g_message(...) g_log (G_LOG_DOMAIN, G_LOG_LEVEL_MESSAGE, __VA_ARGS__)
#define g_critical(...) g_log (G_LOG_DOMAIN, G_LOG_LEVEL_CRITICAL, __VA_ARGS__)
#define g_warning(...) g_log (G_LOG_DOMAIN, G_LOG_LEVEL_WARNING, __VA_ARGS__)
#define g_info(...) g_log (G_LOG_DOMAIN, G_LOG_LEVEL_INFO, __VA_ARGS__)
#define g_debug(...) g_log (G_LOG_DOMAIN, G_LOG_LEVEL_DEBUG, __VA_ARGS__)
#define g_return_if_fail(expr) do { if G_LIKELY (expr) { } else { g_return_if_fail_warning (G_LOG_DOMAIN, G_STRFUNC, #expr); return; } } while (0)
#define g_return_val_if_fail(expr, val) do { if G_LIKELY (expr) { } else { g_return_if_fail_warning (G_LOG_DOMAIN, G_STRFUNC, #expr); return (val); } } while (0)
#define g_assert(expr) do { if G_LIKELY (expr) ; else g_assertion_message_expr (G_LOG_DOMAIN, __FILE__, __LINE__, G_STRFUNC, #expr); } while (0)
#define g_assert_not_reached() do { g_assertion_message_expr (G_LOG_DOMAIN, __FILE__, __LINE__, G_STRFUNC, NULL); } while (0)
#define g_assert_cmpstr(s1, cmp, s2) do { const char *__s1 = (s1), *__s2 = (s2); if (g_strcmp0 (__s1, __s2) cmp 0) ; else g_assertion_message_cmpstr (G_LOG_DOMAIN, __FILE__, __LINE__, G_STRFUNC, #s1 " " #cmp " " #s2, __s1, #cmp, __s2); } while (0)

/* strings */
gchar *g_strdup (const gchar *str);
gchar *g_strndup (const gchar *str, gsize n);
gchar *g_strdup_printf (const gchar *format, ...) G_GNUC_PRINTF (1, 2);
gchar *g_strdup_vprintf (const gchar *format, va_list args);
gchar *g_strconcat (const gchar *string1, ...) G_GNUC_NULL_TERMINATED;
gchar *g_strjoin (const gchar *separator, ...) G_GNUC_NULL_TERMINATED;
gchar *g_strjoinv (const gchar *separator, gchar **str_array);
gchar **g_strsplit (const gchar *string, const gchar *delimiter, gint max_tokens);
void g_strfreev (gchar **str_array);
gchar **g_strdupv (gchar **str_array);
guint g_strv_length (gchar **str_array);
gboolean g_str_has_prefix (const gchar *str, const gchar *prefix);
gboolean g_str_has_suffix (const gchar *str, const gchar *suffix);
int g_strcmp0 (const char *str1, const char *str2);
gchar *g_strescape (const gchar *source, const gchar *exceptions);
gchar *g_strchomp (gchar *string);
gchar *g_strchug (gchar *string);
#define g_strstrip(string) g_strchomp (g_strchug (string))
const gchar *g_strerror (gint errnum);
gint g_ascii_strcasecmp (const gchar *s1, const gchar *s2);
gint64 g_ascii_strtoll (const gchar *nptr, gchar **endptr, guint base);
guint64 g_ascii_strtoull (const gchar *nptr, gchar **endptr, guint base);
gdouble g_ascii_strtod (const gchar *nptr, gchar **endptr);
gchar g_ascii_tolower (gchar c);
gchar g_ascii_toupper (gchar c);
typedef enum { G_ASCII_ALNUM = 1 << 0, G_ASCII_ALPHA = 1 << 1, G_ASCII_CNTRL = 1 << 2, G_ASCII_DIGIT = 1 << 3, G_ASCII_GRAPH = 1 << 4, G_ASCII_LOWER = 1 << 5, G_ASCII_PRINT = 1 << 6, G_ASCII_PUNCT = 1 << 7, G_ASCII_SPACE = 1 << 8, G_ASCII_UPPER = 1 << 9, G_ASCII_XDIGIT = 1 << 10 } GAsciiType;
extern const guint16 * const g_ascii_table;
#define g_ascii_isalnum(c) ((g_ascii_table[(guchar) (c)] & G_ASCII_ALNUM) != 0)
#define g_ascii_isalpha(c) ((g_ascii_table[(guchar) (c)] & G_ASCII_ALPHA) != 0)
#define g_ascii_isdigit(c) ((g_ascii_table[(guchar) (c)] & G_ASCII_DIGIT) != 0)
#define g_ascii_isupper(c) ((g_ascii_table[(guchar) (c)] & G_ASCII_UPPER) != 0)
#define g_ascii_islower(c) ((g_ascii_table[(guchar) (c)] & G_ASCII_LOWER) != 0)
#define g_ascii_isspace(c) ((g_ascii_table[(guchar) (c)] & G_ASCII_SPACE) != 0)
gboolean g_str_equal (gconstpointer v1, gconstpointer v2);
guint g_str_hash (gconstpointer v);
guint g_direct_hash (gconstpointer v);
gboolean g_direct_equal (gconstpointer v1, gconstpointer v2);
gint g_printf (gchar const *format, ...) G_GNUC_PRINTF (1, 2);
gint g_fprintf (FILE *file, gchar const *format, ...) G_GNUC_PRINTF (2, 3);
gint g_snprintf (gchar *string, gulong n, gchar const *format, ...) G_GNUC_PRINTF (3, 4);
gchar *g_markup_escape_text (const gchar *text, gssize length);
gchar *g_markup_printf_escaped (const char *format, ...) G_GNUC_PRINTF (1, 2);
gchar *g_markup_vprintf_escaped (const char *format, va_list args);

typedef struct _GString GString;
struct _GString { gchar *str; gsize len; gsize allocated_len; };
GString *g_string_new (const gchar *init);
GString *g_string_sized_new (gsize dfl_size);
gchar *g_string_free (GString *string, gboolean free_segment);
GString *g_string_append (GString *string, const gchar *val);
GString *g_string_append_len (GString *string, const gchar *val, gssize len);
GString *g_string_append_c (GString *string, gchar c);
GString *g_string_insert_c (GString *string, gssize pos, gchar c);
GString *g_string_truncate (GString *string, gsize len);
GString *g_string_overwrite_len (GString *string, gsize pos, const gchar *val, gssize len);
void g_string_append_printf (GString *string, const gchar *format, ...) G_GNUC_PRINTF (2, 3);
void g_string_printf (GString *string, const gchar *format, ...) G_GNUC_PRINTF (2, 3);

/* lists */
typedef struct _GList GList;
struct _GList { gpointer data; GList *next; GList *prev; };
GList *g_list_append (GList *list, gpointer data);
GList *g_list_prepend (GList *list, gpointer data);
GList *g_list_insert_sorted (GList *list, gpointer data, GCompareFunc func);
GList *g_list_concat (GList *list1, GList *list2);
GList *g_list_delete_link (GList *list, GList *link_);
GList *g_list_remove (GList *list, gconstpointer data);
GList *g_list_reverse (GList *list);
GList *g_list_copy (GList *list);
GList *g_list_find (GList *list, gconstpointer data);
GList *g_list_find_custom (GList *list, gconstpointer data, GCompareFunc func);
GList *g_list_last (GList *list);
GList *g_list_nth (GList *list, guint n);
GList *g_list_sort (GList *list, GCompareFunc compare_func);
guint g_list_length (GList *list);
void g_list_foreach (GList *list, GFunc func, gpointer user_data);
void g_list_free (GList *list);
void g_list_free_full (GList *list, GDestroyNotify free_func);
#define g_list_next(list) ((list) ? (((GList *)(list))->next) : NULL)
#define g_list_previous(list) ((list) ? (((GList *)(list))->prev) : NULL)
typedef struct _GSList GSList;
struct _GSList { gpointer data; GSList *next; };
GSList *g_slist_append (GSList *list, gpointer data);
GSList *g_slist_prepend (GSList *list, gpointer data);
GSList *g_slist_reverse (GSList *list);
GSList *g_slist_delete_link (GSList *list, GSList *link_);
GSList *g_slist_find_custom (GSList *list, gconstpointer data, GCompareFunc func);
GSList *g_slist_sort (GSList *list, GCompareFunc compare_func);
guint g_slist_length (GSList *list);
void g_slist_foreach (GSList *list, GFunc func, gpointer user_data);
void g_slist_free (GSList *list);
void g_slist_free_1 (GSList *list);
void g_slist_free_full (GSList *list, GDestroyNotify free_func);
#define g_slist_next(slist) ((slist) ? (((GSList *)(slist))->next) : NULL)

/* hash table */
typedef struct _GHashTable GHashTable;
typedef struct _GHashTableIter GHashTableIter;
struct _GHashTableIter { gpointer dummy1; gpointer dummy2; gpointer dummy3; int dummy4; gboolean dummy5; gpointer dummy6; };
GHashTable *g_hash_table_new (GHashFunc hash_func, GEqualFunc key_equal_func);
GHashTable *g_hash_table_new_full (GHashFunc hash_func, GEqualFunc key_equal_func, GDestroyNotify key_destroy_func, GDestroyNotify value_destroy_func);
void g_hash_table_destroy (GHashTable *hash_table);
gboolean g_hash_table_insert (GHashTable *hash_table, gpointer key, gpointer value);
gboolean g_hash_table_replace (GHashTable *hash_table, gpointer key, gpointer value);
gboolean g_hash_table_add (GHashTable *hash_table, gpointer key);
gboolean g_hash_table_remove (GHashTable *hash_table, gconstpointer key);
void g_hash_table_remove_all (GHashTable *hash_table);
gboolean g_hash_table_contains (GHashTable *hash_table, gconstpointer key);
gpointer g_hash_table_lookup (GHashTable *hash_table, gconstpointer key);
gboolean g_hash_table_lookup_extended (GHashTable *hash_table, gconstpointer lookup_key, gpointer *orig_key, gpointer *value);
void g_hash_table_foreach (GHashTable *hash_table, GHFunc func, gpointer user_data);
guint g_hash_table_size (GHashTable *hash_table);
GList *g_hash_table_get_keys (GHashTable *hash_table);
void g_hash_table_iter_init (GHashTableIter *iter, GHashTable *hash_table);
gboolean g_hash_table_iter_next (GHashTableIter *iter, gpointer *key, gpointer *value);
void g_hash_table_iter_steal (GHashTableIter *iter);
void g_hash_table_iter_remove (GHashTableIter *iter);
GHashTable *g_hash_table_ref (GHashTable *hash_table);
void g_hash_table_unref (GHashTable *hash_table);

/* arrays */
typedef struct _GPtrArray GPtrArray;
struct _GPtrArray { gpointer *pdata; guint len; };
GPtrArray *g_ptr_array_new (void);
GPtrArray *g_ptr_array_new_full (guint reserved_size, GDestroyNotify element_free_func);
gpointer *g_ptr_array_free (GPtrArray *array, gboolean free_seg);
void g_ptr_array_add (GPtrArray *array, gpointer data);
#define g_ptr_array_index(array,index_) ((array)->pdata)[index_]
typedef struct _GByteArray GByteArray;
struct _GByteArray { guint8 *data; guint len; };
GByteArray *g_byte_array_new (void);
guint8 *g_byte_array_free (GByteArray *array, gboolean free_segment);
GByteArray *g_byte_array_append (GByteArray *array, const guint8 *data, guint len);
typedef struct _GArray GArray;
struct _GArray { gchar *data; guint len; };

/* files */
typedef enum { G_FILE_ERROR_EXIST, G_FILE_ERROR_ISDIR, G_FILE_ERROR_ACCES, G_FILE_ERROR_NAMETOOLONG, G_FILE_ERROR_NOENT, G_FILE_ERROR_NOTDIR, G_FILE_ERROR_NXIO, G_FILE_ERROR_NODEV, G_FILE_ERROR_ROFS, G_FILE_ERROR_TXTBSY, G_FILE_ERROR_FAULT, G_FILE_ERROR_LOOP, G_FILE_ERROR_NOSPC, G_FILE_ERROR_NOMEM, G_FILE_ERROR_MFILE, G_FILE_ERROR_NFILE, G_FILE_ERROR_BADF, G_FILE_ERROR_INVAL, G_FILE_ERROR_PIPE, G_FILE_ERROR_AGAIN, G_FILE_ERROR_INTR, G_FILE_ERROR_IO, G_FILE_ERROR_PERM, G_FILE_ERROR_NOSYS, G_FILE_ERROR_FAILED } GFileError;
typedef enum { G_FILE_TEST_IS_REGULAR = 1 << 0, G_FILE_TEST_IS_SYMLINK = 1 << 1, G_FILE_TEST_IS_DIR = 1 << 2, G_FILE_TEST_IS_EXECUTABLE = 1 << 3, G_FILE_TEST_EXISTS = 1 << 4 } GFileTest;
GQuark g_file_error_quark (void);
#define G_FILE_ERROR g_file_error_quark ()
GFileError g_file_error_from_errno (gint err_no);
gboolean g_file_test (const gchar *filename, GFileTest test);
gboolean g_file_get_contents (const gchar *filename, gchar **contents, gsize *length, GError **error);
gboolean g_file_set_contents (const gchar *filename, const gchar *contents, gssize length, GError **error);
gchar *g_build_filename (const gchar *first_element, ...) G_GNUC_NULL_TERMINATED;
gchar *g_path_get_basename (const gchar *file_name);
gchar *g_path_get_dirname (const gchar *file_name);
gboolean g_path_is_absolute (const gchar *file_name);
const gchar *g_getenv (const gchar *variable);
const gchar *g_get_user_data_dir (void);
const gchar * const *g_get_system_data_dirs (void);
typedef struct _GDir GDir;
GDir *g_dir_open (const gchar *path, guint flags, GError **error);
const gchar *g_dir_read_name (GDir *dir);
void g_dir_close (GDir *dir);
typedef struct _GMappedFile GMappedFile;
GMappedFile *g_mapped_file_new (const gchar *filename, gboolean writable, GError **error);
gsize g_mapped_file_get_length (GMappedFile *file);
gchar *g_mapped_file_get_contents (GMappedFile *file);
void g_mapped_file_unref (GMappedFile *file);

/* markup */
typedef enum { G_MARKUP_ERROR_BAD_UTF8, G_MARKUP_ERROR_EMPTY, G_MARKUP_ERROR_PARSE, G_MARKUP_ERROR_UNKNOWN_ELEMENT, G_MARKUP_ERROR_UNKNOWN_ATTRIBUTE, G_MARKUP_ERROR_INVALID_CONTENT, G_MARKUP_ERROR_MISSING_ATTRIBUTE } GMarkupError;
GQuark g_markup_error_quark (void);
#define G_MARKUP_ERROR g_markup_error_quark ()
typedef enum { G_MARKUP_DEFAULT_FLAGS = 0, G_MARKUP_DO_NOT_USE_THIS_UNSUPPORTED_FLAG = 1 << 0, G_MARKUP_TREAT_CDATA_AS_TEXT = 1 << 1, G_MARKUP_PREFIX_ERROR_POSITION = 1 << 2, G_MARKUP_IGNORE_QUALIFIED = 1 << 3 } GMarkupParseFlags;
typedef struct _GMarkupParseContext GMarkupParseContext;
typedef struct _GMarkupParser GMarkupParser;
struct _GMarkupParser {
  void (*start_element) (GMarkupParseContext *context, const gchar *element_name, const gchar **attribute_names, const gchar **attribute_values, gpointer user_data, GError **error);
  void (*end_element) (GMarkupParseContext *context, const gchar *element_name, gpointer user_data, GError **error);
  void (*text) (GMarkupParseContext *context, const gchar *text, gsize text_len, gpointer user_data, GError **error);
  void (*passthrough) (GMarkupParseContext *context, const gchar *passthrough_text, gsize text_len, gpointer user_data, GError **error);
  void (*error) (GMarkupParseContext *context, GError *error, gpointer user_data);
};
GMarkupParseContext *g_markup_parse_context_new (const GMarkupParser *parser, GMarkupParseFlags flags, gpointer user_data, GDestroyNotify user_data_dnotify);
void g_markup_parse_context_free (GMarkupParseContext *context);
gboolean g_markup_parse_context_parse (GMarkupParseContext *context, const gchar *text, gssize text_len, GError **error);
gboolean g_markup_parse_context_end_parse (GMarkupParseContext *context, GError **error);
void g_markup_parse_context_get_position (GMarkupParseContext *context, gint *line_number, gint *char_number);
const gchar *g_markup_parse_context_get_element (GMarkupParseContext *context);

/* options */
typedef struct _GOptionContext GOptionContext;
typedef struct _GOptionGroup GOptionGroup;
typedef struct _GOptionEntry GOptionEntry;
typedef enum { G_OPTION_FLAG_NONE = 0, G_OPTION_FLAG_HIDDEN = 1 << 0, G_OPTION_FLAG_IN_MAIN = 1 << 1, G_OPTION_FLAG_REVERSE = 1 << 2, G_OPTION_FLAG_NO_ARG = 1 << 3, G_OPTION_FLAG_FILENAME = 1 << 4, G_OPTION_FLAG_OPTIONAL_ARG = 1 << 5, G_OPTION_FLAG_NOALIAS = 1 << 6 } GOptionFlags;
typedef enum { G_OPTION_ARG_NONE, G_OPTION_ARG_STRING, G_OPTION_ARG_INT, G_OPTION_ARG_CALLBACK, G_OPTION_ARG_FILENAME, G_OPTION_ARG_STRING_ARRAY, G_OPTION_ARG_FILENAME_ARRAY, G_OPTION_ARG_DOUBLE, G_OPTION_ARG_INT64 } GOptionArg;
typedef gboolean (*GOptionArgFunc) (const gchar *option_name, const gchar *value, gpointer data, GError **error);
struct _GOptionEntry { const gchar *long_name; gchar short_name; gint flags; GOptionArg arg; gpointer arg_data; const gchar *description; const gchar *arg_description; };
#define G_OPTION_REMAINING ""
#define G_OPTION_ENTRY_NULL { NULL, 0, 0, 0, NULL, NULL, NULL }
GOptionContext *g_option_context_new (const gchar *parameter_string);
void g_option_context_free (GOptionContext *context);
void g_option_context_add_main_entries (GOptionContext *context, const GOptionEntry *entries, const gchar *translation_domain);
void g_option_context_add_group (GOptionContext *context, GOptionGroup *group);
gboolean g_option_context_parse (GOptionContext *context, gint *argc, gchar ***argv, GError **error);
GOptionGroup *g_option_group_new (const gchar *name, const gchar *description, const gchar *help_description, gpointer user_data, GDestroyNotify destroy);
void g_option_group_add_entries (GOptionGroup *group, const GOptionEntry *entries);

/* testing (only for symbols referenced) */
void g_test_init (int *argc, char ***argv, ...) G_GNUC_NULL_TERMINATED;
int g_test_run (void);
void g_test_add_func (const char *testpath, void (*test_func) (void));

#endif
