#include <glib.h>
