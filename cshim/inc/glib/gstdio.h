#ifndef __MINI_GSTDIO_H__
#define __MINI_GSTDIO_H__
#include <glib.h>
#include <sys/stat.h>
FILE *g_fopen (const gchar *filename, const gchar *mode);
int g_open (const gchar *filename, int flags, int mode);
int g_unlink (const gchar *filename);
int g_rename (const gchar *oldfilename, const gchar *newfilename);
int g_remove (const gchar *filename);
#endif
