#ifndef __MINI_GMODULE_H__
#define __MINI_GMODULE_H__
#include <glib.h>
typedef struct _GModule GModule;
typedef enum { G_MODULE_BIND_LAZY = 1 << 0, G_MODULE_BIND_LOCAL = 1 << 1, G_MODULE_BIND_MASK = 0x03 } GModuleFlags;
GModule *g_module_open (const gchar *file_name, GModuleFlags flags);
gboolean g_module_close (GModule *module);
const gchar *g_module_error (void);
gboolean g_module_symbol (GModule *module, const gchar *symbol_name, gpointer *symbol);
gboolean g_module_supported (void);
#endif
