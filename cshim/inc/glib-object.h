#ifndef __MINI_GLIB_OBJECT_H__
#define __MINI_GLIB_OBJECT_H__
#include <glib.h>
typedef gsize GType;
#define G_TYPE_FUNDAMENTAL_SHIFT (2)
#define G_TYPE_MAKE_FUNDAMENTAL(x) ((GType) ((x) << G_TYPE_FUNDAMENTAL_SHIFT))
#define G_TYPE_FUNDAMENTAL_MAX (255 << G_TYPE_FUNDAMENTAL_SHIFT)
#define G_TYPE_INVALID G_TYPE_MAKE_FUNDAMENTAL (0)
#define G_TYPE_NONE G_TYPE_MAKE_FUNDAMENTAL (1)
#define G_TYPE_INTERFACE G_TYPE_MAKE_FUNDAMENTAL (2)
#define G_TYPE_CHAR G_TYPE_MAKE_FUNDAMENTAL (3)
#define G_TYPE_UCHAR G_TYPE_MAKE_FUNDAMENTAL (4)
#define G_TYPE_BOOLEAN G_TYPE_MAKE_FUNDAMENTAL (5)
#define G_TYPE_INT G_TYPE_MAKE_FUNDAMENTAL (6)
#define G_TYPE_UINT G_TYPE_MAKE_FUNDAMENTAL (7)
#define G_TYPE_LONG G_TYPE_MAKE_FUNDAMENTAL (8)
#define G_TYPE_ULONG G_TYPE_MAKE_FUNDAMENTAL (9)
#define G_TYPE_INT64 G_TYPE_MAKE_FUNDAMENTAL (10)
#define G_TYPE_UINT64 G_TYPE_MAKE_FUNDAMENTAL (11)
#define G_TYPE_ENUM G_TYPE_MAKE_FUNDAMENTAL (12)
#define G_TYPE_FLAGS G_TYPE_MAKE_FUNDAMENTAL (13)
#define G_TYPE_FLOAT G_TYPE_MAKE_FUNDAMENTAL (14)
#define G_TYPE_DOUBLE G_TYPE_MAKE_FUNDAMENTAL (15)
#define G_TYPE_STRING G_TYPE_MAKE_FUNDAMENTAL (16)
#define G_TYPE_POINTER G_TYPE_MAKE_FUNDAMENTAL (17)
#define G_TYPE_BOXED G_TYPE_MAKE_FUNDAMENTAL (18)
#define G_TYPE_PARAM G_TYPE_MAKE_FUNDAMENTAL (19)
#define G_TYPE_OBJECT G_TYPE_MAKE_FUNDAMENTAL (20)
#define G_TYPE_VARIANT G_TYPE_MAKE_FUNDAMENTAL (21)
typedef struct _GTypeClass GTypeClass;
typedef struct _GTypeInstance GTypeInstance;
typedef struct _GTypeInterface GTypeInterface;
typedef struct _GValue GValue;
struct _GTypeClass { GType g_type; };
struct _GTypeInstance { GTypeClass *g_class; };
struct _GTypeInterface { GType g_type; GType g_instance_type; };
typedef enum { G_TYPE_FLAG_NONE = 0, G_TYPE_FLAG_ABSTRACT = (1 << 4), G_TYPE_FLAG_VALUE_ABSTRACT = (1 << 5), G_TYPE_FLAG_FINAL = (1 << 6) } GTypeFlags;
typedef void (*GBaseInitFunc) (gpointer g_class);
typedef void (*GBaseFinalizeFunc) (gpointer g_class);
typedef void (*GClassInitFunc) (gpointer g_class, gpointer class_data);
typedef void (*GClassFinalizeFunc) (gpointer g_class, gpointer class_data);
typedef void (*GInstanceInitFunc) (GTypeInstance *instance, gpointer g_class);
typedef gpointer (*GBoxedCopyFunc) (gpointer boxed);
typedef void (*GBoxedFreeFunc) (gpointer boxed);
const gchar *g_type_name (GType type);
GType g_type_from_name (const gchar *name);
GType g_type_parent (GType type);
GType g_type_fundamental (GType type_id);
gboolean g_type_is_a (GType type, GType is_a_type);
gpointer g_type_class_ref (GType type);
gpointer g_type_class_peek (GType type);
void g_type_class_unref (gpointer g_class);
gpointer g_type_class_peek_parent (gpointer g_class);
gpointer g_type_interface_peek (gpointer instance_class, GType iface_type);
gpointer g_type_default_interface_ref (GType g_type);
GType *g_type_interfaces (GType type, guint *n_interfaces);
GType *g_type_interface_prerequisites (GType interface_type, guint *n_prerequisites);
gboolean g_type_test_flags (GType type, guint flags);
gboolean g_type_check_instance_is_a (GTypeInstance *instance, GType iface_type);
GTypeInstance *g_type_check_instance_cast (GTypeInstance *instance, GType iface_type);
gboolean g_type_check_class_is_a (GTypeClass *g_class, GType is_a_type);
GTypeClass *g_type_check_class_cast (GTypeClass *g_class, GType is_a_type);
GType g_type_register_static_simple (GType parent_type, const gchar *type_name, guint class_size, GClassInitFunc class_init, guint instance_size, GInstanceInitFunc instance_init, GTypeFlags flags);
gint g_type_add_instance_private (GType class_type, gsize private_size);
void g_type_class_adjust_private_offset (gpointer g_class, gint *private_size_or_offset);
GType g_boxed_type_register_static (const gchar *name, GBoxedCopyFunc boxed_copy, GBoxedFreeFunc boxed_free);
#define G_TYPE_FUNDAMENTAL(type) (g_type_fundamental (type))
#define G_TYPE_IS_ABSTRACT(type) (g_type_test_flags ((type), G_TYPE_FLAG_ABSTRACT))
#define G_TYPE_IS_FINAL(type) (g_type_test_flags ((type), G_TYPE_FLAG_FINAL))
#define G_TYPE_IS_INSTANTIATABLE(type) (g_type_test_flags ((type), (1 << 1)))
#define G_TYPE_IS_FUNDAMENTAL(type) ((type) <= G_TYPE_FUNDAMENTAL_MAX)
#define G_TYPE_CHECK_INSTANCE_CAST(instance, g_type, c_type) ((c_type*) g_type_check_instance_cast ((GTypeInstance*) (instance), (g_type)))
#define G_TYPE_CHECK_CLASS_CAST(g_class, g_type, c_type) ((c_type*) g_type_check_class_cast ((GTypeClass*) (g_class), (g_type)))
#define G_TYPE_CHECK_INSTANCE_TYPE(instance, g_type) (g_type_check_instance_is_a ((GTypeInstance*) (instance), (g_type)))
#define G_TYPE_CHECK_CLASS_TYPE(g_class, g_type) (g_type_check_class_is_a ((GTypeClass*) (g_class), (g_type)))
#define G_TYPE_INSTANCE_GET_CLASS(instance, g_type, c_type) ((c_type*) (((GTypeInstance*) (instance))->g_class))
#define G_TYPE_FROM_CLASS(g_class) (((GTypeClass*) (g_class))->g_type)
#define G_TYPE_FROM_INSTANCE(instance) (G_TYPE_FROM_CLASS (((GTypeInstance*) (instance))->g_class))

struct _GValue { GType g_type; union { gint v_int; guint v_uint; glong v_long; gulong v_ulong; gint64 v_int64; guint64 v_uint64; gfloat v_float; gdouble v_double; gpointer v_pointer; } data[2]; };
#define G_VALUE_INIT { 0, { { 0 } } }
#define G_VALUE_TYPE(value) (((GValue*) (value))->g_type)
#define G_VALUE_HOLDS(value,type) (g_type_check_value_holds ((GValue*) (value), (type)))
#define G_VALUE_HOLDS_STRING(value) (G_VALUE_HOLDS ((value), G_TYPE_STRING))
gboolean g_type_check_value_holds (const GValue *value, GType type);
GValue *g_value_init (GValue *value, GType g_type);
void g_value_unset (GValue *value);
gboolean g_value_transform (const GValue *src_value, GValue *dest_value);
gchar *g_strdup_value_contents (const GValue *value);
void g_value_set_schar (GValue *value, gint8 v_char);
void g_value_set_uchar (GValue *value, guchar v_uchar);
void g_value_set_boolean (GValue *value, gboolean v_boolean);
void g_value_set_int (GValue *value, gint v_int);
void g_value_set_uint (GValue *value, guint v_uint);
void g_value_set_long (GValue *value, glong v_long);
void g_value_set_ulong (GValue *value, gulong v_ulong);
void g_value_set_int64 (GValue *value, gint64 v_int64);
void g_value_set_uint64 (GValue *value, guint64 v_uint64);
void g_value_set_float (GValue *value, gfloat v_float);
void g_value_set_double (GValue *value, gdouble v_double);
void g_value_set_string (GValue *value, const gchar *v_string);
void g_value_set_pointer (GValue *value, gpointer v_pointer);
void g_value_set_boxed (GValue *value, gconstpointer v_boxed);
typedef struct _GParamSpec GParamSpec;
void g_value_set_param (GValue *value, GParamSpec *param);
const gchar *g_value_get_string (const GValue *value);
gpointer g_value_get_object (const GValue *value);
gpointer g_value_get_boxed (const GValue *value);

typedef struct _GObject GObject;
typedef struct _GObjectClass GObjectClass;
typedef struct _GObject GInitiallyUnowned;
typedef struct _GObjectConstructParam GObjectConstructParam;
struct _GObject { GTypeInstance g_type_instance; guint ref_count; gpointer qdata; };
struct _GObjectClass {
  GTypeClass g_type_class;
  GSList *construct_properties;
  GObject* (*constructor) (GType type, guint n_construct_properties, GObjectConstructParam *construct_properties);
  void (*set_property) (GObject *object, guint property_id, const GValue *value, GParamSpec *pspec);
  void (*get_property) (GObject *object, guint property_id, GValue *value, GParamSpec *pspec);
  void (*dispose) (GObject *object);
  void (*finalize) (GObject *object);
  void (*dispatch_properties_changed) (GObject *object, guint n_pspecs, GParamSpec **pspecs);
  void (*notify) (GObject *object, GParamSpec *pspec);
  void (*constructed) (GObject *object);
  gsize flags; gsize n_construct_properties; gpointer pspecs; gsize n_pspecs; gpointer pdummy[3];
};
#define G_OBJECT(object) (G_TYPE_CHECK_INSTANCE_CAST ((object), G_TYPE_OBJECT, GObject))
#define G_OBJECT_CLASS(class) (G_TYPE_CHECK_CLASS_CAST ((class), G_TYPE_OBJECT, GObjectClass))
gpointer g_object_new (GType object_type, const gchar *first_property_name, ...);
gpointer g_object_ref (gpointer object);
void g_object_unref (gpointer object);
#define g_clear_object(object_ptr) g_clear_pointer ((object_ptr), g_object_unref)
typedef enum { G_PARAM_READABLE = 1 << 0, G_PARAM_WRITABLE = 1 << 1, G_PARAM_READWRITE = 3, G_PARAM_CONSTRUCT = 1 << 2, G_PARAM_CONSTRUCT_ONLY = 1 << 3 } GParamFlags;
typedef enum { G_SIGNAL_RUN_FIRST = 1 << 0, G_SIGNAL_RUN_LAST = 1 << 1, G_SIGNAL_RUN_CLEANUP = 1 << 2, G_SIGNAL_NO_RECURSE = 1 << 3, G_SIGNAL_DETAILED = 1 << 4, G_SIGNAL_ACTION = 1 << 5, G_SIGNAL_NO_HOOKS = 1 << 6, G_SIGNAL_MUST_COLLECT = 1 << 7, G_SIGNAL_DEPRECATED = 1 << 8 } GSignalFlags;
typedef struct _GClosure GClosure;
typedef void (*GCallback) (void);
typedef struct _GClosureNotifyData GClosureNotifyData;
typedef void (*GClosureMarshal) (GClosure *closure, GValue *return_value, guint n_param_values, const GValue *param_values, gpointer invocation_hint, gpointer marshal_data);
struct _GClosure { guint ref_count : 15; guint meta_marshal_nouse : 1; guint n_guards : 1; guint n_fnotifiers : 2; guint n_inotifiers : 8; guint in_inotify : 1; guint floating : 1; guint derivative_flag : 1; guint in_marshal : 1; guint is_invalid : 1;
  void (*marshal) (GClosure *closure, GValue *return_value, guint n_param_values, const GValue *param_values, gpointer invocation_hint, gpointer marshal_data);
  gpointer data; GClosureNotifyData *notifiers; };
typedef struct _GCClosure GCClosure;
struct _GCClosure { GClosure closure; gpointer callback; };
#define G_CCLOSURE_SWAP_DATA(cclosure) (((GClosure*) (cclosure))->derivative_flag)

struct _GParamSpec { GTypeInstance g_type_instance; const gchar *name; GParamFlags flags; GType value_type; GType owner_type; gchar *_nick; gchar *_blurb; gpointer qdata; guint ref_count; guint param_id; };
typedef struct _GSignalQuery GSignalQuery;
struct _GSignalQuery { guint signal_id; const gchar *signal_name; GType itype; GSignalFlags signal_flags; GType return_type; guint n_params; const GType *param_types; };
guint *g_signal_list_ids (GType itype, guint *n_ids);
void g_signal_query (guint signal_id, GSignalQuery *query);
typedef struct _GEnumValue GEnumValue; typedef struct _GFlagsValue GFlagsValue;
typedef struct _GEnumClass GEnumClass; typedef struct _GFlagsClass GFlagsClass;
struct _GEnumValue { gint value; const gchar *value_name; const gchar *value_nick; };
struct _GFlagsValue { guint value; const gchar *value_name; const gchar *value_nick; };
struct _GEnumClass { GTypeClass g_type_class; gint minimum; gint maximum; guint n_values; GEnumValue *values; };
struct _GFlagsClass { GTypeClass g_type_class; guint mask; guint n_values; GFlagsValue *values; };
GParamSpec **g_object_class_list_properties (GObjectClass *oclass, guint *n_properties);
GParamSpec **g_object_interface_list_properties (gpointer g_iface, guint *n_properties_p);
const GValue *g_param_spec_get_default_value (GParamSpec *pspec);
void g_object_get (gpointer object, const gchar *first_property_name, ...) G_GNUC_NULL_TERMINATED;
void g_object_set (gpointer object, const gchar *first_property_name, ...) G_GNUC_NULL_TERMINATED;
#define _G_DEFINE_TYPE_EXTENDED_BEGIN(TypeName, type_name, TYPE_PARENT, flags) \
static void     type_name##_init              (TypeName        *self); \
static void     type_name##_class_init        (TypeName##Class *klass); \
static GType    type_name##_get_type_once     (void); \
static gpointer type_name##_parent_class = NULL; \
static gint     TypeName##_private_offset; \
static void     type_name##_class_intern_init (gpointer klass) \
{ \
  type_name##_parent_class = g_type_class_peek_parent (klass); \
  if (TypeName##_private_offset != 0) \
    g_type_class_adjust_private_offset (klass, &TypeName##_private_offset); \
  type_name##_class_init ((TypeName##Class*) klass); \
} \
G_GNUC_UNUSED static inline gpointer type_name##_get_instance_private (TypeName *self) \
{ return (G_STRUCT_MEMBER_P (self, TypeName##_private_offset)); } \
GType type_name##_get_type (void) \
{ \
  static gsize static_g_define_type_id = 0; \
  if (g_once_init_enter (&static_g_define_type_id)) \
    { GType g_define_type_id = type_name##_get_type_once (); g_once_init_leave (&static_g_define_type_id, g_define_type_id); } \
  return static_g_define_type_id; \
} \
static GType type_name##_get_type_once (void) \
{ \
  GType g_define_type_id = g_type_register_static_simple (TYPE_PARENT, #TypeName, sizeof (TypeName##Class), \
        (GClassInitFunc)(void (*)(void)) type_name##_class_intern_init, sizeof (TypeName), \
        (GInstanceInitFunc)(void (*)(void)) type_name##_init, (GTypeFlags) flags); \
    {
#define _G_DEFINE_TYPE_EXTENDED_END() } return g_define_type_id; }
#define G_DEFINE_TYPE_WITH_CODE(TN, t_n, T_P, _C_) _G_DEFINE_TYPE_EXTENDED_BEGIN (TN, t_n, T_P, 0) {_C_;} _G_DEFINE_TYPE_EXTENDED_END()
#define G_ADD_PRIVATE(TypeName) { TypeName##_private_offset = g_type_add_instance_private (g_define_type_id, sizeof (TypeName##Private)); }
#endif
