#ifndef __MINI_GIO_H__
#define __MINI_GIO_H__
#include <glib.h>
#include <glib-object.h>
typedef struct _GFile GFile;
typedef struct _GCancellable GCancellable;
typedef enum { G_FILE_COPY_NONE = 0, G_FILE_COPY_OVERWRITE = (1 << 0) } GFileCopyFlags;
typedef void (*GFileProgressCallback) (goffset current_num_bytes, goffset total_num_bytes, gpointer data);
GFile *g_file_new_for_path (const char *path);
gboolean g_file_move (GFile *source, GFile *destination, GFileCopyFlags flags, GCancellable *cancellable, GFileProgressCallback progress_callback, gpointer progress_callback_data, GError **error);
#endif
