#define GIR_SUFFIX "gir-1.0"
#define GIR_DIR "/usr/share/gir-1.0"
#define GOBJECT_INTROSPECTION_LIBDIR "/usr/lib"
#define GOBJECT_INTROSPECTION_DATADIR "/usr/share"
#define GOBJECT_INTROSPECTION_RELATIVE_LIBDIR "lib"
#define SIZEOF_CHAR 1
#define SIZEOF_SHORT 2
#define SIZEOF_INT 4
#define SIZEOF_LONG 8
#define HAVE_DLFCN_H 1
#define _GI_EXTERN __attribute__((visibility("default"))) extern
