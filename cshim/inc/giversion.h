/* Copyright (C) 2018 Christoph Reiter
 *
 * This library is free software; you can redistribute it and/or
 * modify it under the terms of the GNU Lesser General Public
 * License as published by the Free Software Foundation; either
 * version 2 of the License, or (at your option) any later version.
 *
 * This library is distributed in the hope that it will be useful,
 * but WITHOUT ANY WARRANTY; without even the implied warranty of
 * MERCHANTABILITY or FITNESS FOR A PARTICULAR PURPOSE.  See the GNU
 * Lesser General Public License for more details.
 *
 * You should have received a copy of the GNU Lesser General Public
 * License along with this library; if not, write to the
 * Free Software Foundation, Inc., 59 Temple Place - Suite 330,
 * Boston, MA 02111-1307, USA.
 */

#ifndef __GIVERISON_H__
#define __GIVERISON_H__

#if !defined (__GIREPOSITORY_H_INSIDE__) && !defined (GI_COMPILATION)
#error "Only <girepository.h> can be included directly."
#endif

G_BEGIN_DECLS

#define GI_MAJOR_VERSION 1
#define GI_MINOR_VERSION 86
#define GI_MICRO_VERSION 1

#define GI_CHECK_VERSION(major,minor,micro) \
    (GI_MAJOR_VERSION > (major) || \
     (GI_MAJOR_VERSION == (major) && GI_MINOR_VERSION > (minor)) || \
     (GI_MAJOR_VERSION == (major) && GI_MINOR_VERSION == (minor) && \
      GI_MICRO_VERSION >= (micro)))

GI_AVAILABLE_IN_1_60
guint gi_get_major_version (void) G_GNUC_CONST;
GI_AVAILABLE_IN_1_60
guint gi_get_minor_version (void) G_GNUC_CONST;
GI_AVAILABLE_IN_1_60
guint gi_get_micro_version (void) G_GNUC_CONST;

G_END_DECLS

#endif  /* __GIVERISON_H__ */
