#!/bin/bash
# Build the whole Coq development from scratch (offline). Each check rebuilds
# incrementally afterwards; Gen/*.v are regenerated from /repo here and on every check.
set -e
HERE="$(cd "$(dirname "$0")" && pwd)"
export PYTHONPATH="$HERE/harness:$HERE/translate:${GIV_REPO:-/repo}"
export PYTHONHASHSEED=0 PYTHONDONTWRITEBYTECODE=1 GI_SCANNER_DISABLE_CACHE=1
cd "$HERE"
/venv/bin/python harness/setup_all.py
