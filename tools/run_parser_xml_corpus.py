import sys, types, os, unittest
os.environ['GI_SCANNER_DISABLE_CACHE'] = '1'
m = types.ModuleType('giscanner._giscanner')
class SourceScanner(object): pass
m.SourceScanner = SourceScanner
sys.modules['giscanner._giscanner'] = m
sys.path.insert(0, os.path.join(os.getcwd(), 'tests/scanner/annotationparser'))
import test_parser
suite = test_parser.load_tests(unittest.defaultTestLoader, None, None) if hasattr(test_parser, 'load_tests') else unittest.defaultTestLoader.loadTestsFromModule(test_parser)
r = unittest.TextTestRunner(verbosity=0).run(suite)
print('XML', r.testsRun, 'fail', len(r.failures), 'err', len(r.errors))
