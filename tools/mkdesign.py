#!/usr/bin/env python3
"""Assemble /verif/DESIGN.md from the hand-written parts in tools/design/ and from MANIFEST.json,
coq/Props/*.v, known-findings.json, seeded/*/meta.json and seeded/MATRIX.json."""
import glob
import json
import os
import re
import subprocess
import textwrap

ROOT = os.path.dirname(os.path.dirname(os.path.abspath(__file__)))
D = os.path.join(ROOT, 'tools', 'design')


def wrap(text, indent=''):
    return '\n'.join(textwrap.wrap(text, 78, initial_indent=indent, subsequent_indent=indent, break_long_words=False,
                                   break_on_hyphens=False))


def wrap_item(text):
    return wrap(text).replace('\n', '\n  ')


def theorems(prop):
    src = open(os.path.join(ROOT, 'coq', 'Props', prop + '.v')).read()
    return re.findall(r'^(?:Theorem|Lemma)\s+(\w+)', src, re.M)


def main():
    man = json.load(open(os.path.join(ROOT, 'MANIFEST.json')))
    props = {}
    for l in open(os.path.join(ROOT, 'properties.jsonl')):
        p = json.loads(l)
        props[p['id']] = p
    kf = json.load(open(os.path.join(ROOT, 'known-findings.json')))
    notes = json.load(open(os.path.join(D, 'property_notes.json')))
    n_thm = 0
    sec4 = ['## 4. The twenty properties', '',
            'Each entry: the deciding technique, the theorems of `coq/Props/Cxx.v` (all closed under the global context), what they',
            'say and how the model is tied to /repo (from `MANIFEST.json`, which the checks\' evidence repeats), the limits, and the',
            'sources anchored.', '']
    for c in man['checks']:
        pid = c['property_id']
        th = theorems(pid)
        n_thm += len(th)
        sec4.append('### %s %s' % (pid, props[pid]['title']))
        sec4.append('')
        sec4.append(wrap('*Technique.* ' + c['technique']))
        sec4.append('')
        sec4.append(wrap('*Files.* `coq/Model/%s*.v`, `coq/Proofs/%s*.v`, `coq/Props/%s.v`, `harness/%s.py`%s; anchored in %s.'
                         % (pid, pid, pid, pid.lower(), notes.get(pid, {}).get('files', ''),
                            ', '.join('`%s`' % f for f in props[pid]['anchors']['files']))))
        sec4.append('')
        sec4.append(wrap('*Theorems (%d).* ' % len(th) + ', '.join('`%s`' % t for t in th) + '.'))
        sec4.append('')
        sec4.append(wrap('*What is proved and how it is tied.* ' + c['level_claimed']['text']))
        sec4.append('')
        sec4.append(wrap('*Limits.* ' + c.get('level_note', '')))
        extra = notes.get(pid, {}).get('note')
        if extra:
            sec4.append('')
            sec4.append(wrap('*Design notes.* ' + extra))
        sec4.append('')
    fixed = ['* ' + f[len('fixed: '):] for f in kf['fixed']]
    fixed_txt = '\n'.join(wrap(f, '  ')[2:] if False else wrap(f).replace('\n', '\n  ') for f in fixed)
    open_txt = '\n'.join(wrap('* **%s** (%s) — %s Site: %s. Input: %s' % (f['id'], f['property'], f['what'] + '.', f['site'], f['input']))
                         .replace('\n', '\n  ') for f in kf['findings'] if f.get('status', 'open') == 'open')
    n_fix = len(kf['fixed'])
    n_open = len([f for f in kf['findings'] if f.get('status', 'open') == 'open'])
    # seeded matrix
    matrix = {}
    mpath = os.path.join(ROOT, 'seeded', 'MATRIX.json')
    mhead = None
    if os.path.exists(mpath):
        m = json.load(open(mpath))
        mhead = m.get('repo_head')
        matrix = {r['id']: r for r in m['rows']}
    rows = []
    missed_first = 0
    for f in sorted(glob.glob(os.path.join(ROOT, 'seeded', 'C*_*', 'meta.json'))):
        meta = json.load(open(f))
        sid = meta['id']
        r = matrix.get(sid, {})
        if meta.get('initially_missed'):
            missed_first += 1
        rows.append(wrap_item('* **%s** — %s Files: %s. Final tree: %s%s. %s%s' % (
            sid, meta.get('summary', '').strip().replace('\n', ' '),
            ', '.join(meta.get('files', [])),
            r.get('verdict', 'not re-run'),
            (' ("%s")' % r['reported'][0]) if r.get('reported') else '',
            'Missed at first; ' if meta.get('initially_missed') else '',
            (meta.get('note') or '').strip())))
    sec6 = ['## 6. Seeded changes: which check catches which change', '',
            wrap('Fresh sub-agents were given only the text of one property and a scratch git worktree of /repo (under /tmp, nothing from '
                 '/verif) and asked for changes that break the property, still compile, leave the 267 passing tests passing and need '
                 'something specific to manifest, each with a demonstration script. Every change kept here was confirmed in a scratch '
                 'worktree by `tools/seed_eval.sh` (the patch applies, the test summary is unchanged, the demonstration fails with '
                 'the patch and passes without), then applied to /repo (`git -C /repo apply`), the property\'s check run, and the change '
                 'undone (`git -C /repo checkout -- .`). None was ever committed to /repo. They are archived as '
                 '`seeded/<id>/{patch.diff, demo.py, meta.json}`.'), '',
            wrap('%d changes are archived; %d of them were **missed** by the check as it stood when the change arrived, and the check was '
                 'strengthened until it reported them (the note of each entry says how). `tools/seed_rerun.py` re-applies every '
                 'archived change to the final tree%s and records the verdict in `seeded/MATRIX.json`: "detected-with-failing-input" '
                 'means a `VIOLATION` line with a concrete replay, "detected-no-failing-input-found" a broken proof/translator/'
                 'correspondence without one, "patch-does-not-apply" that a later `fix:` commit rewrote the lines the change '
                 'touches.' % (len(rows), missed_first, (' (/repo at %s)' % mhead) if mhead else '')), '']
    if matrix:
        cnt = {}
        for r in matrix.values():
            cnt[r['verdict']] = cnt.get(r['verdict'], 0) + 1
        sec6.append('Verdicts on the final tree: ' + ', '.join('%s: %d' % kv for kv in sorted(cnt.items())) + '.')
        sec6.append('')
    sec6 += rows
    sec6.append('')
    coqchk = 'not yet run in this tree'
    cpath = os.path.join(D, 'coqchk.txt')
    if os.path.exists(cpath):
        coqchk = open(cpath).read().strip()
    out = []
    for name in ('00_head.md',):
        out.append(open(os.path.join(D, name)).read())
    out.append('\n'.join(sec4))
    out.append(open(os.path.join(D, '05_findings.md')).read().replace('{FIXED_LIST}', fixed_txt).replace('{OPEN_LIST}', open_txt))
    out.append('\n'.join(sec6))
    out.append(open(os.path.join(D, '07_tail.md')).read())
    text = '\n\n'.join(x.rstrip('\n') for x in out) + '\n'
    text = text.replace('{N_THEOREMS}', str(n_thm)).replace('{N_FIX}', str(n_fix)).replace('{N_OPEN}', str(n_open)).replace('{COQCHK}', coqchk)
    open(os.path.join(ROOT, 'DESIGN.md'), 'w').write(text)
    print('DESIGN.md: %d bytes, %d theorems, %d fixes, %d open findings, %d seeded changes' % (len(text), n_thm, n_fix, n_open, len(rows)))


if __name__ == '__main__':
    main()
