#!/bin/bash
# usage: tools/seed_eval.sh <PID> <dir-with-patch.diff> [check-args...]
# confirms a seeded change in its scratch worktree (tests unchanged, demo FAIL with / PASS without),
# then applies it to /repo, runs the property's check, and reverts /repo.
PID=$1; D=$2; shift 2
WT=/tmp/wt_$PID
[ -d "$WT" ] || git -C /repo worktree add --detach "$WT" HEAD >/dev/null 2>&1
git -C "$WT" checkout -q --detach "$(git -C /repo rev-parse HEAD)" 2>/dev/null
git -C "$WT" checkout -- . ; git -C "$WT" clean -fdq
echo "== $D"
if ! git -C "$WT" apply --check "$D/patch.diff" 2>/dev/null; then echo "PATCH DOES NOT APPLY"; exit 2; fi
git -C "$WT" apply "$D/patch.diff"
T=$(cd "$WT" && /venv/bin/python -m pytest -q -p no:cacheprovider --timeout=900 --continue-on-collection-errors 2>&1 | tail -1)
echo "tests(with patch): $T"
if [ -f "$D/demo.py" ]; then
  echo -n "demo(with patch): "; (cd "$WT" && PYTHONPATH="$WT" timeout 120 /venv/bin/python "$D/demo.py" 2>&1 | tail -2 | tr '\n' ' '); echo
  git -C "$WT" checkout -- .
  echo -n "demo(clean): "; (cd "$WT" && PYTHONPATH="$WT" timeout 120 /venv/bin/python "$D/demo.py" 2>&1 | tail -1); 
fi
git -C "$WT" checkout -- . ; git -C "$WT" clean -fdq
git -C /repo apply "$D/patch.diff" || { echo "cannot apply to /repo"; exit 2; }
echo "-- check on patched /repo:"
(cd /verif && ./check $PID "$@" 2>&1 | grep -v "^KNOWN-FINDING" | tail -4 | cut -c1-400)
git -C /repo checkout -- . ; git -C /repo clean -fdq -e '*.pyc' >/dev/null
(cd /verif && git checkout -q -- evidence 2>/dev/null)
