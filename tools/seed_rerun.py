#!/usr/bin/env python3
"""Apply every archived seeded change to /repo in turn, run the property's quick check, undo the change, and
write seeded/MATRIX.json (+ a markdown table on stdout).  /repo must be clean before and is clean afterwards."""
import glob
import json
import os
import re
import subprocess
import sys

ROOT = os.path.dirname(os.path.dirname(os.path.abspath(__file__)))
REPO = os.environ.get('GIV_REPO', '/repo')


def sh(*a, **k):
    return subprocess.run(a, capture_output=True, text=True, **k)


def main():
    only = sys.argv[1:]
    if sh('git', '-C', REPO, 'status', '--porcelain').stdout.strip():
        sys.exit('the working tree of %s is not clean' % REPO)
    rows = []
    for d in sorted(glob.glob(os.path.join(ROOT, 'seeded', 'C*_*'))):
        sid = os.path.basename(d)
        if only and sid not in only and sid.split('_')[0] not in only:
            continue
        meta = json.load(open(os.path.join(d, 'meta.json')))
        patch = os.path.join(d, 'patch.diff')
        prop = meta['property']
        row = dict(id=sid, property=prop, summary=meta.get('summary', '')[:200])
        chk = sh('git', '-C', REPO, 'apply', '--check', patch)
        if chk.returncode != 0:
            row['verdict'] = 'patch-does-not-apply'
            row['detail'] = chk.stderr.strip()[:300]
            rows.append(row)
            print(sid, row['verdict'], flush=True)
            continue
        sh('git', '-C', REPO, 'apply', patch)
        try:
            r = sh(os.path.join(ROOT, 'check'), prop, '--tier', 'quick', cwd=ROOT, timeout=3600)
            out = r.stdout
            viol = [l for l in out.split('\n') if l.startswith('VIOLATION property=%s' % prop)]
            concrete = [l for l in viol if not l.rstrip().endswith('no-failing-input-found')]
            row['exit'] = r.returncode
            row['violations'] = len(viol)
            row['verdict'] = ('detected-with-failing-input' if concrete else 'detected-no-failing-input-found' if viol
                              else 'MISSED')
            kinds = []
            for l in concrete[:3]:
                m = re.search(r'replay=(\S+)', l)
                if m and os.path.exists(m.group(1)):
                    try:
                        kinds.append(json.load(open(m.group(1))).get('kind', '')[:160])
                    except Exception:      # noqa
                        pass
            row['reported'] = sorted(set(kinds))
        finally:
            sh('git', '-C', REPO, 'checkout', '--', '.')
            sh('git', '-C', REPO, 'clean', '-fdq')
        rows.append(row)
        print(sid, row['verdict'], row.get('reported', [])[:1], flush=True)
    head = sh('git', '-C', REPO, 'rev-parse', '--short', 'HEAD').stdout.strip()
    mpath = os.path.join(ROOT, 'seeded', 'MATRIX.json')
    if only and os.path.exists(mpath):
        old = {r['id']: r for r in json.load(open(mpath))['rows']}
        old.update({r['id']: r for r in rows})
        rows = [old[k] for k in sorted(old)]
    json.dump(dict(repo_head=head, rows=rows), open(mpath, 'w'), indent=1)
    # the replays of seeded runs are not findings of the unchanged tree
    for f in glob.glob(os.path.join(ROOT, 'replay', '*.json')):
        os.remove(f)


if __name__ == '__main__':
    main()
