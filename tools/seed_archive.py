#!/usr/bin/env python3
"""tools/seed_archive.py <src-dir> <id> <detected: yes|no> <initially_missed: yes|no> <note...>"""
import json, os, shutil, sys
src, sid, det, missed = sys.argv[1:5]
note = ' '.join(sys.argv[5:])
dst = os.path.join('/verif/seeded', sid)
os.makedirs(dst, exist_ok=True)
for f in os.listdir(src):
    if f in ('patch.diff', 'demo.py', 'demo.md', 'demo.sh', 'meta.json'):
        shutil.copy(os.path.join(src, f), os.path.join(dst, f))
m = json.load(open(os.path.join(dst, 'meta.json')))
m['id'] = sid
m['confirmed'] = 'applies to the unchanged tree; the 267 baseline tests still pass; demonstration FAILs with the patch and PASSes without (re-run by tools/seed_eval.sh in a scratch worktree)'
m['detected_by_check'] = det == 'yes'
m['initially_missed'] = missed == 'yes'
m['note'] = note
json.dump(m, open(os.path.join(dst, 'meta.json'), 'w'), indent=1)
print('archived', sid)
