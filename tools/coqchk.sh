#!/bin/bash
# Re-check every compiled property file and all it depends on with Coq's independent checker
# and print the axioms they rely on (expected: none).  Needs a completed ./setup.sh or check run.
cd "$(dirname "$0")/../coq" && exec timeout 3000 coqchk -silent -o -Q . GIV $(for i in $(seq -w 1 20); do echo GIV.Props.C$i; done)
